//! Type-level witnesses for the Heathcliff static checks.
//!
//! Compile-PASS obligations (checked by `cargo +nightly check`): the types the thread-safety property
//! (C17) speaks about are `Send + Sync`, so sharing them between threads is admitted by the type
//! system only because their interior mutability is confined to locks (see R-LOCK).
//!
//! Compile-FAIL witnesses (checked by `cargo +nightly test --doc`, error codes honoured on nightly),
//! each paired with a compiling twin that differs only in the offending line:
//!  * an evaluator operand handed out as `&Ciphertext` cannot be written through (C06: read-only
//!    operands stay unchanged) — E0596;
//!  * a multiparty `Participant` is *not* `Send` (`Rc<RefCell<_>>`): the multiparty layer is outside
//!    the thread-safety claim — E0277.

use heathcliff::{
    BatchEncoder, CKKSEncoder, Ciphertext, ContextData, Decryptor, Encryptor, Evaluator, GaloisKeys, HeContext,
    KSwitchKeys, KeyGenerator, Plaintext, PublicKey, RelinKeys, SecretKey,
};

fn shareable<T: Send + Sync>() {}

/// C17: every object the property shares between threads is `Send + Sync`.
pub fn c17_send_sync_obligations() {
    shareable::<Decryptor>();
    shareable::<KeyGenerator>();
    shareable::<Evaluator>();
    shareable::<BatchEncoder>();
    shareable::<CKKSEncoder>();
    shareable::<HeContext>();
    shareable::<ContextData>();
    shareable::<Encryptor>();
    shareable::<Ciphertext>();
    shareable::<Plaintext>();
    shareable::<SecretKey>();
    shareable::<PublicKey>();
    shareable::<RelinKeys>();
    shareable::<GaloisKeys>();
    shareable::<KSwitchKeys>();
}

/// C06: a read-only operand (`&Ciphertext`) cannot be mutated by safe code.
///
/// Offending program (must fail with E0596: cannot borrow as mutable):
/// ```compile_fail,E0596
/// fn op(operand: &heathcliff::Ciphertext) {
///     operand.data_mut()[0] = 1; // write through a shared reference
/// }
/// ```
/// Compiling twin (differs only in the offending line):
/// ```
/// fn op(operand: &heathcliff::Ciphertext) {
///     let _ = operand.data()[0];
/// }
/// ```
pub struct ReadOnlyCiphertextOperand;

/// C06: likewise for plaintext operands.
///
/// ```compile_fail,E0596
/// fn op(operand: &heathcliff::Plaintext) {
///     operand.data_mut()[0] = 1;
/// }
/// ```
/// ```
/// fn op(operand: &heathcliff::Plaintext) {
///     let _ = operand.data()[0];
/// }
/// ```
pub struct ReadOnlyPlaintextOperand;

/// C06/C17: the evaluator's operations take `&self`; an `&Evaluator` gives no mutable access to the context.
///
/// ```compile_fail,E0308
/// fn op(ev: &heathcliff::Evaluator, ct: &heathcliff::Ciphertext) {
///     ev.negate_inplace(ct);
/// }
/// ```
/// ```
/// fn op(ev: &heathcliff::Evaluator, ct: &mut heathcliff::Ciphertext) {
///     ev.negate_inplace(ct);
/// }
/// ```
pub struct InplaceNeedsExclusiveBorrow;

/// C17 scope boundary: a multiparty `Participant` is not `Send` — the multiparty layer is single-threaded
/// by construction and not covered by the thread-safety claim.
///
/// ```compile_fail,E0277
/// fn needs_send<T: Send>() {}
/// fn main() { needs_send::<heathcliff::multiparty::participant::Participant>(); }
/// ```
/// ```
/// fn needs_send<T: Send>() {}
/// fn main() { needs_send::<heathcliff::Decryptor>(); }
/// ```
pub struct ParticipantIsNotSend;
