// Minimal JSON writer (no dependencies).
use std::fmt::Write;

pub fn esc(s: &str) -> String {
    let mut o = String::with_capacity(s.len() + 2);
    o.push('"');
    for c in s.chars() {
        match c {
            '"' => o.push_str("\\\""),
            '\\' => o.push_str("\\\\"),
            '\n' => o.push_str("\\n"),
            '\r' => o.push_str("\\r"),
            '\t' => o.push_str("\\t"),
            c if (c as u32) < 0x20 => {
                let _ = write!(o, "\\u{:04x}", c as u32);
            }
            c => o.push(c),
        }
    }
    o.push('"');
    o
}

/// An object under construction: `Obj::new("Call").s("name", "x").raw("args", "[..]").done()`
pub struct Obj {
    buf: String,
    first: bool,
}

impl Obj {
    pub fn new() -> Obj {
        Obj { buf: String::from("{"), first: true }
    }
    pub fn kind(k: &str) -> Obj {
        Obj::new().s("k", k)
    }
    fn key(&mut self, k: &str) {
        if !self.first {
            self.buf.push(',');
        }
        self.first = false;
        self.buf.push_str(&esc(k));
        self.buf.push(':');
    }
    pub fn s(mut self, k: &str, v: &str) -> Obj {
        self.key(k);
        self.buf.push_str(&esc(v));
        self
    }
    pub fn n(mut self, k: &str, v: i128) -> Obj {
        self.key(k);
        let _ = write!(self.buf, "{}", v);
        self
    }
    pub fn b(mut self, k: &str, v: bool) -> Obj {
        self.key(k);
        self.buf.push_str(if v { "true" } else { "false" });
        self
    }
    pub fn raw(mut self, k: &str, v: &str) -> Obj {
        self.key(k);
        self.buf.push_str(v);
        self
    }
    pub fn opt_raw(self, k: &str, v: Option<String>) -> Obj {
        match v {
            Some(v) => self.raw(k, &v),
            None => self,
        }
    }
    pub fn opt_s(self, k: &str, v: Option<String>) -> Obj {
        match v {
            Some(v) => self.s(k, &v),
            None => self,
        }
    }
    pub fn done(mut self) -> String {
        self.buf.push('}');
        self.buf
    }
}

pub fn arr<I: IntoIterator<Item = String>>(it: I) -> String {
    let mut o = String::from("[");
    let mut first = true;
    for x in it {
        if !first {
            o.push(',');
        }
        first = false;
        o.push_str(&x);
    }
    o.push(']');
    o
}

pub fn null() -> String {
    "null".to_string()
}
