// HIR export: typed, re-sugared expression trees + items/types/impls.
use crate::json::{arr, esc, null, Obj};
use crate::mirx;
use rustc_hir as hir;
use rustc_hir::def::{DefKind, Res};
use rustc_hir::def_id::{DefId, LocalDefId};
use rustc_hir::{ExprKind, LoopSource, MatchSource, PatKind, QPath, StmtKind};
use rustc_middle::ty::print::with_no_trimmed_paths;
use rustc_middle::ty::{self, Ty, TyCtxt, TypeckResults};
use rustc_span::hygiene::{ExpnKind, MacroKind};
use rustc_span::Span;
use std::collections::HashMap;

pub struct Strs {
    pub v: Vec<String>,
    pub m: HashMap<String, usize>,
}
impl Strs {
    pub fn new() -> Strs {
        Strs { v: Vec::new(), m: HashMap::new() }
    }
    pub fn id(&mut self, s: String) -> usize {
        if let Some(&i) = self.m.get(&s) {
            return i;
        }
        let i = self.v.len();
        self.m.insert(s.clone(), i);
        self.v.push(s);
        i
    }
}

pub fn def_path(tcx: TyCtxt<'_>, d: DefId) -> String {
    with_no_trimmed_paths!(tcx.def_path_str(d))
}

pub fn ty_str<'tcx>(t: Ty<'tcx>) -> String {
    with_no_trimmed_paths!(format!("{}", t))
}

pub fn line_of(tcx: TyCtxt<'_>, sp: Span) -> (String, usize, usize, usize) {
    let sp = sp.source_callsite();
    let sm = tcx.sess.source_map();
    let lo = sm.lookup_char_pos(sp.lo());
    let hi = sm.lookup_char_pos(sp.hi());
    let f = match &lo.file.name {
        rustc_span::FileName::Real(r) => match r.local_path() {
            Some(p) => p.to_string_lossy().to_string(),
            None => format!("{:?}", lo.file.name),
        },
        other => format!("{:?}", other),
    };
    (f, lo.line, lo.col.0 + 1, hi.line)
}

/// Callee description shared by HIR and MIR export.
pub fn callee_json<'tcx>(
    tcx: TyCtxt<'tcx>,
    owner: LocalDefId,
    def_id: DefId,
    args: ty::GenericArgsRef<'tcx>,
) -> String {
    let mut o = Obj::new().s("def", &def_path(tcx, def_id)).b("local", def_id.is_local());
    o = o.s("krate", tcx.crate_name(def_id.krate).as_str());
    o = o.s("name", tcx.item_name(def_id).as_str());
    let kind = tcx.def_kind(def_id);
    if matches!(kind, DefKind::AssocFn) {
        if let Some(tr) = tcx.trait_of_assoc(def_id) {
            o = o.s("trait", &def_path(tcx, tr));
            if args.len() > 0 {
                if let Some(t) = args.get(0).and_then(|a| a.as_type()) {
                    o = o.s("self", &ty_str(t));
                }
            }
        } else if let Some(im) = tcx.impl_of_assoc(def_id) {
            let st = tcx.type_of(im).instantiate_identity().skip_normalization();
            o = o.s("self", &ty_str(st));
            if let Some(tr) = tcx.impl_opt_trait_id(im) {
                o = o.s("trait", &def_path(tcx, tr));
            }
        }
    }
    if matches!(kind, DefKind::Fn | DefKind::AssocFn) {
        // resolve trait methods to their implementation when the receiver type is known
        let env = ty::TypingEnv::post_analysis(tcx, owner);
        let has_infer = args.iter().any(|a| format!("{:?}", a).contains("?"));
        let arity_ok = tcx.generics_of(def_id).count() == args.len();
        if !has_infer && arity_ok {
            if let Ok(Some(inst)) = ty::Instance::try_resolve(tcx, env, def_id, args) {
                let rd = inst.def_id();
                if rd != def_id {
                    o = o.s("inst", &def_path(tcx, rd)).b("inst_local", rd.is_local());
                }
            }
        }
    }
    if !args.is_empty() {
        let a: Vec<String> = args.iter().map(|g| esc(&with_no_trimmed_paths!(format!("{}", g)))).collect();
        o = o.raw("targs", &arr(a));
    }
    o.done()
}

struct Cx<'a, 'tcx> {
    tcx: TyCtxt<'tcx>,
    owner: LocalDefId,
    tr: &'tcx TypeckResults<'tcx>,
    strs: &'a mut Strs,
}

const COLLAPSE: &[&str] = &[
    "panic", "assert", "assert_eq", "assert_ne", "debug_assert", "debug_assert_eq", "debug_assert_ne",
    "unreachable", "unimplemented", "todo", "println", "eprintln", "print", "eprint", "format", "write",
    "writeln", "dbg",
];

impl<'a, 'tcx> Cx<'a, 'tcx> {
    fn tyid(&mut self, t: Ty<'tcx>) -> usize {
        self.strs.id(ty_str(t))
    }

    fn base(&mut self, k: &str, e: &hir::Expr<'tcx>) -> Obj {
        let t = self.tr.expr_ty(e);
        let ta = self.tr.expr_ty_adjusted(e);
        let (_, l, c, el) = line_of(self.tcx, e.span);
        let mut o = Obj::kind(k).n("t", self.tyid(t) as i128).n("l", l as i128).n("c", c as i128);
        if el != l {
            o = o.n("el", el as i128);
        }
        if ta != t {
            o = o.n("ta", self.tyid(ta) as i128);
        }
        o.n("id", e.hir_id.local_id.as_u32() as i128)
    }

    /// If `sp` comes from the expansion of a collapsible std macro *relative to the enclosing
    /// context*, return (macro name, call-site span).
    fn macro_of(&self, sp: Span) -> Option<(String, Span)> {
        if !sp.from_expansion() {
            return None;
        }
        // walk outwards to the outermost bang-macro expansion whose call site is not itself in a
        // collapsible macro
        let mut cur = sp;
        let mut found: Option<(String, Span)> = None;
        loop {
            if !cur.from_expansion() {
                break;
            }
            let ed = cur.ctxt().outer_expn_data();
            match ed.kind {
                ExpnKind::Macro(MacroKind::Bang, name) => {
                    let n = name.as_str().to_string();
                    let n = n.rsplit("::").next().unwrap_or("").to_string();
                    if COLLAPSE.contains(&n.as_str()) {
                        found = Some((n, ed.call_site));
                    }
                }
                _ => {}
            }
            cur = ed.call_site;
        }
        found
    }

    fn expr(&mut self, e: &hir::Expr<'tcx>) -> String {
        // transparent wrappers
        match e.kind {
            ExprKind::DropTemps(inner) | ExprKind::Use(inner, _) | ExprKind::Type(inner, _) => {
                return self.expr(inner);
            }
            _ => {}
        }
        if let Some((name, call_site)) = self.macro_of(e.span) {
            // collapse: gather maximal sub-expressions written by the user at the call site
            let mut args: Vec<&hir::Expr<'tcx>> = Vec::new();
            collect_user_exprs(e, call_site, &mut args);
            args.sort_by_key(|a| a.span.lo());
            let a: Vec<String> = args.iter().map(|x| self.expr(x)).collect();
            let t = self.tr.expr_ty(e);
            let (_, l, c, _) = line_of(self.tcx, call_site);
            return Obj::kind("Macro")
                .s("name", &name)
                .n("t", self.tyid(t) as i128)
                .n("l", l as i128)
                .n("c", c as i128)
                .n("id", e.hir_id.local_id.as_u32() as i128)
                .raw("args", &arr(a))
                .done();
        }
        match e.kind {
            ExprKind::Block(b, label) => {
                let o = self.base("Block", e);
                self.block_into(o, b, label.map(|l| l.ident.to_string()))
            }
            ExprKind::Call(f, args) => {
                let mut o = self.base("Call", e);
                let mut done = false;
                if let ExprKind::Path(ref qp) = f.kind {
                    let res = self.tr.qpath_res(qp, f.hir_id);
                    match res {
                        Res::Def(DefKind::Fn | DefKind::AssocFn, did) => {
                            let ga = self.tr.node_args(f.hir_id);
                            o = o.raw("f", &callee_json(self.tcx, self.owner, did, ga));
                            done = true;
                        }
                        Res::Def(DefKind::Ctor(..), did) => {
                            o = o.s("ctor", &def_path(self.tcx, did));
                            done = true;
                        }
                        Res::SelfCtor(_) => {
                            o = o.s("ctor", "Self");
                            done = true;
                        }
                        _ => {}
                    }
                }
                if !done {
                    let fe = self.expr(f);
                    o = o.raw("fe", &fe);
                }
                let a: Vec<String> = args.iter().map(|x| self.expr(x)).collect();
                o.raw("args", &arr(a)).done()
            }
            ExprKind::MethodCall(seg, recv, args, _) => {
                let mut o = self.base("MCall", e).s("name", seg.ident.as_str());
                if let Some(did) = self.tr.type_dependent_def_id(e.hir_id) {
                    let ga = self.tr.node_args(e.hir_id);
                    o = o.raw("f", &callee_json(self.tcx, self.owner, did, ga));
                }
                let r = self.expr(recv);
                let a: Vec<String> = args.iter().map(|x| self.expr(x)).collect();
                o.raw("recv", &r).raw("args", &arr(a)).done()
            }
            ExprKind::Tup(es) => {
                let a: Vec<String> = es.iter().map(|x| self.expr(x)).collect();
                self.base("Tup", e).raw("es", &arr(a)).done()
            }
            ExprKind::Array(es) => {
                let a: Vec<String> = es.iter().map(|x| self.expr(x)).collect();
                self.base("Array", e).raw("es", &arr(a)).done()
            }
            ExprKind::Binary(op, a, b) => {
                let mut o = self.base("Bin", e).s("op", op.node.as_str());
                if let Some(did) = self.tr.type_dependent_def_id(e.hir_id) {
                    o = o.s("opfn", &def_path(self.tcx, did));
                }
                let (x, y) = (self.expr(a), self.expr(b));
                o.raw("a", &x).raw("b", &y).done()
            }
            ExprKind::Unary(op, a) => {
                let x = self.expr(a);
                let ops = match op {
                    hir::UnOp::Deref => "*",
                    hir::UnOp::Not => "!",
                    hir::UnOp::Neg => "-",
                };
                self.base("Un", e).s("op", ops).raw("e", &x).done()
            }
            ExprKind::Lit(lit) => {
                let v = format!("{}", lit.node);
                self.base("Lit", e).s("v", &v).done()
            }
            ExprKind::Cast(a, _) => {
                let x = self.expr(a);
                self.base("Cast", e).raw("e", &x).done()
            }
            ExprKind::Let(le) => {
                let p = self.pat(le.pat);
                let i = self.expr(le.init);
                self.base("LetE", e).raw("pat", &p).raw("init", &i).done()
            }
            ExprKind::If(c, t, el) => {
                let (cs, ts) = (self.expr(c), self.expr(t));
                let es = el.map(|x| self.expr(x)).unwrap_or_else(null);
                self.base("If", e).raw("c", &cs).raw("th", &ts).raw("el", &es).done()
            }
            ExprKind::Loop(body, label, src, _) => self.loop_expr(e, body, label, src),
            ExprKind::Match(scrut, arms, src) => self.match_expr(e, scrut, arms, src),
            ExprKind::Closure(cl) => {
                let body = self.tcx.hir_body(cl.body);
                let ps: Vec<String> = body.params.iter().map(|p| self.pat(p.pat)).collect();
                let b = self.expr(body.value);
                self.base("Closure", e)
                    .s("def", &def_path(self.tcx, cl.def_id.to_def_id()))
                    .raw("params", &arr(ps))
                    .raw("body", &b)
                    .done()
            }
            ExprKind::Assign(l, r, _) => {
                let (x, y) = (self.expr(l), self.expr(r));
                self.base("Assign", e).raw("lhs", &x).raw("rhs", &y).done()
            }
            ExprKind::AssignOp(op, l, r) => {
                let (x, y) = (self.expr(l), self.expr(r));
                let mut o = self.base("AssignOp", e).s("op", op.node.as_str());
                if let Some(did) = self.tr.type_dependent_def_id(e.hir_id) {
                    o = o.s("opfn", &def_path(self.tcx, did));
                }
                o.raw("lhs", &x).raw("rhs", &y).done()
            }
            ExprKind::Field(b, ident) => {
                let x = self.expr(b);
                self.base("Field", e).s("name", ident.as_str()).raw("e", &x).done()
            }
            ExprKind::Index(b, i, _) => {
                let (x, y) = (self.expr(b), self.expr(i));
                let mut o = self.base("Index", e);
                if let Some(did) = self.tr.type_dependent_def_id(e.hir_id) {
                    o = o.s("opfn", &def_path(self.tcx, did));
                }
                o.raw("e", &x).raw("i", &y).done()
            }
            ExprKind::Path(ref qp) => {
                let res = self.tr.qpath_res(qp, e.hir_id);
                let o = self.base("Path", e);
                self.res_into(o, res, e.hir_id).done()
            }
            ExprKind::AddrOf(_, m, a) => {
                let x = self.expr(a);
                self.base("Ref", e).b("mut", m.is_mut()).raw("e", &x).done()
            }
            ExprKind::Break(dest, v) => {
                let mut o = self.base("Break", e);
                if let Ok(t) = dest.target_id {
                    o = o.n("target", t.local_id.as_u32() as i128);
                }
                let vs = v.map(|x| self.expr(x)).unwrap_or_else(null);
                o.raw("e", &vs).done()
            }
            ExprKind::Continue(dest) => {
                let mut o = self.base("Continue", e);
                if let Ok(t) = dest.target_id {
                    o = o.n("target", t.local_id.as_u32() as i128);
                }
                o.done()
            }
            ExprKind::Ret(v) => {
                let vs = v.map(|x| self.expr(x)).unwrap_or_else(null);
                self.base("Ret", e).raw("e", &vs).done()
            }
            ExprKind::Struct(qp, fields, tail) => {
                let res = self.tr.qpath_res(qp, e.hir_id);
                let mut o = self.base("Struct", e);
                if let Res::Def(_, did) = res {
                    o = o.s("path", &def_path(self.tcx, did));
                }
                let fs: Vec<String> = fields
                    .iter()
                    .map(|f| {
                        let x = self.expr(f.expr);
                        Obj::new().s("name", f.ident.as_str()).raw("e", &x).done()
                    })
                    .collect();
                if let hir::StructTailExpr::Base(b) = tail {
                    let x = self.expr(b);
                    o = o.raw("base", &x);
                }
                o.raw("fields", &arr(fs)).done()
            }
            ExprKind::Repeat(a, n) => {
                let x = self.expr(a);
                let ns = with_no_trimmed_paths!(format!("{:?}", n.kind));
                self.base("Repeat", e).raw("e", &x).s("n", &ns).done()
            }
            _ => self.base("Other", e).s("what", &format!("{:?}", std::mem::discriminant(&e.kind))).done(),
        }
    }

    fn res_into(&mut self, o: Obj, res: Res, hir_id: hir::HirId) -> Obj {
        match res {
            Res::Local(h) => {
                let name = self.tcx.hir_name(h).to_string();
                o.s("res", "local").n("lid", h.local_id.as_u32() as i128).s("name", &name)
            }
            Res::Def(kind, did) => {
                let mut o = o.s("res", &format!("{:?}", kind)).s("def", &def_path(self.tcx, did)).b("local", did.is_local());
                if matches!(kind, DefKind::Fn | DefKind::AssocFn) {
                    let ga = self.tr.node_args(hir_id);
                    o = o.raw("f", &callee_json(self.tcx, self.owner, did, ga));
                }
                o
            }
            Res::SelfCtor(_) => o.s("res", "selfctor"),
            other => o.s("res", &format!("{:?}", other)),
        }
    }

    fn block_into(&mut self, o: Obj, b: &hir::Block<'tcx>, label: Option<String>) -> String {
        let mut stmts: Vec<String> = Vec::new();
        for s in b.stmts {
            match s.kind {
                StmtKind::Let(l) => {
                    let (_, ln, _, _) = line_of(self.tcx, s.span);
                    let p = self.pat(l.pat);
                    let mut so = Obj::kind("Let").n("l", ln as i128).raw("pat", &p);
                    if let Some(i) = l.init {
                        let x = self.expr(i);
                        so = so.raw("init", &x);
                    }
                    if let Some(els) = l.els {
                        let eo = Obj::kind("Block").n("l", ln as i128);
                        let x = self.block_into(eo, els, None);
                        so = so.raw("els", &x);
                    }
                    stmts.push(so.done());
                }
                StmtKind::Expr(x) => {
                    let xs = self.expr(x);
                    stmts.push(Obj::kind("Expr").raw("e", &xs).done());
                }
                StmtKind::Semi(x) => {
                    let xs = self.expr(x);
                    stmts.push(Obj::kind("Semi").raw("e", &xs).done());
                }
                StmtKind::Item(_) => {}
            }
        }
        let tail = b.expr.map(|x| self.expr(x)).unwrap_or_else(null);
        let unsafe_ = !matches!(b.rules, hir::BlockCheckMode::DefaultBlock);
        let mut o = o.raw("stmts", &arr(stmts)).raw("expr", &tail);
        if unsafe_ {
            o = o.b("unsafe", true);
        }
        if let Some(l) = label {
            o = o.s("label", &l);
        }
        o.done()
    }

    fn loop_expr(
        &mut self,
        e: &hir::Expr<'tcx>,
        body: &hir::Block<'tcx>,
        label: Option<rustc_ast::Label>,
        src: LoopSource,
    ) -> String {
        if let LoopSource::While = src {
            // loop { if cond { body } else { break } }
            if let Some(inner) = body.expr {
                let inner = peel(inner);
                if let ExprKind::If(c, t, _) = inner.kind {
                    let cs = self.expr(c);
                    let ts = self.expr(t);
                    return self.base("While", e).raw("c", &cs).raw("body", &ts).done();
                }
            }
        }
        let o = Obj::kind("Block").n("l", line_of(self.tcx, body.span).1 as i128);
        let b = self.block_into(o, body, None);
        let mut o = self.base("Loop", e).raw("body", &b);
        if let Some(l) = label {
            o = o.s("label", l.ident.as_str());
        }
        o.done()
    }

    fn match_expr(
        &mut self,
        e: &hir::Expr<'tcx>,
        scrut: &hir::Expr<'tcx>,
        arms: &[hir::Arm<'tcx>],
        src: MatchSource,
    ) -> String {
        match src {
            MatchSource::ForLoopDesugar => {
                // match IntoIterator::into_iter(head) { mut iter => loop { match next(&mut iter) {
                //   None => break, Some(pat) => body } } }
                if let ExprKind::Call(_, [head]) = peel(scrut).kind {
                    if let Some(arm) = arms.first() {
                        if let ExprKind::Loop(lb, _, LoopSource::ForLoop, _) = peel(arm.body).kind {
                            let inner = lb.expr.or_else(|| {
                                lb.stmts.first().and_then(|s| match s.kind {
                                    StmtKind::Expr(x) | StmtKind::Semi(x) => Some(x),
                                    _ => None,
                                })
                            });
                            if let Some(inner) = inner {
                                if let ExprKind::Match(_, iarms, _) = peel(inner).kind {
                                    for ia in iarms {
                                        let some_pat = match ia.pat.kind {
                                            PatKind::TupleStruct(_, [p], _) => Some(p),
                                            PatKind::Struct(_, [f], _) => Some(f.pat),
                                            _ => None,
                                        };
                                        if let Some(p) = some_pat {
                                            let ps = self.pat(p);
                                            let hs = self.expr(head);
                                            let bs = self.expr(ia.body);
                                            // loop id = the inner Loop's hir id (break/continue targets)
                                            let lid = peel(arm.body).hir_id.local_id.as_u32();
                                            return self
                                                .base("For", e)
                                                .n("loop_id", lid as i128)
                                                .raw("pat", &ps)
                                                .raw("iter", &hs)
                                                .raw("body", &bs)
                                                .done();
                                        }
                                    }
                                }
                            }
                        }
                    }
                }
            }
            MatchSource::TryDesugar(_) => {
                if let ExprKind::Call(_, [inner]) = peel(scrut).kind {
                    let x = self.expr(inner);
                    return self.base("Try", e).raw("e", &x).done();
                }
            }
            _ => {}
        }
        let s = self.expr(scrut);
        let a: Vec<String> = arms
            .iter()
            .map(|arm| {
                let p = self.pat(arm.pat);
                let g = arm.guard.map(|g| self.expr(g)).unwrap_or_else(null);
                let b = self.expr(arm.body);
                Obj::new().raw("pat", &p).raw("guard", &g).raw("body", &b).done()
            })
            .collect();
        self.base("Match", e).raw("e", &s).raw("arms", &arr(a)).done()
    }

    fn pat(&mut self, p: &hir::Pat<'tcx>) -> String {
        let t = self.tr.pat_ty(p);
        let tid = self.tyid(t);
        let o = |k: &str| Obj::kind(k).n("t", tid as i128);
        match p.kind {
            PatKind::Wild | PatKind::Missing => o("PWild").done(),
            PatKind::Binding(mode, hid, ident, sub) => {
                let mut ob = o("PBind")
                    .s("name", ident.as_str())
                    .n("lid", hid.local_id.as_u32() as i128)
                    .b("mut", mode.1.is_mut())
                    .b("byref", !matches!(mode.0, hir::ByRef::No));
                if let Some(s) = sub {
                    let x = self.pat(s);
                    ob = ob.raw("sub", &x);
                }
                ob.done()
            }
            PatKind::Struct(ref qp, fields, _) => {
                let res = self.tr.qpath_res(qp, p.hir_id);
                let mut ob = o("PStruct");
                if let Res::Def(_, did) = res {
                    ob = ob.s("path", &def_path(self.tcx, did));
                }
                let fs: Vec<String> = fields
                    .iter()
                    .map(|f| {
                        let x = self.pat(f.pat);
                        Obj::new().s("name", f.ident.as_str()).raw("pat", &x).done()
                    })
                    .collect();
                ob.raw("fields", &arr(fs)).done()
            }
            PatKind::TupleStruct(ref qp, ps, _) => {
                let res = self.tr.qpath_res(qp, p.hir_id);
                let mut ob = o("PTupleStruct");
                if let Res::Def(_, did) = res {
                    ob = ob.s("path", &def_path(self.tcx, did));
                }
                let xs: Vec<String> = ps.iter().map(|x| self.pat(x)).collect();
                ob.raw("ps", &arr(xs)).done()
            }
            PatKind::Or(ps) => {
                let xs: Vec<String> = ps.iter().map(|x| self.pat(x)).collect();
                o("POr").raw("ps", &arr(xs)).done()
            }
            PatKind::Tuple(ps, _) => {
                let xs: Vec<String> = ps.iter().map(|x| self.pat(x)).collect();
                o("PTuple").raw("ps", &arr(xs)).done()
            }
            PatKind::Box(s) | PatKind::Deref(s) | PatKind::Ref(s, _, _) => {
                let x = self.pat(s);
                o("PRef").raw("sub", &x).done()
            }
            PatKind::Expr(pe) => match pe.kind {
                hir::PatExprKind::Lit { lit, negated } => {
                    let v = format!("{}{}", if negated { "-" } else { "" }, lit.node);
                    o("PLit").s("v", &v).done()
                }
                hir::PatExprKind::Path(ref qp) => {
                    let res = self.tr.qpath_res(qp, pe.hir_id);
                    let mut ob = o("PPath");
                    if let Res::Def(_, did) = res {
                        ob = ob.s("path", &def_path(self.tcx, did));
                    }
                    ob.done()
                }
            },
            PatKind::Guard(s, g) => {
                let x = self.pat(s);
                let gs = self.expr(g);
                o("PGuard").raw("sub", &x).raw("guard", &gs).done()
            }
            PatKind::Range(..) => o("PRange").done(),
            PatKind::Slice(a, m, b) => {
                let mut xs: Vec<String> = a.iter().map(|x| self.pat(x)).collect();
                if let Some(m) = m {
                    xs.push(self.pat(m));
                }
                xs.extend(b.iter().map(|x| self.pat(x)));
                o("PSlice").raw("ps", &arr(xs)).done()
            }
            _ => o("POther").done(),
        }
    }
}

fn peel<'a, 'tcx>(mut e: &'a hir::Expr<'tcx>) -> &'a hir::Expr<'tcx> {
    loop {
        match e.kind {
            ExprKind::DropTemps(i) | ExprKind::Use(i, _) | ExprKind::Type(i, _) => e = i,
            _ => return e,
        }
    }
}

/// Collect the maximal sub-expressions of `e` that were written at the macro call site
/// (their span is not part of the macro's own expansion).
fn collect_user_exprs<'a, 'tcx>(e: &'a hir::Expr<'tcx>, call_site: Span, out: &mut Vec<&'a hir::Expr<'tcx>>) {
    use rustc_hir::intravisit::{self, Visitor};
    struct V<'a, 'tcx> {
        call_ctxt: rustc_span::SyntaxContext,
        call_site: Span,
        out: *mut Vec<&'a hir::Expr<'tcx>>,
        root: hir::HirId,
    }
    impl<'a, 'tcx> Visitor<'a> for V<'a, 'tcx>
    where
        'tcx: 'a,
    {
        fn visit_expr(&mut self, x: &'a hir::Expr<'a>) {
            let user = x.hir_id != self.root
                && x.span.ctxt() == self.call_ctxt
                && self.call_site.contains(x.span)
                && !matches!(x.kind, ExprKind::DropTemps(_));
            if user {
                // SAFETY: the vector outlives the visitor; lifetimes 'a/'tcx are the same arena.
                unsafe {
                    (*self.out).push(std::mem::transmute::<&'a hir::Expr<'a>, &'a hir::Expr<'tcx>>(x));
                }
            } else {
                intravisit::walk_expr(self, x);
            }
        }
    }
    let mut v = V { call_ctxt: call_site.ctxt(), call_site, out: out as *mut _, root: e.hir_id };
    // SAFETY: see above.
    let e2: &'a hir::Expr<'a> = unsafe { std::mem::transmute(e) };
    v.visit_expr(e2);
}

fn vis_str(tcx: TyCtxt<'_>, d: DefId) -> String {
    match tcx.visibility(d) {
        ty::Visibility::Public => "pub".to_string(),
        ty::Visibility::Restricted(m) => {
            if m.is_crate_root() {
                "crate".to_string()
            } else {
                format!("in:{}", def_path(tcx, m))
            }
        }
    }
}

pub fn export<'tcx>(tcx: TyCtxt<'tcx>, out: &str) {
    let mut strs = Strs::new();
    let mut items: Vec<String> = Vec::new();
    let mut hirs: Vec<String> = Vec::new();
    let mut mirs: Vec<String> = Vec::new();
    let krate = tcx.crate_name(rustc_hir::def_id::LOCAL_CRATE).to_string();

    for owner in tcx.hir_body_owners() {
        let did = owner.to_def_id();
        let kind = tcx.def_kind(did);
        let path = def_path(tcx, did);
        match kind {
            DefKind::Fn | DefKind::AssocFn => {
                let body = tcx.hir_body_owned_by(owner);
                let tr = tcx.typeck(owner);
                let (file, l, _, el) = line_of(tcx, tcx.def_span(did));
                let (_, _, _, bel) = line_of(tcx, body.value.span);
                let sig = tcx.fn_sig(did).instantiate_identity().skip_normalization().skip_binder();
                let mut cx = Cx { tcx, owner, tr, strs: &mut strs };
                let mut params: Vec<String> = Vec::new();
                for (i, p) in body.params.iter().enumerate() {
                    let pt = sig.inputs().get(i).copied();
                    let pj = cx.pat(p.pat);
                    let mut po = Obj::new().raw("pat", &pj);
                    if let Some(pt) = pt {
                        po = po.s("ty", &ty_str(pt));
                    }
                    params.push(po.done());
                }
                let mut io = Obj::new()
                    .s("path", &path)
                    .s("name", tcx.item_name(did).as_str())
                    .s("kind", if matches!(kind, DefKind::Fn) { "fn" } else { "assoc_fn" })
                    .s("vis", &vis_str(tcx, did))
                    .s("file", &file)
                    .n("l", l as i128)
                    .n("el", el.max(bel) as i128)
                    .b("unsafe", sig.safety().is_unsafe())
                    .s("ret", &ty_str(sig.output()))
                    .raw("params", &arr(params));
                if let Some(im) = tcx.impl_of_assoc(did) {
                    let st = tcx.type_of(im).instantiate_identity().skip_normalization();
                    io = io.s("impl_self", &ty_str(st));
                    if let Some(t) = tcx.impl_opt_trait_id(im) {
                        io = io.s("impl_trait", &def_path(tcx, t));
                    }
                } else if let Some(t) = tcx.trait_of_assoc(did) {
                    io = io.s("in_trait", &def_path(tcx, t));
                }
                let parent_mod = tcx.parent_module_from_def_id(owner);
                io = io.s("module", &def_path(tcx, parent_mod.to_def_id()));
                items.push(io.done());
                let h = cx.expr(body.value);
                hirs.push(format!("{}:{}", esc(&path), h));
                mirs.push(format!("{}:{}", esc(&path), mirx::body_json(tcx, owner, &mut strs)));
            }
            DefKind::Closure => {
                mirs.push(format!("{}:{}", esc(&path), mirx::body_json(tcx, owner, &mut strs)));
            }
            _ => {}
        }
    }

    // types
    let mut types: Vec<String> = Vec::new();
    let mut consts: Vec<String> = Vec::new();
    let citems = tcx.hir_crate_items(());
    for ld in citems.definitions() {
        let did = ld.to_def_id();
        match tcx.def_kind(did) {
            DefKind::Struct | DefKind::Enum => {
                let adt = tcx.adt_def(did);
                let (file, l, _, _) = line_of(tcx, tcx.def_span(did));
                let mut variants: Vec<String> = Vec::new();
                for v in adt.variants() {
                    let fs: Vec<String> = v
                        .fields
                        .iter()
                        .map(|f| {
                            let ft = tcx.type_of(f.did).instantiate_identity().skip_normalization();
                            Obj::new()
                                .s("name", f.name.as_str())
                                .s("ty", &ty_str(ft))
                                .s("vis", &match f.vis {
                                    ty::Visibility::Public => "pub".to_string(),
                                    _ => "priv".to_string(),
                                })
                                .done()
                        })
                        .collect();
                    variants.push(Obj::new().s("name", v.name.as_str()).raw("fields", &arr(fs)).done());
                }
                let self_ty = tcx.type_of(did).instantiate_identity().skip_normalization();
                let env = ty::TypingEnv::post_analysis(tcx, did);
                let generic = tcx.generics_of(did).count() > 0;
                let freeze = if generic { None } else { Some(self_ty.is_freeze(tcx, env)) };
                let mut o = Obj::new()
                    .s("path", &def_path(tcx, did))
                    .s("kind", if adt.is_enum() { "enum" } else { "struct" })
                    .s("file", &file)
                    .n("l", l as i128)
                    .s("vis", &vis_str(tcx, did))
                    .raw("variants", &arr(variants));
                if let Some(f) = freeze {
                    o = o.b("freeze", f);
                }
                types.push(o.done());
            }
            DefKind::Const { .. } | DefKind::AssocConst { .. } | DefKind::Static { .. } => {
                let t = tcx.type_of(did).instantiate_identity().skip_normalization();
                let mut o = Obj::new()
                    .s("path", &def_path(tcx, did))
                    .s("kind", &format!("{:?}", tcx.def_kind(did)))
                    .s("ty", &ty_str(t));
                if matches!(tcx.def_kind(did), DefKind::Const { .. }) && tcx.generics_of(did).count() == 0 {
                    if let Ok(v) = tcx.const_eval_poly(did) {
                        if let Some(s) = v.try_to_scalar_int() {
                            o = o.s("value", &format!("{}", s.to_bits_unchecked()));
                        }
                    }
                }
                consts.push(o.done());
            }
            _ => {}
        }
    }

    // impls
    let mut impls: Vec<String> = Vec::new();
    for ld in citems.definitions() {
        let did = ld.to_def_id();
        if let DefKind::Impl { of_trait } = tcx.def_kind(did) {
            let st = tcx.type_of(did).instantiate_identity().skip_normalization();
            let mut o = Obj::new().s("self", &ty_str(st));
            if of_trait {
                let tr = tcx.impl_trait_ref(did).instantiate_identity().skip_normalization();
                o = o.s("trait", &def_path(tcx, tr.def_id)).s("trait_ref", &with_no_trimmed_paths!(format!("{}", tr)));
            }
            let ms: Vec<String> = tcx
                .associated_item_def_ids(did)
                .iter()
                .filter(|d| matches!(tcx.def_kind(**d), DefKind::AssocFn))
                .map(|d| esc(&def_path(tcx, *d)))
                .collect();
            let (file, l, _, _) = line_of(tcx, tcx.def_span(did));
            impls.push(o.raw("methods", &arr(ms)).s("file", &file).n("l", l as i128).done());
        }
    }

    std::fs::create_dir_all(out).expect("hcx: cannot create output dir");
    let meta = Obj::new()
        .s("crate", &krate)
        .s("rustc", &rustc_interface::util::rustc_version_str().unwrap_or("?").to_string())
        .raw("items", &arr(items))
        .raw("types", &arr(types))
        .raw("consts", &arr(consts))
        .raw("impls", &arr(impls))
        .done();
    std::fs::write(format!("{}/items.json", out), meta).expect("hcx: write items");
    let tys: Vec<String> = strs.v.iter().map(|s| esc(s)).collect();
    std::fs::write(format!("{}/strs.json", out), arr(tys)).expect("hcx: write strs");
    std::fs::write(format!("{}/hir.json", out), format!("{{{}}}", hirs.join(",\n"))).expect("hcx: write hir");
    std::fs::write(format!("{}/mir.json", out), format!("{{{}}}", mirs.join(",\n"))).expect("hcx: write mir");
    std::fs::write(format!("{}/DONE", out), krate).expect("hcx: write DONE");
}
