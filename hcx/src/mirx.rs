// MIR export: control-flow graph with summarised statements and resolved call terminators.
use crate::hirx::{callee_json, def_path, line_of, ty_str, Strs};
use crate::json::{arr, esc, Obj};
use rustc_hir::def_id::LocalDefId;
use rustc_middle::mir::{
    AggregateKind, BorrowKind, Body, CastKind, Operand, Place, ProjectionElem, Rvalue, StatementKind, TerminatorKind,
};
use rustc_middle::ty::{self, TyCtxt};

fn place_json<'tcx>(p: &Place<'tcx>) -> String {
    let mut proj: Vec<String> = Vec::new();
    for e in p.projection.iter() {
        let s = match e {
            ProjectionElem::Deref => "*".to_string(),
            ProjectionElem::Field(f, _) => format!(".{}", f.as_usize()),
            ProjectionElem::Index(l) => format!("[_{}]", l.as_usize()),
            ProjectionElem::ConstantIndex { offset, from_end, .. } => {
                format!("[{}{}]", if from_end { "-" } else { "" }, offset)
            }
            ProjectionElem::Subslice { from, to, from_end } => format!("[{}..{}{}]", from, if from_end { "-" } else { "" }, to),
            ProjectionElem::Downcast(_, v) => format!("as{}", v.as_usize()),
            _ => "?".to_string(),
        };
        proj.push(esc(&s));
    }
    Obj::new().n("l", p.local.as_usize() as i128).raw("p", &arr(proj)).done()
}

fn operand_json<'tcx>(tcx: TyCtxt<'tcx>, owner: LocalDefId, o: &Operand<'tcx>) -> String {
    match o {
        Operand::Copy(p) => Obj::new().s("o", "copy").raw("pl", &place_json(p)).done(),
        Operand::Move(p) => Obj::new().s("o", "move").raw("pl", &place_json(p)).done(),
        Operand::Constant(c) => {
            let t = c.const_.ty();
            let mut ob = Obj::new().s("o", "const").s("ty", &ty_str(t));
            if let ty::FnDef(did, args) = *t.kind() {
                ob = ob.raw("f", &callee_json(tcx, owner, did, args));
            } else {
                let env = ty::TypingEnv::post_analysis(tcx, owner);
                if let Some(si) = c.const_.try_eval_scalar_int(tcx, env) {
                    ob = ob.s("v", &format!("{}", si.to_bits_unchecked()));
                }
            }
            ob.done()
        }
        #[allow(unreachable_patterns)]
        _ => Obj::new().s("o", "other").done(),
    }
}

fn rvalue_json<'tcx>(tcx: TyCtxt<'tcx>, owner: LocalDefId, rv: &Rvalue<'tcx>) -> String {
    let op = |o: &Operand<'tcx>| operand_json(tcx, owner, o);
    match rv {
        Rvalue::Use(o, ..) => Obj::kind("use").raw("ops", &arr([op(o)])).done(),
        Rvalue::Repeat(o, _) => Obj::kind("repeat").raw("ops", &arr([op(o)])).done(),
        Rvalue::Ref(_, bk, p) => {
            let m = matches!(bk, BorrowKind::Mut { .. });
            Obj::kind(if m { "mutref" } else { "ref" }).raw("pl", &place_json(p)).done()
        }
        Rvalue::RawPtr(k, p) => Obj::kind("rawptr").s("m", &format!("{:?}", k)).raw("pl", &place_json(p)).done(),
        Rvalue::Cast(ck, o, t) => {
            let cks = match ck {
                CastKind::IntToInt => "IntToInt",
                CastKind::FloatToInt => "FloatToInt",
                CastKind::FloatToFloat => "FloatToFloat",
                CastKind::IntToFloat => "IntToFloat",
                CastKind::PtrToPtr => "PtrToPtr",
                CastKind::Transmute => "Transmute",
                CastKind::PointerCoercion(..) => "PointerCoercion",
                _ => "Other",
            };
            Obj::kind("cast").s("ck", cks).s("to", &ty_str(*t)).raw("ops", &arr([op(o)])).done()
        }
        Rvalue::BinaryOp(b, ops) => {
            Obj::kind("binop").s("op", &format!("{:?}", b)).raw("ops", &arr([op(&ops.0), op(&ops.1)])).done()
        }
        Rvalue::UnaryOp(u, o) => Obj::kind("unop").s("op", &format!("{:?}", u)).raw("ops", &arr([op(o)])).done(),
        Rvalue::Discriminant(p) => Obj::kind("discr").raw("pl", &place_json(p)).done(),
        Rvalue::Aggregate(k, fields) => {
            let ks = match **k {
                AggregateKind::Array(_) => "array".to_string(),
                AggregateKind::Tuple => "tuple".to_string(),
                AggregateKind::Adt(did, v, ..) => format!("adt:{}:{}", def_path(tcx, did), v.as_usize()),
                AggregateKind::Closure(did, _) => format!("closure:{}", def_path(tcx, did)),
                _ => "other".to_string(),
            };
            let fs: Vec<String> = fields.iter().map(|f| op(f)).collect();
            Obj::kind("aggregate").s("ak", &ks).raw("ops", &arr(fs)).done()
        }
        Rvalue::CopyForDeref(p) => Obj::kind("use").raw("ops", &arr([Obj::new().s("o", "copy").raw("pl", &place_json(p)).done()])).done(),
        Rvalue::ThreadLocalRef(d) => Obj::kind("tls").s("def", &def_path(tcx, *d)).done(),
        _ => Obj::kind("other").done(),
    }
}

pub fn body_json<'tcx>(tcx: TyCtxt<'tcx>, owner: LocalDefId, strs: &mut Strs) -> String {
    let body: &Body<'tcx> = tcx.optimized_mir(owner.to_def_id());
    let mut names: Vec<Option<String>> = vec![None; body.local_decls.len()];
    for vdi in &body.var_debug_info {
        if let rustc_middle::mir::VarDebugInfoContents::Place(p) = vdi.value {
            if p.projection.is_empty() {
                names[p.local.as_usize()] = Some(vdi.name.to_string());
            }
        }
    }
    let locals: Vec<String> = body
        .local_decls
        .iter_enumerated()
        .map(|(l, d)| {
            let mut o = Obj::new().n("t", strs.id(ty_str(d.ty)) as i128);
            if let Some(n) = &names[l.as_usize()] {
                o = o.s("name", n);
            }
            o.done()
        })
        .collect();
    let mut blocks: Vec<String> = Vec::new();
    for (_bb, data) in body.basic_blocks.iter_enumerated() {
        let mut stmts: Vec<String> = Vec::new();
        for st in &data.statements {
            let (_, l, _, _) = line_of(tcx, st.source_info.span);
            match &st.kind {
                StatementKind::Assign(b) => {
                    let (p, rv) = &**b;
                    stmts.push(
                        Obj::kind("assign")
                            .n("l", l as i128)
                            .raw("pl", &place_json(p))
                            .raw("rv", &rvalue_json(tcx, owner, rv))
                            .done(),
                    );
                }
                StatementKind::StorageDead(loc) => {
                    stmts.push(Obj::kind("dead").n("loc", loc.as_usize() as i128).done());
                }
                StatementKind::StorageLive(loc) => {
                    stmts.push(Obj::kind("live").n("loc", loc.as_usize() as i128).done());
                }
                StatementKind::SetDiscriminant { place, variant_index } => {
                    stmts.push(
                        Obj::kind("setdiscr")
                            .n("l", l as i128)
                            .raw("pl", &place_json(place))
                            .n("v", variant_index.as_usize() as i128)
                            .done(),
                    );
                }
                _ => {}
            }
        }
        let term = data.terminator();
        let (_, l, _, _) = line_of(tcx, term.source_info.span);
        let exp = term.source_info.span.from_expansion();
        let t = match &term.kind {
            TerminatorKind::Goto { target } => Obj::kind("goto").n("t", target.as_usize() as i128),
            TerminatorKind::SwitchInt { discr, targets } => {
                let ts: Vec<String> = targets.iter().map(|(v, b)| format!("[{},{}]", esc(&v.to_string()), b.as_usize())).collect();
                Obj::kind("switch")
                    .raw("d", &operand_json(tcx, owner, discr))
                    .raw("ts", &arr(ts))
                    .n("other", targets.otherwise().as_usize() as i128)
            }
            TerminatorKind::Return => Obj::kind("return"),
            TerminatorKind::Unreachable => Obj::kind("unreachable"),
            TerminatorKind::UnwindResume => Obj::kind("resume"),
            TerminatorKind::UnwindTerminate(_) => Obj::kind("abort"),
            TerminatorKind::Drop { place, target, unwind, .. } => {
                let mut o = Obj::kind("drop").raw("pl", &place_json(place)).n("t", target.as_usize() as i128);
                if let rustc_middle::mir::UnwindAction::Cleanup(b) = unwind {
                    o = o.n("u", b.as_usize() as i128);
                }
                o
            }
            TerminatorKind::Call { func, args, destination, target, unwind, .. } => {
                let a: Vec<String> = args.iter().map(|x| operand_json(tcx, owner, &x.node)).collect();
                let mut o = Obj::kind("call")
                    .raw("f", &operand_json(tcx, owner, func))
                    .raw("args", &arr(a))
                    .raw("dest", &place_json(destination));
                if let Some(t) = target {
                    o = o.n("t", t.as_usize() as i128);
                }
                if let rustc_middle::mir::UnwindAction::Cleanup(b) = unwind {
                    o = o.n("u", b.as_usize() as i128);
                }
                o
            }
            TerminatorKind::Assert { cond, expected, msg, target, unwind } => {
                let kind = format!("{:?}", std::mem::discriminant(&**msg));
                let _ = kind;
                let ms = match &**msg {
                    rustc_middle::mir::AssertKind::BoundsCheck { .. } => "bounds",
                    rustc_middle::mir::AssertKind::Overflow(..) => "overflow",
                    rustc_middle::mir::AssertKind::OverflowNeg(..) => "overflow_neg",
                    rustc_middle::mir::AssertKind::DivisionByZero(..) => "div0",
                    rustc_middle::mir::AssertKind::RemainderByZero(..) => "rem0",
                    _ => "other",
                };
                let mut o = Obj::kind("assert")
                    .raw("c", &operand_json(tcx, owner, cond))
                    .b("exp", *expected)
                    .s("msg", ms)
                    .n("t", target.as_usize() as i128);
                if let rustc_middle::mir::UnwindAction::Cleanup(b) = unwind {
                    o = o.n("u", b.as_usize() as i128);
                }
                o
            }
            TerminatorKind::FalseEdge { real_target, .. } => Obj::kind("goto").n("t", real_target.as_usize() as i128),
            TerminatorKind::FalseUnwind { real_target, .. } => Obj::kind("goto").n("t", real_target.as_usize() as i128),
            _ => Obj::kind("other"),
        };
        let t = t.n("l", l as i128).b("exp", exp).done();
        let mut bo = Obj::new().raw("s", &arr(stmts)).raw("t", &t);
        if data.is_cleanup {
            bo = bo.b("cleanup", true);
        }
        blocks.push(bo.done());
    }
    Obj::new()
        .n("argc", body.arg_count as i128)
        .raw("locals", &arr(locals))
        .raw("blocks", &arr(blocks))
        .done()
}
