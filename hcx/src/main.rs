// hcx — fact extractor for the Heathcliff static checks.
// A rustc_private driver used as RUSTC_WORKSPACE_WRAPPER: for the crates named in HCX_CRATES
// (default "heathcliff") it runs the normal front end and then dumps typed, re-sugared HIR trees,
// MIR control-flow graphs, items, types and impls into $HCX_OUT (a directory), one file each,
// written once per process.  Every other crate is compiled unchanged.
#![feature(rustc_private)]
#![allow(clippy::all)]

extern crate rustc_abi;
extern crate rustc_ast;
extern crate rustc_driver;
extern crate rustc_hir;
extern crate rustc_interface;
extern crate rustc_middle;
extern crate rustc_span;

mod hirx;
mod json;
mod mirx;

use rustc_driver::{Callbacks, Compilation};
use rustc_interface::interface::Compiler;
use rustc_middle::ty::TyCtxt;

struct Plain;
impl Callbacks for Plain {}

struct Extract {
    out: String,
}

impl Callbacks for Extract {
    fn after_analysis<'tcx>(&mut self, _c: &Compiler, tcx: TyCtxt<'tcx>) -> Compilation {
        // Do not export if the crate has errors: facts from a broken build are meaningless.
        if tcx.dcx().has_errors().is_some() {
            return Compilation::Continue;
        }
        hirx::export(tcx, &self.out);
        Compilation::Continue
    }
}

fn main() -> std::process::ExitCode {
    let mut args: Vec<String> = std::env::args().collect();
    // Under RUSTC_WORKSPACE_WRAPPER argv = [hcx, /path/to/rustc, args...]
    if args.len() > 1 && (args[1].ends_with("rustc") || args[1].ends_with("rustc.exe")) {
        args.remove(1);
    }
    args[0] = "rustc".to_string();
    let wanted = std::env::var("HCX_CRATES").unwrap_or_else(|_| "heathcliff".to_string());
    let mut crate_name = String::new();
    let mut i = 0;
    while i < args.len() {
        if args[i] == "--crate-name" && i + 1 < args.len() {
            crate_name = args[i + 1].clone();
        }
        i += 1;
    }
    let is_target = wanted.split(',').any(|w| w == crate_name)
        && !args.iter().any(|a| a == "--print" || a.starts_with("--print="))
        // only the lib target of the crate (cargo passes --crate-type lib); build scripts etc. are skipped
        && !args.iter().any(|a| a == "build_script_build");
    let out = std::env::var("HCX_OUT").unwrap_or_default();
    rustc_driver::catch_with_exit_code(move || {
        if is_target && !out.is_empty() {
            let mut cb = Extract { out };
            rustc_driver::run_compiler(&args, &mut cb);
        } else {
            let mut cb = Plain;
            rustc_driver::run_compiler(&args, &mut cb);
        }
    })
}
