"""R-BUDGET [N] — the reported invariant noise budget is computed by the pipeline and formula of its definition.

budget(ct) = max(0, bits(q_level) - bits( || t * [c(s)]_q ||_centred ) - 1)         (BFV; BGV without the factor t)

Structural necessary conditions decided here (not the value):
 (pipeline) on each scheme projection the phase buffer goes through  dot_product_ct_sk_array -> [BFV only: multiply by
            plain_modulus.value()] -> CRT compose -> poly_infty_norm against total_coeff_modulus() of the ciphertext's level,
            in this order;
 (formula)  the returned number is  TB - get_significant_bit_count_uint(norm) - 1  clamped at 0, where TB is the bit count
            of the level's TOTAL modulus (`total_coeff_modulus_bit_count()` or the bit length of `total_coeff_modulus()`);
            the sum of the per-prime bit counts is a recognised wrong form (bits of a product is not the sum of the bits);
 (norm)     poly_infty_norm centres each coefficient against half_round_up(modulus) (x >= threshold -> modulus - x) and
            keeps the maximum.
"""
from facts import walk, callee, strip, local_of, root_local, Defs
from r_slotmod import Sym, pshow
import project

R = "R-BUDGET"


def _calls_on(body, lids, dead):
    out = []
    for x in walk(body):
        if id(x) in dead:
            continue
        if x.get("k") == "Inl":                       # an inlined stage is still a call of that stage
            o = x["orig"]
            args = ([o["recv"]] if o["k"] == "MCall" else []) + o["args"]
            if any((root_local(a) or (None,))[0] in lids for a in args):
                out.append((x["name"], o))
        elif x.get("k") in ("Call", "MCall"):
            args = ([x["recv"]] if x["k"] == "MCall" else []) + x["args"]
            if any((root_local(a) or (None,))[0] in lids for a in args):
                out.append(((callee(x) or {}).get("name") or x.get("name"), x))
    return out


def _lit_bool(facts, e, scheme, known):
    e = strip(e)
    for _ in range(6):
        if e.get("k") == "Block" and e.get("expr") is not None and (not e.get("stmts") or e.get("projected")):
            e = strip(e["expr"])
        else:
            break
    if e.get("k") == "Lit" and e.get("v") in ("true", "false"):
        return e["v"] == "true"
    lo = local_of(e)
    if lo and lo[0] in known:
        return known[lo[0]]
    if e.get("k") == "Un" and e.get("op") == "!":
        v = _lit_bool(facts, e["e"], scheme, known)
        return None if v is None else (not v)
    r = project.eval_cond(facts, e, scheme)
    return r if r in (True, False) else None


def _dead_nodes(facts, body, scheme):
    """nodes inside branches that cannot run under `scheme`: conditions on boolean locals (or helper parameters) whose
    value is a literal or a scheme test once the scheme is fixed"""
    known = {}
    for _ in range(3):
        for x in walk(body):
            if x.get("k") == "Let" and x["pat"].get("k") == "PBind" and "init" in x and facts.ty(x["pat"]) == "bool":
                v = _lit_bool(facts, x["init"], scheme, known)
                if v is not None:
                    known[x["pat"]["lid"]] = v
    dead = set()
    for x in walk(body):
        if x.get("k") == "If":
            v = _lit_bool(facts, x["c"], scheme, known)
            if v is True and x.get("el") is not None:
                dead |= {id(y) for y in walk(x["el"])}
            elif v is False:
                dead |= {id(y) for y in walk(x["th"])}
    return dead


def run(facts, rep):
    rep.rule(R, "invariant_noise_budget follows the pipeline of its definition (phase, scale by t for BFV only, compose, centred "
             "infinity norm against the level's modulus) and returns bits(q_level) - bits(norm) - 1 clamped at 0")
    p = "encryptor::Decryptor::invariant_noise_budget"
    if not rep.anchor(R, p, p in facts.hir):
        return 0
    rep.fn(p)
    n = 0
    # ---------------- pipeline, per scheme
    for sc in ("BFV", "BGV"):
        body = project.project(facts, facts.inlined(p, pred=facts.extracted_helper), sc)    # an extracted phase helper is read in place
        defs = Defs(body)
        dead = _dead_nodes(facts, body, sc)
        buf = None
        for x in walk(body):
            if x.get("k") == "MCall" and x.get("name") == "dot_product_ct_sk_array" and len(x["args"]) >= 2:
                buf = root_local(x["args"][1])
        # a helper that returns the buffer: the caller's local bound to the call is the same buffer
        bufs = {buf[0]} if buf else set()
        for _ in range(3):
            for x in walk(body):
                if x.get("k") == "Let" and x["pat"].get("k") == "PBind" and "init" in x:
                    i0 = strip(x["init"])
                    if i0.get("k") == "Inl":
                        t0 = i0["body"].get("expr") if i0["body"].get("k") == "Block" else None
                        rl = root_local(t0) if t0 is not None else None
                        if rl and rl[0] in bufs:
                            bufs.add(x["pat"]["lid"])
        # elements / chunks of the buffer bound by a `for` pattern are the buffer
        from facts import pat_bindings
        for _ in range(2):
            for x in walk(body):
                if x.get("k") == "For" and any((root_local(y) or (None,))[0] in bufs for y in walk(x["iter"])
                                               if y.get("k") in ("Path", "MCall", "Index", "Ref")):
                    for l, _nm in pat_bindings(x["pat"]):
                        # only bindings whose type is a slice / element of the buffer
                        bufs.add(l)
        n += 1
        key = "pipeline/" + sc
        if buf is None:
            rep.violation(R, key, "invariant_noise_budget no longer computes the phase with dot_product_ct_sk_array into a local "
                          "buffer", facts.loc(p))
            continue
        OPERAND_FORMS = ("multiply_operand_inplace", "multiply_operand_inplace_p", "multiply_operand_inplace_ps")
        seq = [(nm, x) for nm, x in _calls_on(body, bufs, dead) if nm in
               ("dot_product_ct_sk_array", "multiply_scalar_inplace_p", "multiply_scalar_inplace_ps", "compose_array", "poly_infty_norm")
               + OPERAND_FORMS]
        # the scaling by t written with a precomputed per-prime operand is the same stage (its operand is judged below)
        operand_step = [x for nm, x in seq if nm in OPERAND_FORMS]
        seq = [("multiply_scalar_inplace_p" if nm in OPERAND_FORMS else nm, x) for nm, x in seq]
        dedup = []
        for nm, x in seq:
            if not (dedup and dedup[-1][0] == nm == "multiply_scalar_inplace_p" and operand_step):
                dedup.append((nm, x))
        seq = dedup
        names = [nm for nm, _ in seq]
        want = ["dot_product_ct_sk_array"] + (["multiply_scalar_inplace_p"] if sc == "BFV" else []) + ["compose_array", "poly_infty_norm"]
        ok = names == want
        detail = ""
        if ok and sc == "BFV":
            m = seq[1][1]
            ok = any(y.get("k") == "MCall" and y.get("name") == "plain_modulus" for a in m["args"] for y in defs.closure(a))
            detail = "" if ok else "the BFV scaling factor is not plain_modulus.value()"
            if ok and operand_step:
                # MultiplyU64ModOperand::new(t, q_i) is exact only for t < q_i: the operand must be a residue modulo q_i
                import r_residue
                cl = r_residue.Classifier(facts)
                news = [y for a in m["args"] for y in defs.closure(a) if y.get("k") == "Call" and
                        (callee(y) or {}).get("name") == "new" and "MultiplyU64ModOperand" in (callee(y) or {}).get("def", "")]
                cls = [cl.classify(p, y["args"][0]) for y in news if y.get("args")]
                if not cls or any(c is None or c[0] not in ("red", "any") for c in cls):
                    rep.unresolved(R, key + "/operand", "the per-prime operand of the scaling by t is not classified", facts.loc(p, m))
                elif any(c[0] == "any" for c in cls):
                    ok = False
                    detail = ("the scaling by t uses a precomputed operand built from an unreduced value (%s): the operand's quotient "
                              "is exact only below the prime, so for parameter sets with t >= q_i that residue of the phase is wrong" %
                              [c for c in cls if c[0] == "any"][0][1])
        if ok:
            nrm = seq[-1][1]
            ok = any(y.get("k") == "MCall" and y.get("name") == "total_coeff_modulus" for a in nrm["args"] for y in defs.closure(a))
            detail = "" if ok else "the norm is not taken against total_coeff_modulus()"
        if ok:
            rep.ok(R, key, "%s: %s" % (sc, " -> ".join(names)), facts.loc(p, seq[0][1]), sample={"scheme": sc, "stages": names})
        else:
            rep.violation(R, key, ("under %s the phase buffer goes through [%s] instead of [%s]%s: the number reported is not the "
                          "budget of the definition" % (sc, ", ".join(names), ", ".join(want), ("; " + detail) if detail else ""))
                          if names != want else ("under %s %s: the number reported is not the budget of the definition" % (sc, detail)),
                          facts.loc(p, seq[0][1]) if seq else facts.loc(p))
    # ---------------- formula
    body = facts.hir[p]
    defs = Defs(body)
    sym = Sym(facts, body)
    tail = body.get("expr")
    n += 1
    val = strip(tail) if tail else {}
    clamp = False
    for _ in range(6):
        if val.get("k") == "Cast":
            val = strip(val["e"])
        elif val.get("k") == "MCall" and val.get("name") == "max" and val["args"] and str(strip(val["args"][0]).get("v", "")).split("_")[0] == "0":
            clamp = True
            val = strip(val["recv"])
        elif local_of(val) and local_of(val)[0] in sym.lets:
            val = strip(sym.lets[local_of(val)[0]])
        else:
            break
    poly = sym.poly(val)
    key = "formula"
    if not isinstance(poly, dict):
        rep.unresolved(R, key, "the returned expression is not a polynomial the rule can read", facts.loc(p))
    else:
        pos = [(m, c) for m, c in poly.items() if m and c > 0]
        neg = [(m, c) for m, c in poly.items() if m and c < 0]
        const = poly.get((), 0)
        tb_ok = len(pos) == 1 and pos[0][1] == 1 and len(pos[0][0]) == 1
        sig_ok = len(neg) == 1 and neg[0][1] == -1 and len(neg[0][0]) == 1 and "get_significant_bit_count_uint" in neg[0][0][0]
        if not (tb_ok and sig_ok):
            rep.unresolved(R, key, "the returned expression %s is not of the form TB - bits(norm) - 1" % pshow(poly), facts.loc(p))
        else:
            tb = pos[0][0][0]
            level_ctx = "get_context_data" in tb and "parms_id" in tb
            good_tb = ("total_coeff_modulus_bit_count" in tb) or ("get_significant_bit_count_uint" in tb and "total_coeff_modulus()" in tb)
            per_prime_sum = ("bit_count" in tb and ("sum" in tb or "fold" in tb)) or any(
                y.get("k") == "MCall" and y.get("name") in ("sum", "fold") for y in defs.closure(val)
                if any(z.get("k") == "MCall" and z.get("name") == "bit_count" for z in walk(y)))
            if per_prime_sum:
                rep.violation(R, key, "the budget is computed from the SUM of the per-prime bit counts instead of the bit count of "
                              "the level's total modulus: bits of a product is not the sum of the bits, so the reported budget is "
                              "too high whenever the product of the primes falls below 2^(sum-1)", facts.loc(p))
            elif const != -1:
                rep.violation(R, key, "the budget is bits(q) - bits(norm) %+d instead of - 1 (the -1 accounts for the factor 2 of the "
                              "invariant noise): off by %d bit(s)" % (const, abs(const + 1)), facts.loc(p))
            elif not good_tb:
                rep.unresolved(R, key, "the modulus bit count `%s` is not one of the recognised forms" % tb[:80], facts.loc(p))
            elif not level_ctx:
                rep.violation(R, key, "the modulus bit count is not taken from the context data of the ciphertext's own level "
                              "(`%s`): at lower levels the budget is measured against another modulus" % tb[:100], facts.loc(p))
            elif not clamp:
                rep.unresolved(R, key, "no clamp at zero recognised on the returned value", facts.loc(p))
            else:
                rep.ok(R, key, "budget = bits(q_level) - bits(norm) - 1, clamped at 0", facts.loc(p),
                       sample={"expression": pshow(poly)})
    # ---------------- centred norm
    q = "encryptor::poly_infty_norm"
    cands = [x for x in facts.hir if x.endswith("::poly_infty_norm")]
    if rep.anchor(R, "poly_infty_norm", bool(cands)):
        q = cands[0]
        rep.fn(q)
        n += 1
        b = facts.hir[q]
        d2 = Defs(b)
        centred = False
        keeps_max = False
        for x in walk(b):
            if x.get("k") != "If":
                continue
            c = strip(x["c"])
            nm = (callee(c) or {}).get("name")
            if nm == "is_greater_than_or_equal_uint" and len(c.get("args", [])) == 2:
                thr = any((callee(y) or {}).get("name") == "half_round_up_uint" for y in d2.closure(c["args"][1])) or \
                    any(z.get("k") == "Call" and (callee(z) or {}).get("name") == "half_round_up_uint" and
                        (root_local(z["args"][1]) or (None,))[0] == (root_local(c["args"][1]) or (0,))[0] for z in walk(b))
                sub = any((callee(y) or {}).get("name") == "sub_uint" for y in walk(x["th"]))
                cp = x.get("el") is not None and any(y.get("k") == "MCall" and y.get("name") in ("copy_from_slice", "clone_from_slice")
                                                     for y in walk(x["el"]))
                centred = thr and sub and cp
            if nm == "is_greater_than_uint" and any(y.get("k") == "MCall" and y.get("name") == "copy_from_slice" for y in walk(x["th"])):
                keeps_max = True
        if centred and keeps_max:
            rep.ok(R, "norm", "coefficients at or above half_round_up(modulus) are replaced by modulus - x; the maximum is kept",
                   facts.loc(q))
        else:
            rep.violation(R, "norm", "poly_infty_norm no longer %s: the norm is not the centred infinity norm" %
                          ("centres coefficients against half the modulus" if not centred else "keeps the maximum"), facts.loc(q))
    return n


def run_reach(facts, rep):
    """R-BUDGET(reach) [N]: the budget can be asked of every ciphertext that can be decrypted.

    For each scheme on which invariant_noise_budget can return normally at all, and for each value of the ciphertext's
    is_ntt_form flag under which Decryptor::decrypt can return normally (R-REPSTATE summaries on the scheme projection,
    one per flag assumption), invariant_noise_budget must be able to return normally under the same flag value.  Otherwise
    the two siblings hold contradictory beliefs about the representation of that scheme's ciphertexts: every ciphertext
    `decrypt` accepts is refused by the budget query (in this port BGV ciphertexts are kept in NTT form, which `bgv_decrypt`
    asserts), so the budget of that scheme — part of the property — cannot be obtained for any ciphertext the library
    produces."""
    import r_repstate
    RR = "R-BUDGET(reach)"
    rep.rule(RR, "for every scheme the budget supports, each ciphertext representation accepted by Decryptor::decrypt is accepted "
             "by invariant_noise_budget (normal-return summaries per scheme projection and is_ntt_form assumption)")
    dec, bud = "encryptor::Decryptor::decrypt", "encryptor::Decryptor::invariant_noise_budget"
    if not (rep.anchor(RR, dec, dec in facts.hir) and rep.anchor(RR, bud, bud in facts.hir)):
        return 0
    n = 0

    def ct_param(p):
        for j, prm in enumerate(facts.items[p]["params"]):
            if prm.get("ty", "").replace("&", "").replace("mut ", "").strip() == "text::Ciphertext":
                return j
        return None
    jd, jb = ct_param(dec), ct_param(bud)
    if jd is None or jb is None:
        rep.unresolved(RR, "params", "ciphertext parameters not found", facts.loc(bud))
        return 0
    for sc in ("BFV", "BGV", "CKKS"):
        pf = project.ProjFacts(facts, sc)
        eng = r_repstate.RepEngine(pf)
        nd, nb = {}, {}
        for fl in (True, False):
            sd = eng.summary(dec, {"flag:%d" % jd: fl})
            sb = eng.summary(bud, {"flag:%d" % jb: fl})
            nd[fl] = None if sd is None else sd.normal
            nb[fl] = None if sb is None else sb.normal
        if not any(v for v in nb.values()):
            rep.ok(RR, sc, "%s: the budget is not offered for this scheme (refused under both representations)" % sc,
                   facts.loc(bud), nontrivial=False)
            continue
        n += 1
        bad = [fl for fl in (True, False) if nd[fl] is True and nb[fl] is False]
        unk = [fl for fl in (True, False) if nd[fl] is None or nb[fl] is None]
        key = "%s/is_ntt_form" % sc
        if bad:
            rep.violation(RR, key, "under %s, decrypt accepts ciphertexts with is_ntt_form = %s but invariant_noise_budget refuses "
                          "exactly those (and accepts only is_ntt_form = %s, which decrypt refuses): the budget of a decryptable %s "
                          "ciphertext cannot be queried" % (sc, str(bad[0]).lower(), str(not bad[0]).lower(), sc), facts.loc(bud))
        elif unk:
            rep.unresolved(RR, key, "no summary for one of the two functions", facts.loc(bud))
        else:
            rep.ok(RR, key, "%s: decrypt accepts is_ntt_form in {%s}; so does the budget" %
                   (sc, ", ".join(str(fl).lower() for fl in (True, False) if nd[fl])), facts.loc(bud),
                   sample={"scheme": sc, "decrypt": {str(k): v for k, v in nd.items()}, "budget": {str(k): v for k, v in nb.items()}})
    return n
