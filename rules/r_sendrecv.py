"""R-SENDRECV [N, effect separation] — what a party broadcasts does not depend on what it has received.

Every multiparty protocol object offers `send*` (serialise this party's share) and `receive*` (take another party's
share).  The property quantifies over delivery orders: a party may receive any number of messages before it sends.  If
`receive_X` writes a field (transitively, through helper methods and through the protocol objects it delegates to) that
`send_X` reads, the bytes a party broadcasts depend on how many messages reached it first, so parties that interleave
differently aggregate different sums and derive different collective keys / plaintexts.

Effects are access paths rooted at `self` (`p1_reveal.broadcasted`, `h0_disclosure[].result`, ...): assignments,
`&mut` arguments and `&mut self` method calls write; every mention reads; calls to crate-local methods are expanded
with the callee's own effects under the receiver's path.  Two paths conflict when one is a prefix of the other.
"""
from facts import walk, callee, strip, local_of, Tree

R = "R-SENDRECV"
# role-dependent protocols: one party computes what the others receive (reading: step2 result `encs_y` is produced by
# party 0 and received by the others — the same field on different parties)
EXEMPT = {"multiparty::participant::ElementWiseVectorProductProtocol": "role-dependent: party 0 computes and sends the "
          "value the other parties receive into the same field"}


def _self_lid(it):
    for p in it["params"]:
        if p["pat"].get("k") == "PBind" and p["pat"]["name"] == "self":
            return p["pat"]["lid"]
    return None


def _path(e, roots):
    """access path of a place expression rooted at one of `roots` (lid -> prefix path tuple), or None"""
    parts = []
    e = strip(e)
    while isinstance(e, dict):
        k = e.get("k")
        if k == "Field":
            parts.append(e["name"])
            e = strip(e["e"])
        elif k == "Index":
            parts.append("[]")
            e = strip(e["e"])
        elif k == "MCall" and e.get("name") in ("iter", "iter_mut", "as_ref", "as_mut", "unwrap", "borrow", "borrow_mut",
                                                "deref", "deref_mut", "as_slice", "as_mut_slice", "enumerate", "zip", "skip"):
            e = strip(e["recv"])
        elif k == "Path" and e.get("res") == "local":
            if e["lid"] in roots:
                return tuple(roots[e["lid"]]) + tuple(reversed(parts))
            return None
        else:
            return None
    return None


class Effects:
    def __init__(self, facts):
        self.facts = facts
        self.memo = {}
        self.stack = []

    def of(self, fpath):
        """(reads, writes): sets of access paths relative to the function's self parameter"""
        if fpath in self.memo:
            return self.memo[fpath]
        if fpath in self.stack or len(self.stack) > 6:
            return set(), set()
        facts = self.facts
        it, body = facts.items.get(fpath), facts.hir.get(fpath)
        if it is None or body is None:
            return set(), set()
        sl = _self_lid(it)
        if sl is None:
            return set(), set()
        self.stack.append(fpath)
        roots = {sl: ()}
        view_src = []           # expressions that only produce a view of a part of self (read through the view)
        # bindings that view a part of self: `for h in self.f.iter_mut()`, `let x = &mut self.f`, `if let Some(p) = &self.g[i]`
        changed = True
        while changed:
            changed = False
            for x in walk(body):
                src = None
                if x.get("k") == "For":
                    src, pat = x["iter"], x["pat"]
                elif x.get("k") in ("Let", "LetE") and "init" in x:
                    src, pat = x["init"], x["pat"]
                if src is None:
                    continue
                pth = _path(src, roots)
                if pth is None:
                    # iterator chains: find the first rooted receiver inside
                    for y in walk(src):
                        pth = _path(y, roots) if y.get("k") in ("Field", "Index") else None
                        if pth:
                            break
                if pth is None:
                    continue
                for q in walk(pat):
                    if q.get("k") == "PBind" and q["lid"] not in roots and facts.ty(q).startswith("&"):
                        roots[q["lid"]] = pth + (("[]",) if x.get("k") == "For" and pth[-1:] != ("[]",) else ())
                        changed = True
                        view_src.extend(walk(src))
        reads, writes = set(), set()
        tree = Tree(body)
        expanded = {id(y) for y in view_src}    # + receiver expressions of crate-local method calls: the callee's reads
        for x in walk(body):
            if x.get("k") in ("Call", "MCall"):
                f = callee(x)
                d = (f.get("inst") if f and f.get("inst") in facts.hir else (f or {}).get("def")) if f and f.get("local") else None
                if d in facts.hir and d != fpath:
                    args = ([x["recv"]] if x["k"] == "MCall" else []) + x["args"]
                    for j, prm in enumerate(facts.items[d]["params"]):
                        if prm["pat"].get("k") == "PBind" and prm["pat"]["name"] == "self" and j < len(args):
                            for y in walk(args[j]):
                                expanded.add(id(y))
        for x in walk(body):
            k = x.get("k")
            if k in ("Field", "Index") or (k == "Path" and x.get("res") == "local" and x.get("lid") in roots and x["lid"] != sl):
                up = tree.up(x)
                while up is not None and up.get("k") in ("Ref",) or (up is not None and up.get("k") == "Un"):
                    up = tree.up(up)
                continues = up is not None and up.get("k") in ("Field", "Index") and strip(up.get("e")) is strip(x)
                p = _path(x, roots)
                if p and not continues and id(x) not in expanded:
                    reads.add(p)
            if k in ("Assign", "AssignOp"):
                p = _path(x["lhs"], roots)
                if p:
                    writes.add(p)
            if k == "Ref" and x.get("mut"):
                p = _path(x["e"], roots)
                if p:
                    writes.add(p)
            if k in ("Call", "MCall"):
                f = callee(x)
                args = ([x["recv"]] if k == "MCall" else []) + x["args"]
                d = None
                if f and f.get("local"):
                    d = f.get("inst") if f.get("inst") in facts.hir else f["def"]
                if d in facts.hir and d != fpath:
                    cit = facts.items[d]
                    # which argument is the callee's self?
                    for j, prm in enumerate(cit["params"]):
                        if prm["pat"].get("k") == "PBind" and prm["pat"]["name"] == "self" and j < len(args):
                            base = _path(args[j], roots)
                            if base is not None:
                                cr, cw = self.of(d)
                                reads |= {base + p for p in cr}
                                writes |= {base + p for p in cw}
                elif k == "MCall":
                    # a foreign method taking the receiver mutably writes it (push, insert, fill, ...)
                    p = _path(x["recv"], roots)
                    t = facts.ty_adj(x["recv"]) or ""
                    if p is not None and t.startswith("&mut") and x.get("name") not in ("iter_mut", "as_mut", "as_mut_slice"):
                        writes.add(p)
        self.stack.pop()
        self.memo[fpath] = (reads, writes)
        return reads, writes


def conflict(a, b):
    n = min(len(a), len(b))
    return a[:n] == b[:n]


def run(facts, rep, floor=0):
    rep.rule(R, "for every protocol object, no field written by receive_X (transitively) is read by send_X: the bytes a "
             "party broadcasts do not depend on the messages it has already received")
    eff = Effects(facts)
    by_type = {}
    for p, it in facts.items.items():
        if it.get("impl_self", "").startswith("multiparty::") and not it.get("impl_trait") and p in facts.hir:
            by_type.setdefault(it["impl_self"].split("<")[0], {})[it["name"]] = p
    n = 0
    for ty in sorted(by_type):
        ms = by_type[ty]
        for name in sorted(ms):
            if not name.startswith("receive"):
                continue
            sname = "send" + name[len("receive"):]
            if sname not in ms:
                continue
            n += 1
            rp, sp = ms[name], ms[sname]
            rep.fn(rp)
            rep.fn(sp)
            key = "%s/%s" % (ty.rsplit("::", 1)[-1], name)
            if ty in EXEMPT:
                rep.ok(R, key, "exempt: %s" % EXEMPT[ty], facts.loc(rp), nontrivial=False)
                continue
            _, w = eff.of(rp)
            r, _ = eff.of(sp)
            bad = sorted((a, b) for a in w for b in r if conflict(a, b))
            if bad:
                a, b = bad[0]
                rep.violation(R, key, "%s::%s writes `self.%s` and %s reads `self.%s`: what this party broadcasts depends on the "
                              "messages it has already received, so the aggregate differs between delivery orders" %
                              (ty, name, ".".join(a), sname, ".".join(b)), facts.loc(rp))
            else:
                rep.ok(R, key, "%s writes {%s}; %s reads {%s}: disjoint" %
                       (name, ", ".join(sorted(".".join(x) for x in w)) or "-", sname,
                        ", ".join(sorted(".".join(x) for x in r))[:160] or "-"), facts.loc(rp),
                       sample={"type": ty, "receive_writes": sorted(".".join(x) for x in w),
                               "send_reads": sorted(".".join(x) for x in r)})
    rep.floor(R, "(protocol, receive/send) pairs", n, floor)
    return n
