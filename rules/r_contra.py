"""R-CONTRA / R-GUARDDEP — guard/use contradictions and guard/cast dependency agreement.

R-CONTRA(index) [N]: an index expression `a[i]` that sits in the branch of a guard relating `i` to
  `a.len()` must be implied in-bounds by that guard.  `if i <= a.len() { a[i] }` (or `a.len() >= i`)
  admits i == a.len(): the guard and the use contradict each other — one of them is wrong.
R-CONTRA(wrap) [N]: outside the word-arithmetic modules, a `wrapping_sub/add/mul/neg` whose operand
  derives from a cast of a signed or floating parameter (magnitude not bounded by the modulus) and whose
  result flows into a modular reduction (`Modulus::reduce`, `barrett_reduce_*`): reduction modulo 2^64
  does not commute with reduction modulo q, so large magnitudes encode to the wrong residue.
R-GUARDDEP [N]: a float->integer narrowing cast that sits in a branch selected by a magnitude guard
  (a comparison against an integer literal / bit count) must not depend on a function input that the
  guard does not depend on: the guard has to be computed from everything the cast value is computed
  from, otherwise a value whose magnitude exceeds the tier is cast (saturating) on the wrong path.
"""
import re
from facts import walk, callee, root_local, strip, local_of, Defs, Tree

ARITH_MODULES = ("util::basic", "util::uintsmallmod", "util::polysmallmod", "util::number_theory", "util::ntt",
                 "util::dwthandler")
REDUCERS = ("reduce", "barrett_reduce_u64", "barrett_reduce_u128", "barrett_reduce_u128_raw", "reduce_u128",
            "barrett_reduce_u64_raw")
WRAPS = ("wrapping_sub", "wrapping_add", "wrapping_mul", "wrapping_neg")


def _same_local(a, b):
    la, lb = local_of(a), local_of(b)
    return la is not None and lb is not None and la[0] == lb[0]


def _len_of(e):
    """If e is `X.len()` return root local of X."""
    e = strip(e)
    if e.get("k") == "MCall" and e.get("name") == "len" and not e["args"]:
        return root_local(e["recv"])
    return None


def run_index(facts, rep, files=None):
    rep.rule("R-CONTRA(index)", "an index a[i] inside a branch guarded by a comparison of i with a.len() is implied "
             "in-bounds by that guard (`<=`/`>=` forms admit i == a.len())")
    n = 0
    for p in sorted(facts.hir):
        it = facts.items[p]
        if files is not None and it["file"] not in files:
            continue
        body = facts.hir[p]
        for x in walk(body):
            if x.get("k") != "If":
                continue
            c = strip(x["c"])
            if c.get("k") != "Bin" or c.get("op") not in ("<", "<=", ">", ">="):
                continue
            la, lb = _len_of(c["a"]), _len_of(c["b"])
            if (la is None) == (lb is None):
                continue
            if lb is not None:
                idx, arr, op = c["a"], lb, c["op"]            # i OP a.len()
            else:
                idx, arr = c["b"], la                          # a.len() OP i  ==  i OP' a.len()
                op = {"<": ">", "<=": ">=", ">": "<", ">=": "<="}[c["op"]]
            il = local_of(idx)
            if il is None:
                continue
            # which branch admits which relation: then: i OP len ; else: not (i OP len)
            then_rel = op
            else_rel = {"<": ">=", "<=": ">", ">": "<=", ">=": "<"}[op]
            for branch, rel in ((x["th"], then_rel), (x.get("el"), else_rel)):
                if branch is None:
                    continue
                uses = [y for y in walk(branch) if y.get("k") == "Index" and (root_local(y["e"]) or (None,))[0] == arr[0]
                        and local_of(y["i"]) is not None and local_of(y["i"])[0] == il[0]]
                if not uses:
                    continue
                n += 1
                rep.fn(p)
                key = "%s/%s[%s]" % (p, arr[1], il[1])
                if rel == "<":
                    rep.ok("R-CONTRA(index)", key, "`%s[%s]` is used only where %s < %s.len()" % (arr[1], il[1], il[1], arr[1]),
                           facts.loc(p, uses[0]), sample={"function": p, "array": arr[1], "index": il[1]})
                elif rel == "<=":
                    rep.violation("R-CONTRA(index)", key,
                                  "`%s[%s]` is used in a branch that only guarantees %s <= %s.len(): for %s == %s.len() "
                                  "the access is out of bounds — the guard and the use contradict each other" %
                                  (arr[1], il[1], il[1], arr[1], il[1], arr[1]), facts.loc(p, uses[0]))
                else:
                    rep.violation("R-CONTRA(index)", key,
                                  "`%s[%s]` is used in the branch where %s %s %s.len(): always out of bounds" %
                                  (arr[1], il[1], il[1], rel, arr[1]), facts.loc(p, uses[0]))
    return n


def run_wrap(facts, rep, files=None):
    rep.rule("R-CONTRA(wrap)", "no wrapping_* on a value cast from a signed/floating parameter whose result flows into "
             "a modular reduction, outside the word-arithmetic modules")
    n = 0
    for p in sorted(facts.hir):
        it = facts.items[p]
        if it.get("module") in ARITH_MODULES:
            continue
        if files is not None and it["file"] not in files:
            continue
        body = facts.hir[p]
        reducers = [x for x in walk(body) if x.get("k") in ("Call", "MCall") and (callee(x) or {}).get("name") in REDUCERS]
        if not reducers:
            continue
        defs = Defs(body, facts)
        rep.fn(p)
        for r in reducers:
            n += 1
            args = ([r["recv"]] if r["k"] == "MCall" else []) + r["args"]
            bad = None
            for a in args:
                for y in defs.closure(a):
                    if y.get("k") == "MCall" and y.get("name") in WRAPS:
                        # does an operand derive from a cast of a signed / floating value?
                        for z in defs.closure(y):
                            if z.get("k") == "Cast" and facts.ty(z["e"]).lstrip("&") in ("i64", "i128", "i32", "isize", "f64", "f32"):
                                bad = (y, z)
                            if z.get("k") == "Un" and z.get("op") == "-":
                                bad = bad or (y, z)
            key = "%s/%s@%s" % (p, (callee(r) or {}).get("name"), _ordinal(reducers, r))
            if bad:
                rep.violation("R-CONTRA(wrap)", key,
                              "the argument of %s is computed with .%s() from a value cast from a signed/floating input: "
                              "when the magnitude exceeds the modulus the subtraction wraps modulo 2^64 and the reduced "
                              "residue is wrong (reduction mod 2^64 does not commute with reduction mod q)" %
                              ((callee(r) or {}).get("def"), bad[0]["name"]), facts.loc(p, bad[0]))
            else:
                rep.ok("R-CONTRA(wrap)", key, "no wrapping arithmetic on an unbounded value feeds this reduction",
                       facts.loc(p, r), nontrivial=False)
    return n


def _ordinal(lst, x):
    for i, y in enumerate(lst):
        if y is x:
            return i
    return -1


def run_guarddep(facts, rep, files):
    rep.rule("R-GUARDDEP", "a float->integer cast selected by a magnitude guard depends only on inputs the guard "
             "depends on")
    n = 0
    for p in sorted(facts.hir):
        it = facts.items[p]
        if it["file"] not in files:
            continue
        body = facts.inlined(p)      # word-splitting helpers are read in place
        casts = [x for x in walk(body) if x.get("k") == "Cast" and facts.ty(x["e"]).lstrip("&") in ("f64", "f32")
                 and facts.ty(x) in ("u64", "usize", "u128", "i64", "u32")]
        if not casts:
            continue
        tree = Tree(body)
        rep.fn(p)
        idx = 0
        pairs = []
        for c in casts:
            # nearest enclosing If whose condition is a magnitude comparison (against an integer literal or a
            # *_bit_count value) — the tier guard
            g = None
            node = c
            for a in tree.ancestors(c):
                if a.get("k") == "If" and tree.slot_of(node) in ("th", "el"):
                    cc = strip(a["c"])
                    if cc.get("k") == "Bin" and cc.get("op") in ("<", "<=", ">", ">="):
                        sides = (strip(cc["a"]), strip(cc["b"]))
                        if any(s.get("k") == "Lit" for s in sides) or \
                                any("bit_count" in (local_of(s) or (0, ""))[1] for s in sides):
                            g = a
                            break
                node = a
            if g is not None:
                pairs.append((c, g))
        if not pairs:
            continue
        import r_depend
        interest = {}
        for c, g in pairs:
            interest[id(c)] = lambda n: n["e"]
            interest[id(g)] = lambda n: n["c"]
        _, _, _, _, _, fl = r_depend.analyse(facts, p, all_params=True, interest=interest, body=body)
        for c, g in pairs:
            n += 1
            dx = set(fl.seen.get(id(c), ())) - {"self"}
            dg = set(fl.seen.get(id(g), ())) - {"self"}
            key = "%s/cast#%d" % (p, idx)
            idx += 1
            missing = sorted(dx - dg)
            if missing:
                rep.violation("R-GUARDDEP", key,
                              "the value cast to %s at line %s is computed from input(s) {%s} but the magnitude guard "
                              "selecting this path (line %s) is computed only from {%s}: `%s` can make the value exceed "
                              "the tier the guard vouches for, and the cast silently saturates" %
                              (facts.ty(c), c.get("l"), ", ".join(sorted(dx)), g.get("l"), ", ".join(sorted(dg)),
                               ", ".join(missing)), facts.loc(p, c))
            else:
                rep.ok("R-GUARDDEP", key, "cast at line %s depends on {%s}; its tier guard on {%s}" %
                       (c.get("l"), ", ".join(sorted(dx)), ", ".join(sorted(dg))), facts.loc(p, c),
                       sample={"function": p, "cast_line": c.get("l"), "guard_line": g.get("l"),
                               "cast_inputs": sorted(dx), "guard_inputs": sorted(dg)})
    return n


def run_carry(facts, rep, fn_filter):
    """R-CARRY [N]: iterations of a per-element loop must be independent.  A buffer declared OUTSIDE a `for` loop and
    written INSIDE it carries state from one iteration to the next; reading it (or handing it to a callee as `&mut`)
    in an iteration before it has been fully re-initialised in that same iteration (`x = ..`, `.fill(..)`,
    `set_zero_uint(x)`) makes element i's result depend on element i-1 — for the encoders, the residues of one
    coefficient then depend on the previous coefficient's magnitude."""
    from flow import Flow
    rep.rule("R-CARRY", "in the per-coefficient loops of the encoders, a buffer declared outside the loop and written "
             "inside it is fully re-initialised in each iteration before it is read or handed on")
    REINIT = {"fill", "clear", "set_zero_uint", "set_zero"}
    n = 0
    for p in sorted(facts.hir):
        if not fn_filter(p):
            continue
        body = facts.hir[p]
        loops = [x for x in walk(body) if x.get("k") == "For"]
        if not loops:
            continue
        rep.fn(p)
        li = 0
        for L in loops:
            inner_lets = {y["lid"] for x in walk(L["body"]) if x.get("k") == "Let" for y in walk(x["pat"]) if y.get("k") == "PBind"}
            inner_lets |= {y["lid"] for y in walk(L["pat"]) if y.get("k") == "PBind"}
            # buffers written in the loop but declared outside it
            written = {}
            for x in walk(L["body"]):
                k = x.get("k")
                if k in ("Assign", "AssignOp") and x["lhs"].get("k") == "Index":
                    rl = root_local(x["lhs"])
                    if rl and rl[0] not in inner_lets:
                        written[rl[0]] = rl[1]
                if k in ("Call", "MCall"):
                    args = ([x["recv"]] if k == "MCall" else []) + x.get("args", [])
                    for a in args:
                        if (facts.ty_adj(a).startswith("&mut ") or facts.ty(a).startswith("&mut ")) and \
                                ("Vec<" in facts.ty_adj(a) or "[" in facts.ty_adj(a)):
                            rl = root_local(a)
                            if rl and rl[0] not in inner_lets:
                                written[rl[0]] = rl[1]
            # only buffers that are also READ as a whole somewhere in the loop matter (pure output buffers are fine)
            if not written:
                continue
            findings = []
            lhs_base_ids = {id(y) for x in walk(L["body"]) if x.get("k") in ("Assign", "AssignOp") and x["lhs"].get("k") == "Index"
                            for y in walk(x["lhs"]["e"])}

            def transfer(nd, st, written=written, findings=findings, lhs_base_ids=lhs_base_ids):
                k = nd.get("k")
                if k == "Assign":
                    lo = local_of(nd["lhs"])
                    if lo and lo[0] in st and strip(nd["lhs"]).get("k") == "Path":
                        return st - frozenset([lo[0]])
                    return st
                if k in ("Call", "MCall"):
                    if id(nd) in lhs_base_ids:
                        return st           # accessor chain on the left of an element store (`x.data_mut()[i] = ..`): not a read
                    f = callee(nd)
                    name = f["name"] if f else nd.get("name", "")
                    args = ([nd["recv"]] if k == "MCall" else []) + nd.get("args", [])
                    if name in REINIT and args:
                        rl = root_local(args[0])
                        if rl and rl[0] in st and strip(args[0]).get("k") in ("Path", "MCall"):
                            # whole-buffer re-initialisation (x.fill(..), x.as_mut_slice().fill(..), set_zero_uint(&mut x))
                            a0 = strip(args[0])
                            whole = a0.get("k") == "Path" or (a0.get("k") == "MCall" and a0.get("name") in
                                                              ("as_mut_slice", "as_mut", "iter_mut"))
                            if whole:
                                return st - frozenset([rl[0]])
                    for a in args:
                        rl = root_local(a)
                        if rl and rl[0] in st:
                            sa = strip(a)
                            # element read x[i] of a dirty buffer, or the whole buffer handed on
                            findings.append((rl[1], nd))
                    return st
                if k == "Index":
                    return st
                return st

            def visit(nd, st, findings=findings):
                # reads through indexing in plain expressions: x[i] on the right-hand side
                if nd.get("k") == "Index":
                    rl = root_local(nd)
                    if rl and rl[0] in st:
                        findings.append((rl[1], nd))

            # assignment targets are not reads: pre-compute ids of lhs Index nodes
            lhs_ids = {id(x["lhs"]) for x in walk(L["body"]) if x.get("k") in ("Assign",) and x["lhs"].get("k") == "Index"}

            def visit2(nd, st):
                if id(nd) in lhs_ids:
                    return
                visit(nd, st)

            fl = Flow(facts, lambda a, b: a | b, transfer, closure_mode="maybe")
            fl.visit_hook = visit2
            fl.ev(L["body"], frozenset(written))
            n += 1
            key = "%s/for#%d" % (p, li)
            li += 1
            if findings:
                nm, node = findings[0]
                rep.violation("R-CARRY", key + "/" + nm,
                              "buffer `%s` is declared outside this per-element loop, written inside it, and read (line %s) "
                              "in an iteration before being fully re-initialised in that iteration: element i is computed "
                              "from leftovers of element i-1" % (nm, node.get("l")), facts.loc(p, node))
            else:
                rep.ok("R-CARRY", key, "outer buffers written in the loop {%s} are write-only or re-initialised per iteration"
                       % ", ".join(sorted(written.values())), facts.loc(p, L),
                       sample={"function": p, "line": L.get("l"), "buffers": sorted(written.values())})
    return n


def _pos(n):
    return (n.get("l", 0), n.get("c", 0))


def _abs_only(defs, e, at, loops, depth=0):
    """True when every value e can hold at the test `at` is the result of .abs() / .unsigned_abs(): directly, or through
    locals all of whose REACHING definitions (those before the test, or anywhere in a loop that encloses it) are"""
    e = strip(e)
    if e.get("k") == "Cast":
        return _abs_only(defs, e["e"], at, loops, depth)
    if e.get("k") == "MCall" and e.get("name") in ("abs", "unsigned_abs") and not e["args"]:
        return True
    lo = local_of(e)
    if lo and depth < 4:
        ds = [d for d in defs.defs.get(lo[0], [])
              if _pos(d) < _pos(at) or any(any(y is d for y in walk(L)) for L in loops)]
        return bool(ds) and all(_abs_only(defs, d, at, loops, depth + 1) for d in ds)
    return False


def sign_tests(facts, body):
    """(node, always) for comparisons with 0 whose other side can only hold an absolute value"""
    defs = Defs(body)
    tree = Tree(body)
    out = []
    for x in walk(body):
        if x.get("k") != "Bin" or x.get("op") not in ("<", ">=", ">", "<="):
            continue
        a, b = strip(x["a"]), strip(x["b"])
        za = a.get("k") == "Lit" and re.sub(r"_?[iu](8|16|32|64|128|size)$", "", str(a.get("v"))) == "0"
        zb = b.get("k") == "Lit" and re.sub(r"_?[iu](8|16|32|64|128|size)$", "", str(b.get("v"))) == "0"
        loops = [L for L in tree.ancestors(x) if L.get("k") in ("Loop", "While", "For")]
        if zb and x["op"] in ("<", ">=") and _abs_only(defs, x["a"], x, loops):
            out.append((x, x["op"] == ">="))
        if za and x["op"] in (">", "<=") and _abs_only(defs, x["b"], x, loops):
            out.append((x, x["op"] == "<="))
    return out


def run_abs_sign(facts, rep, files=None):
    R = "R-CONTRA(sign)"
    rep.rule(R, "no sign test (`x < 0`, `x >= 0`) is applied to a value that can only be an absolute value: such a test is "
             "constant, so the negative case it was written for is silently treated as the positive one")
    # self-test of the matcher on a synthetic body (the rule expects zero matches on a healthy tree)
    syn = {"k": "Block", "stmts": [
        {"k": "Let", "pat": {"k": "PBind", "lid": 1, "name": "v"}, "init":
            {"k": "MCall", "name": "abs", "l": 1, "recv": {"k": "Path", "res": "local", "lid": 0, "name": "p"}, "args": []}},
        {"k": "Let", "pat": {"k": "PBind", "lid": 2, "name": "s"}, "init":
            {"k": "Bin", "op": "<", "l": 2, "a": {"k": "Path", "res": "local", "lid": 1, "name": "v"},
             "b": {"k": "Lit", "v": "0"}}}]}
    st = sign_tests(facts, syn)
    if len(st) == 1 and st[0][1] is False:
        rep.ok(R, "self-test", "the matcher recognises `let v = p.abs(); v < 0` as constant", "rules/r_contra.py", nontrivial=False)
    else:
        rep.violation(R, "self-test", "the sign-test matcher no longer recognises its positive example")
    n = 0
    for p in sorted(facts.hir):
        it = facts.items[p]
        if files is not None and it["file"] not in files:
            continue
        body = facts.hir[p]
        has_abs = any(x.get("k") == "MCall" and x.get("name") in ("abs", "unsigned_abs") for x in walk(body))
        if not has_abs:
            continue
        n += 1
        rep.fn(p)
        bad = sign_tests(facts, body)
        if not bad:
            rep.ok(R, p, "sign tests in %s read values that can be negative" % p, facts.loc(p), nontrivial=False)
        for k, (x, always) in enumerate(bad):
            rep.violation(R, "%s/#%d" % (p, k), "the sign test at line %s compares an absolute value with 0 and is always %s: "
                          "negative inputs are handled as if they were positive" % (x.get("l"), "true" if always else "false"),
                          facts.loc(p, x))
    return n


SIGNED = ("i8", "i16", "i32", "i64", "i128", "isize")


def run_sign_loop(facts, rep, files=None):
    """R-CONTRA(signloop): a digit-extraction loop `while v > 0 { ..; v = (..) >> k }` over a SIGNED value ends with v == 0 — the
    invariant  original = v * 2^i + sum(digits)  then gives the decomposition — only if v is non-negative when the loop is
    entered.  If nothing before the loop makes it so (abs, a refusal / early return on negative values), every negative input
    skips the loop and the function returns its initial (empty) result: the negative half of the domain is lost."""
    R = "R-CONTRA(signloop)"
    rep.rule(R, "a `while v > 0` halving loop over a signed value is entered only with v made non-negative (abs) or with "
             "negative values refused; otherwise negative inputs produce the loop's initial result")
    n = 0
    # the expected count on a healthy tree may be zero (a `!= 0` guard is equally right): keep a positive example that must match
    ti = None
    for i_, s_ in enumerate(facts.strs):
        if s_ == "i32":
            ti = i_
    V = {"k": "Path", "res": "local", "lid": 1, "name": "v", "t": ti}
    syn = {"k": "Block", "stmts": [{"k": "Expr", "e": {"k": "While", "l": 1, "c": {"k": "Bin", "op": ">", "a": V, "b": {"k": "Lit", "v": "0"}},
           "body": {"k": "Block", "stmts": [{"k": "Semi", "e": {"k": "Assign", "lhs": V, "rhs": {"k": "Bin", "op": ">>", "a": V,
                                                                                                "b": {"k": "Lit", "v": "1"}}}}]}}}]}
    todo = [("<self-test>", {"file": "rules/r_contra.py", "params": [{"pat": {"k": "PBind", "lid": 1, "name": "v"}}], "l": 0}, syn)]
    for p in sorted(facts.hir):
        it = facts.items[p]
        if files is not None and it["file"] not in files:
            continue
        if "::tests::" in p:
            continue
        todo.append((p, it, facts.hir[p]))
    selftest_hit = False
    for p, it, body in todo:
        whiles = [x for x in walk(body) if x.get("k") == "While"]
        if not whiles:
            continue
        order = {id(x): i for i, x in enumerate(walk(body))}
        params = {prm["pat"]["lid"] for prm in it["params"] if prm["pat"].get("k") == "PBind"}
        for kw, w in enumerate(whiles):
            c = strip(w["c"])
            if c.get("k") != "Bin":
                continue
            v = None
            a, b = strip(c["a"]), strip(c["b"])

            def lit(e, vals):
                return e.get("k") == "Lit" and str(e.get("v", "")).split("_")[0] in vals
            if c["op"] == ">" and local_of(a) and lit(b, ("0",)):
                v = local_of(a)
            elif c["op"] == ">=" and local_of(a) and lit(b, ("1",)):
                v = local_of(a)
            elif c["op"] == "<" and local_of(b) and lit(a, ("0",)):
                v = local_of(b)
            if not v or facts.ty(a if local_of(a) else b) not in SIGNED:
                continue
            halves = False
            for y in walk(w["body"]):
                if y.get("k") == "Assign" and local_of(y["lhs"]) and local_of(y["lhs"])[0] == v[0]:
                    r = strip(y["rhs"])
                    if r.get("k") == "Bin" and r.get("op") in (">>", "/"):
                        halves = True
                if y.get("k") == "AssignOp" and local_of(y["lhs"]) and local_of(y["lhs"])[0] == v[0] and y.get("op") in (">>", "/", ">>=", "/="):
                    halves = True
            if not halves:
                continue
            if p == "<self-test>":
                selftest_hit = True
                continue
            n += 1
            rep.fn(p)
            key = "%s/while#%d/%s" % (p, kw, v[1])
            # non-negativity established before the loop?
            established = None
            for y in walk(body):
                if order[id(y)] >= order[id(w)]:
                    break
                k = y.get("k")
                rhs = None
                if k == "Assign" and local_of(y["lhs"]) and local_of(y["lhs"])[0] == v[0]:
                    rhs = y["rhs"]
                if k == "Let" and y["pat"].get("k") == "PBind" and y["pat"]["lid"] == v[0] and "init" in y:
                    rhs = y["init"]
                if rhs is not None:
                    r = strip(rhs)
                    if r.get("k") == "MCall" and r.get("name") in ("abs", "unsigned_abs", "wrapping_abs"):
                        established = "abs"
                    elif r.get("k") == "Cast" and facts.ty(r["e"]).startswith("u"):
                        established = "from an unsigned value"
                    elif r.get("k") == "If":
                        established = established or "conditional normalisation"
                    else:
                        established = None if established != "refusal" else established
                if k == "If":
                    cc = strip(y["c"])
                    reads_v = any(local_of(z) and local_of(z)[0] == v[0] for z in walk(cc))
                    neg = cc.get("k") == "Bin" and cc.get("op") in ("<", "<=") and local_of(cc["a"]) and local_of(cc["a"])[0] == v[0]
                    if reads_v and neg and (facts.ty(y["th"]) == "!" or any(z.get("k") in ("Ret",) for z in walk(y["th"]))):
                        established = "refusal"
                    elif reads_v and neg and any(z.get("k") == "Assign" and local_of(z["lhs"]) and local_of(z["lhs"])[0] == v[0]
                                                 for z in walk(y["th"])):
                        established = "conditional negation"
            from_param = v[0] in params
            if established:
                rep.ok(R, key, "`%s` is non-negative at loop entry (%s)" % (v[1], established), facts.loc(p, w),
                       sample={"function": p, "variable": v[1], "by": established})
            elif from_param:
                rep.violation(R, key, "`%s` is a signed parameter used as it arrives; the digit loop runs only while `%s > 0` and halves "
                              "it: for every negative input the loop is skipped and the function returns its initial (empty) result — "
                              "nothing before the loop takes the absolute value or refuses negative values" % (v[1], v[1]),
                              facts.loc(p, w))
            else:
                rep.unresolved(R, key, "sign of `%s` at loop entry not established by a recognised form" % v[1], facts.loc(p, w))
    if selftest_hit:
        rep.ok(R, "self-test", "the matcher recognises `while v > 0 { v = v >> 1 }` over a signed parameter", "rules/r_contra.py",
               nontrivial=False)
    else:
        rep.violation(R, "self-test", "the halving-loop matcher no longer recognises its positive example")
    return n


def run_wrapcast(facts, rep, files=None):
    """R-CONTRA(wrapcast): `a.wrapping_sub(b) as i64` with u64 operands is the true difference a - b only when |a - b| < 2^63.
    For words of multi-precision integers (elements of a [u64] buffer: arbitrary 64-bit values) the difference ranges over
    (-2^64, 2^64); reinterpreting the wrapped value as a signed word of the same width is then off by exactly 2^64 for half
    of the operand pairs — the decoded coefficient is wrong by 2^(64 (j+1)) / scale."""
    R = "R-CONTRA(wrapcast)"
    rep.rule(R, "no wrapped unsigned difference of multi-precision words is reinterpreted as a signed integer of the same width")
    W = {"u64": "i64", "usize": "isize", "u32": "i32", "u128": "i128"}
    ti = {s_: i_ for i_, s_ in enumerate(facts.strs)}
    # positive example (expected count on a healthy tree is zero)
    if "u64" in ti and "i64" in ti and "[u64]" in ti:
        el = {"k": "Index", "t": ti["u64"], "e": {"k": "Path", "res": "local", "lid": 1, "name": "w", "t": ti["[u64]"]}, "i": {"k": "Lit", "v": "0"}}
        syn = {"k": "Block", "stmts": [], "expr": {"k": "Cast", "t": ti["i64"], "e": {"k": "MCall", "name": "wrapping_sub", "t": ti["u64"],
                                                                                     "recv": el, "args": [el]}}}
    else:
        syn = None
    todo = ([("<self-test>", syn)] if syn else []) + [(p, facts.hir[p]) for p in sorted(facts.hir)
                                                      if (files is None or facts.items[p]["file"] in files) and "::tests::" not in p]
    n = 0
    hit = False
    for p, body in todo:
        k_site = 0
        for x in walk(body):
            if x.get("k") != "Cast":
                continue
            inner = strip(x["e"])
            if not (inner.get("k") == "MCall" and inner.get("name") == "wrapping_sub" and inner.get("args")):
                continue
            st, tt = facts.ty(inner), facts.ty(x)
            if W.get(st) != tt:
                continue
            ops = [strip(inner["recv"]), strip(inner["args"][0])]

            def word(e):
                if e.get("k") != "Index":
                    return False
                bt = facts.ty(e["e"]).replace("&mut ", "").replace("&", "").strip()
                return bt.startswith("[u64]") or "Vec<u64" in bt
            if p == "<self-test>":
                hit = hit or any(word(o) for o in ops)
                continue
            n += 1
            rep.fn(p)
            key = "%s/wrapcast#%d" % (p, k_site)
            k_site += 1
            if any(word(o) for o in ops):
                rep.violation(R, key, "the wrapped difference of two words of multi-precision integers is cast to `%s`: the true difference "
                              "lies in (-2^64, 2^64) and does not fit, so for operand pairs more than 2^63 apart the value is off by "
                              "2^64 (a decoded coefficient is then wrong by 2^(64(j+1)) / scale)" % tt, facts.loc(p, x))
            else:
                rep.unresolved(R, key, "wrapped unsigned difference reinterpreted as `%s`; operand ranges not known" % tt, facts.loc(p, x))
    if syn is not None:
        if hit:
            rep.ok(R, "self-test", "the matcher recognises `w[0].wrapping_sub(w[0]) as i64`", "rules/r_contra.py", nontrivial=False)
        else:
            rep.violation(R, "self-test", "the wrap-cast matcher no longer recognises its positive example")
    return n


def run_onesided_digit(facts, rep, files=None):
    """R-CONTRA(onesided): the digits of a non-adjacent form are signed (+-2^k).  A test that singles out one magnitude (the
    full-row digit N/2, which is a no-op rotation) must treat both signs alike: compare the digit's absolute value, or both
    +C and -C.  An equality test of the signed digit itself against a non-negative quantity (a cast of an unsigned size)
    handles +C only; the digit -C then takes the other branch — for the row-size digit it is handed to the rotation routine,
    which refuses |step| >= N/2: legal negative steps whose NAF starts with -N/2 panic."""
    R = "R-CONTRA(onesided)"
    rep.rule(R, "an equality test on a signed NAF digit against a non-negative bound goes through the digit's absolute value "
             "(or tests both signs)")
    n = 0
    for p in sorted(facts.hir):
        it = facts.items[p]
        if files is not None and it["file"] not in files:
            continue
        if "::tests::" in p:
            continue
        body = facts.hir[p]
        naf_locals = set()
        for x in walk(body):
            if x.get("k") == "Let" and x["pat"].get("k") == "PBind" and "init" in x and \
                    any(y.get("k") == "Call" and (callee(y) or {}).get("name") == "naf" for y in walk(x["init"])):
                naf_locals.add(x["pat"]["lid"])
        if not naf_locals:
            continue
        defs = Defs(body)
        for lp in walk(body):
            if lp.get("k") != "For" or lp["pat"].get("k") != "PBind":
                continue
            src = root_local(lp["iter"])
            direct_naf = any(y.get("k") == "Call" and (callee(y) or {}).get("name") == "naf" for y in walk(lp["iter"]))
            if not ((src and src[0] in naf_locals) or direct_naf):
                continue
            dl = lp["pat"]["lid"]
            k_site = 0
            for c in walk(lp["body"]):
                if c.get("k") != "Bin" or c.get("op") not in ("==", "!="):
                    continue
                for me, other in ((c["a"], c["b"]), (c["b"], c["a"])):
                    uses_digit = any(local_of(y) and local_of(y)[0] == dl for y in walk(me))
                    if not uses_digit:
                        continue
                    n += 1
                    rep.fn(p)
                    key = "%s/digit-test#%d" % (p, k_site)
                    k_site += 1
                    through_abs = any(y.get("k") == "MCall" and y.get("name") in ("abs", "unsigned_abs", "wrapping_abs") for y in walk(me))
                    bare = local_of(me) is not None and local_of(me)[0] == dl
                    nonneg = any(y.get("k") == "Cast" and facts.ty(y["e"]).startswith("u") for y in defs.closure(other)) or \
                        any(y.get("k") == "Bin" and y.get("op") == ">>" for y in defs.closure(other))
                    if through_abs:
                        rep.ok(R, key, "the digit is compared through its absolute value", facts.loc(p, c), sample={"function": p})
                    elif bare and nonneg:
                        # is the mirrored test present in the same condition (digit == C || digit == -C)?
                        rep.violation(R, key, "the signed NAF digit is compared for (in)equality with a non-negative bound directly: only "
                                      "the positive digit is singled out, its negative counterpart takes the other branch (for the "
                                      "row-size digit: a recursive rotation by -N/2, which the step-to-element map refuses)",
                                      facts.loc(p, c))
                    else:
                        rep.unresolved(R, key, "digit test of a form the rule does not read", facts.loc(p, c))
                    break
    return n


def run_dropped_carry(facts, rep, files=None):
    """R-CONTRA(carry): add_u64 / sub_u64 (and their carry-in variants) return the carry / borrow OUT of the word.  When the
    sum or difference is stored into one word of a multi-word number (an element of a [u64] / Vec<u64> buffer) and the returned
    carry / borrow is discarded, the higher words are never adjusted: whenever the low word wraps, the number is off by 2^64
    (a constant `q - t` becomes `q - t + 2^64` whenever q mod 2^64 < t)."""
    R = "R-CONTRA(carry)"
    rep.rule(R, "the carry / borrow returned by a single-word add / sub whose result goes into a word of a multi-word buffer is "
             "not discarded")
    PRIMS = ("add_u64", "sub_u64", "add_u64_carry", "sub_u64_borrow")
    n = 0
    hit = False
    ti = {s_: i_ for i_, s_ in enumerate(facts.strs)}
    syn = None
    vt = next((s_ for s_ in ti if s_.startswith("std::vec::Vec<u64")), None)
    if vt:
        out = {"k": "Ref", "e": {"k": "Index", "e": {"k": "Path", "res": "local", "lid": 1, "name": "w", "t": ti[vt]}, "i": {"k": "Lit", "v": "0"}}}
        syn = {"k": "Block", "stmts": [{"k": "Semi", "e": {"k": "Call", "f": {"name": "sub_u64", "def": "util::basic::sub_u64"},
                                                          "args": [{"k": "Lit", "v": "1"}, {"k": "Lit", "v": "2"}, out]}}]}
    todo = ([("<self-test>", syn)] if syn else []) + [(p, facts.hir[p]) for p in sorted(facts.hir)
                                                      if (files is None or facts.items[p]["file"] in files) and "::tests::" not in p]
    for p, body in todo:
        tree = Tree(body)
        k_site = 0
        for x in walk(body):
            if x.get("k") != "Call" or (callee(x) or {}).get("name") not in PRIMS:
                continue
            up = tree.up(x)
            if up is None or up.get("k") != "Semi":
                continue
            dst = strip(x["args"][-1]) if x.get("args") else {}
            multi = False
            if dst.get("k") == "Index":
                bt = facts.ty(dst["e"]).replace("&mut ", "").replace("&", "").strip()
                multi = bt.startswith("[u64]") or "Vec<u64" in bt
            if p == "<self-test>":
                hit = hit or multi
                continue
            n += 1
            rep.fn(p)
            key = "%s/dropped#%d" % (p, k_site)
            k_site += 1
            nm = (callee(x) or {}).get("name")
            if multi:
                rep.violation(R, key, "the %s returned by %s is discarded while its result is stored into one word of a multi-word "
                              "buffer: the higher words are not adjusted, so the number is off by 2^64 whenever the low word wraps" %
                              ("borrow" if "sub" in nm else "carry", nm), facts.loc(p, x))
            else:
                rep.unresolved(R, key, "%s's carry / borrow is discarded (single-word destination)" % nm, facts.loc(p, x))
    if syn is not None:
        if hit:
            rep.ok(R, "self-test", "the matcher recognises a discarded borrow of sub_u64 into w[0]", "rules/r_contra.py", nontrivial=False)
        else:
            rep.violation(R, "self-test", "the dropped-carry matcher no longer recognises its positive example")
    return n


def _len_recv(e):
    """root local of X in `X.len()` (through - 1), else None"""
    e = strip(e)
    if e.get("k") == "MCall" and e.get("name") == "len" and not e["args"]:
        return root_local(e["recv"])
    return None


def run_pairwise(facts, rep, files=None):
    """R-CONTRA(pairs): counter loops that consume X[i], X[i+c].
    (bound)     `while i < X.len()` with an access X[i + c], c >= 1, in a function that itself tests X.len() % 2 (it
                believes an odd length possible): for the last i of an odd-length X the access is out of bounds.
    (deadstore) a loop that only advances i and stores its computed value to X[i] while every later read of X uses a larger
                index (the pair X[i], X[i+1] of later iterations, or the last element after the loop): the stored values
                never reach the result, so the loop's work is lost."""
    R = "R-CONTRA(pairs)"
    rep.rule(R, "pairwise-consuming counter loops stay in bounds for odd lengths and do not store their results where they are "
             "never read")
    n = 0
    for p in sorted(facts.hir):
        it = facts.items[p]
        if files is not None and it["file"] not in files:
            continue
        body = facts.hir[p]
        whiles = [x for x in walk(body) if x.get("k") == "While"]
        if not whiles:
            continue
        odd_belief = set()
        for x in walk(body):
            if x.get("k") == "Bin" and x.get("op") in ("%", "&"):
                rl = _len_recv(x["a"])
                if rl and strip(x["b"]).get("v", "").split("_")[0] in ("2", "1"):
                    odd_belief.add(rl[0])
        for k_w, w in enumerate(whiles):
            c = strip(w["c"])
            if c.get("k") != "Bin" or c.get("op") != "<":
                continue
            # forms: i < X.len() | i + 1 < X.len() | i < X.len() - 1
            lhs, rhs = strip(c["a"]), strip(c["b"])
            slack = 0
            if lhs.get("k") == "Bin" and lhs.get("op") == "+" and local_of(lhs["a"]):
                slack += int(strip(lhs["b"]).get("v", "0").split("_")[0] or 0)
                ctr = local_of(lhs["a"])
            else:
                ctr = local_of(lhs)
            if rhs.get("k") == "Bin" and rhs.get("op") == "-":
                slack += int(strip(rhs["b"]).get("v", "0").split("_")[0] or 0)
                arr = _len_recv(rhs["a"])
            else:
                arr = _len_recv(rhs)
            if not ctr or not arr:
                continue
            accesses = []
            for y in walk(w["body"]):
                if y.get("k") == "Index" and (root_local(y["e"]) or (None,))[0] == arr[0]:
                    i0 = strip(y["i"])
                    off = None
                    if local_of(i0) and local_of(i0)[0] == ctr[0]:
                        off = 0
                    elif i0.get("k") == "Bin" and i0.get("op") == "+" and local_of(i0["a"]) and local_of(i0["a"])[0] == ctr[0]:
                        off = int(strip(i0["b"]).get("v", "0").split("_")[0] or 0)
                    if off is not None:
                        accesses.append((y, off))
            if not accesses:
                continue
            n += 1
            rep.fn(p)
            key = "%s/while#%d" % (p, k_w)
            worst = max(off for _, off in accesses)
            if worst > slack and arr[0] in odd_belief:
                y = [a for a, off in accesses if off == worst][0]
                rep.violation(R, key + "/bound", "`%s[%s + %d]` is read in a loop that only guarantees %s + %d < %s.len(), and the "
                              "function itself tests %s.len() %% 2: for an odd length the last iteration indexes out of bounds" %
                              (arr[1], ctr[1], worst, ctr[1], slack, arr[1], arr[1]), facts.loc(p, y))
            elif worst > slack:
                rep.unresolved(R, key + "/bound", "`%s[%s + %d]` under a guard with slack %d: in bounds only if the length has the "
                               "right parity" % (arr[1], ctr[1], worst, slack), facts.loc(p, w))
            else:
                rep.ok(R, key + "/bound", "accesses up to `%s[%s + %d]` are implied in bounds by the loop condition" %
                       (arr[1], ctr[1], worst), facts.loc(p, w))
            # (deadstore)
            stores = [y for y in walk(w["body"]) if y.get("k") == "Assign" and strip(y["lhs"]).get("k") == "Index" and
                      any(a is strip(y["lhs"]) and off == 0 for a, off in accesses)]
            grows = any(y.get("k") == "MCall" and y.get("name") in ("push", "insert", "extend") and
                        (root_local(y["recv"]) or (None,))[0] == arr[0] for y in walk(w["body"]))
            if stores and not grows:
                later = [y for y in walk(body) if y.get("k") == "Index" and (root_local(y["e"]) or (None,))[0] == arr[0]
                         and (y.get("l", 0), y.get("c", 0)) > (w.get("l", 0), w.get("c", 0)) and not any(y is z for z in walk(w))]
                only_last = later and all(_len_recv(strip(strip(y["i"]).get("a", {}))) is not None and strip(y["i"]).get("op") == "-"
                                          for y in later)
                step = any(y.get("k") == "AssignOp" and y.get("op", "").startswith("+") and local_of(y["lhs"]) and
                           local_of(y["lhs"])[0] == ctr[0] for y in walk(w["body"]))
                if only_last and step and slack >= 1:
                    rep.violation(R, key + "/deadstore", "the loop stores its result to `%s[%s]` with %s + %d < %s.len(), never grows "
                                  "`%s`, and afterwards only the last element is read: the computed values never reach the "
                                  "result" % (arr[1], ctr[1], ctr[1], slack, arr[1], arr[1]), facts.loc(p, stores[0]))
    return n


def narrow_shifts(facts, body):
    """`(a << e) as WIDE` where the shift itself is performed in a narrower integer type than the cast target and the
    amount is not a literal below that type's width: the shift overflows (debug: panic; release: amount taken modulo the
    narrow width and the result sign-extended) before it is widened."""
    W = {"i8": 8, "u8": 8, "i16": 16, "u16": 16, "i32": 32, "u32": 32, "i64": 64, "u64": 64, "usize": 64, "isize": 64,
         "i128": 128, "u128": 128}
    out = []
    for x in walk(body):
        if x.get("k") != "Cast":
            continue
        inner = strip(x["e"])
        if inner.get("k") != "Bin" or inner.get("op") != "<<":
            continue
        tn, tw = facts.ty(inner), facts.ty(x)
        if tn not in W or tw not in W or W[tn] >= W[tw]:
            continue
        amt = strip(inner["b"])
        if amt.get("k") == "Lit":
            m = re.match(r"^(\d+)", str(amt.get("v", "")))
            if m and int(m.group(1)) < W[tn] - (1 if tn.startswith("i") else 0):
                continue
        out.append((x, tn, tw, amt))
    return out


def _amount_reaches(defs, amt, width):
    """evidence, in the code itself, that the shift amount ranges beyond the narrow type's width: it is a value taken
    modulo / masked with something larger than that width (a bit index inside a wider word)"""
    for y in defs.closure(amt):
        if y.get("k") == "Bin" and y.get("op") in ("%", "&"):
            m = re.match(r"^(\d+)", str(strip(y["b"]).get("v", "")))
            if m and ((y["op"] == "%" and int(m.group(1)) > width) or (y["op"] == "&" and int(m.group(1)) >= width)):
                return True
    return False


def run_narrow_shift(facts, rep, modules=None):
    R = "R-CONTRA(shift)"
    rep.rule(R, "no left shift is performed in a narrower integer type than the one its result is cast to, unless the amount is "
             "a literal that fits the narrow type")
    class _F:
        def ty(self, n):
            return n.get("T", "")
    syn = {"k": "Cast", "T": "u64", "e": {"k": "Bin", "op": "<<", "T": "i32", "a": {"k": "Lit", "v": "1"},
                                          "b": {"k": "Path", "res": "local", "lid": 1, "name": "k"}}}
    if len(narrow_shifts(_F(), syn)) == 1 and len(narrow_shifts(_F(), syn)[0]) == 4:
        rep.ok(R, "self-test", "the matcher recognises `(1 << k) as u64` with an i32 shift", "rules/r_contra.py", nontrivial=False)
    else:
        rep.violation(R, "self-test", "the narrow-shift matcher no longer recognises its positive example")
    n = 0
    for p in sorted(facts.hir):
        it = facts.items[p]
        if modules is not None and it.get("module") not in modules:
            continue
        body = facts.hir[p]
        if not any(x.get("k") == "Bin" and x.get("op") == "<<" for x in walk(body)):
            continue
        n += 1
        bad = narrow_shifts(facts, body)
        if bad:
            rep.fn(p)
        bdefs = Defs(body) if bad else None
        W_ = {"i8": 8, "u8": 8, "i16": 16, "u16": 16, "i32": 32, "u32": 32}
        for k, (x, tn, tw, amt) in enumerate(bad):
            if not _amount_reaches(bdefs, amt, W_.get(tn, 32) - (1 if tn.startswith("i") else 0)):
                rep.unresolved(R, "%s/#%d" % (p, k), "a shift is performed in `%s` before being cast to `%s` (line %s); nothing in "
                               "the function shows the amount can reach %d (a precondition may bound it)" %
                               (tn, tw, x.get("l"), W_.get(tn, 32) - 1), facts.loc(p, x))
                continue
            rep.violation(R, "%s/#%d" % (p, k), "a left shift by a run-time amount is performed in `%s` and only then cast to `%s` "
                          "(line %s): for amounts of %d or more it overflows — a panic in debug builds, the amount taken modulo "
                          "%d and the result sign-extended in release builds" % (tn, tw, x.get("l"), 31 if tn == "i32" else 0,
                                                                                 32 if tn == "i32" else 0), facts.loc(p, x))
    return n


def run_absmod(facts, rep, files=None):
    """R-CONTRA(absmod) [N]: `reduce(x.unsigned_abs(), M)` is the residue of a signed x only for x >= 0; for negative x the
    residue is M - that.  A function that reduces the magnitude of a signed integer local modulo something must consult the
    sign of that same local (`x < 0`, `x >= 0`, is_negative, signum, ...) somewhere; if nothing does, negative values are
    mapped to the residue of their absolute value."""
    R = "R-CONTRA(absmod)"
    rep.rule(R, "wherever the magnitude of a signed integer local is reduced modulo a modulus, the function also tests that "
             "local's sign")
    REDUCE = {"barrett_reduce_u64", "barrett_reduce_u128", "reduce", "reduce_u128", "modulo"}
    SIGNED = ("i64", "i128", "i32", "isize", "i16", "i8")
    n = 0
    for p in sorted(facts.hir):
        it = facts.items[p]
        if files is not None and it["file"] not in files:
            continue
        body = facts.hir[p]
        defs = Defs(body)
        sites = []
        seen = set()
        for r in walk(body):
            is_red = (r.get("k") in ("Call", "MCall") and ((callee(r) or {}).get("name") or r.get("name")) in REDUCE) or \
                (r.get("k") == "Bin" and r.get("op") == "%")
            if not is_red:
                continue
            operands = ([r["recv"]] if r.get("k") == "MCall" else []) + r.get("args", []) if r.get("k") != "Bin" else [r["a"]]
            for o in operands:
                for x in defs.closure(o):
                    if x.get("k") == "MCall" and x.get("name") in ("unsigned_abs", "abs") and not x["args"] and id(x) not in seen:
                        lo = local_of(x["recv"])
                        if lo and facts.ty(x["recv"]).lstrip("&") in SIGNED:
                            seen.add(id(x))
                            sites.append((x, lo, r))
        for k, (x, lo, red) in enumerate(sites):
            n += 1
            rep.fn(p)
            key = "%s/%s#%d" % (p, lo[1], k)
            signtest = False
            for y in walk(body):
                if y.get("k") == "Bin" and y.get("op") in ("<", "<=", ">", ">="):
                    a, b = strip(y["a"]), strip(y["b"])
                    la, lb = local_of(a), local_of(b)
                    z = lambda e: e.get("k") == "Lit" and re.sub(r"_?[iu]\d+$|_?[iu]size$", "", str(e.get("v"))) in ("0", "-1", "1")
                    if (la and la[0] == lo[0] and z(b)) or (lb and lb[0] == lo[0] and z(a)):
                        signtest = True
                if y.get("k") == "MCall" and y.get("name") in ("is_negative", "is_positive", "signum") and \
                        local_of(y["recv"]) and local_of(y["recv"])[0] == lo[0]:
                    signtest = True
            if signtest:
                rep.ok(R, key, "the magnitude of `%s` is reduced and its sign is tested" % lo[1], facts.loc(p, x))
            else:
                rep.violation(R, key, "the magnitude of the signed `%s` is reduced modulo a modulus (line %s) but nothing in %s "
                              "tests its sign: a negative value is mapped to the residue of its absolute value instead of the "
                              "modulus minus that" % (lo[1], x.get("l"), p), facts.loc(p, x))
    return n
