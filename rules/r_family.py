"""R-FAMILY — delegation by operation class (C02 polynomial layer, C09 NTT wrappers, C20 RNS-plaintext wrappers).

Layout suffixes (`_ps` = several polynomials, `_p` = one RNS polynomial, none = one component; `_inplace`,
`_new`) are layout, not operation.  The *class* of a function is its name without those suffixes.
 (poly) [N]  a `_ps` / `_p` wrapper of util::polysmallmod hands its buffers to a function of the SAME class one
             layout level down (`sub_inplace_ps` -> `sub_inplace_p` -> `sub_inplace`); reaching another class is
             an operation that computes something else than its name says; and the running offset advances by
             exactly the width of the slices handed down.
 (ntt)  [N]  polysmallmod::{ntt, ntt_lazy, intt, intt_lazy} reach the NTTTables method of the same direction
             and laziness.
 (rnsp) [N]  every method of the RNS-plaintext wrappers applies, component-wise, the method of the same class
             of the wrapped type.
"""
import re
from facts import walk, callee, target_key, strip, local_of
from r_pair import same_expr


def op_class(name):
    n = re.sub(r"_(ps|p)$", "", name)
    n = re.sub(r"_(inplace|new)$", "", n)
    n = n.replace("mononomials", "mononomial")
    return n


def run_poly(facts, rep, only=None):
    R = "R-FAMILY(poly)"
    rep.rule(R, "a _ps/_p wrapper in util::polysmallmod delegates to the same operation class one layout level down and "
             "advances its offset by the sliced width")
    fns = {facts.items[p]["name"]: p for p in facts.items if facts.items[p].get("module") == "util::polysmallmod"}
    n = 0
    for name, p in sorted(fns.items()):
        m = re.search(r"_(ps|p)$", name)
        if not m:
            continue
        if only is not None and not any(name.startswith(o) for o in only):
            continue
        n += 1
        rep.fn(p)
        body = facts.hir[p]
        callees = []
        for x in walk(body):
            f = callee(x)
            if f and f.get("local") and target_key(f) in facts.items and facts.items[target_key(f)].get("module") == "util::polysmallmod":
                if any("[u64]" in facts.ty_adj(a) for a in x.get("args", [])):
                    callees.append((f["name"], x))
        key = "%s" % name
        if not callees:
            rep.unresolved(R, key, "no delegation inside polysmallmod", facts.loc(p))
            continue
        bad = [(c, x) for c, x in callees if op_class(c) != op_class(name)]
        lvl_ok = all((c.endswith("_p") if name.endswith("_ps") else not re.search(r"_(ps|p)$", c)) for c, _ in callees)
        if bad:
            rep.violation(R, key, "%s (class `%s`) hands its buffers to %s (class `%s`): the wrapper computes a different "
                          "operation than its name says" % (name, op_class(name), bad[0][0], op_class(bad[0][0])),
                          facts.loc(p, bad[0][1]))
            continue
        # offset stride: the running offset is an induction variable advancing by exactly the width of the slices
        # handed down (symbolic polynomials: `offset += d`, `offset = upper`, `offset = offset + d` are all accepted;
        # `offset = d` is not), or the slices are `i*w .. (i+1)*w` of the loop variable
        from r_slotmod import Sym, padd, patom, psubst, pshow
        stride_ok = True
        detail = ""
        sym = Sym(facts, body)
        for L in walk(body):
            if L.get("k") not in ("For", "While", "Loop"):
                continue
            for y in walk(L["body"]):
                if y.get("k") != "Index":
                    continue
                r = strip(y["i"])
                if r.get("k") != "Struct" or not r.get("path", "").endswith("ops::Range"):
                    continue
                d = {f["name"]: f["e"] for f in r["fields"]}
                st, en = sym.poly(d.get("start")), sym.poly(d.get("end"))
                if not isinstance(st, dict) or not isinstance(en, dict):
                    continue
                width = padd(en, st, -1)
                mut_atoms = [a for m in st for a in m if a not in sym.ranges and re.match(r".*#\d+$", a) and
                             any(z.get("k") in ("Assign", "AssignOp") and local_of(z["lhs"]) and
                                 "%s#%d" % (local_of(z["lhs"])[1], local_of(z["lhs"])[0]) == a for z in walk(L["body"]))]
                for a in set(mut_atoms):
                    for z in walk(L["body"]):
                        if z.get("k") in ("Assign", "AssignOp") and local_of(z["lhs"]) and \
                                "%s#%d" % (local_of(z["lhs"])[1], local_of(z["lhs"])[0]) == a:
                            rhs = sym.poly(z["rhs"])
                            if not isinstance(rhs, dict):
                                continue
                            new = rhs if z["k"] == "Assign" else (padd(patom(a), rhs) if z.get("op", "").startswith("+") else None)
                            if new is None:
                                continue
                            if padd(new, padd(patom(a), width), -1):
                                stride_ok = False
                                detail = "the running offset `%s` becomes %s after a slice of width %s" % (
                                    a.split("#")[0], pshow(new), pshow(width))
                lv = [a for m in st for a in m if a in sym.ranges]
                for a in set(lv):
                    nxt = psubst(st, a, padd(patom(a), {(): 1}))
                    if padd(padd(nxt, st, -1), width, -1) and not mut_atoms:
                        stride_ok = False
                        detail = "consecutive iterations slice at distance %s but hand down width %s" % (
                            pshow(padd(nxt, st, -1)), pshow(width))
        if not stride_ok:
            rep.violation(R, key + "/stride", "%s: %s — components overlap or are skipped" % (name, detail), facts.loc(p))
        else:
            rep.ok(R, key, "delegates to %s (same class%s), stride = slice width" %
                   (", ".join(sorted({c for c, _ in callees})), "" if lvl_ok else ", other layout level"), facts.loc(p),
                   sample={"wrapper": name, "delegates_to": sorted({c for c, _ in callees})})
    return n


def run_ntt(facts, rep):
    R = "R-FAMILY(ntt)"
    rep.rule(R, "polysmallmod::{ntt,ntt_lazy,intt,intt_lazy} reach the NTTTables transform of the same direction and laziness")
    want = {"ntt": "ntt_negacyclic_harvey", "ntt_lazy": "ntt_negacyclic_harvey_lazy",
            "intt": "inverse_ntt_negacyclic_harvey", "intt_lazy": "inverse_ntt_negacyclic_harvey_lazy"}
    n = 0
    for nm, target in sorted(want.items()):
        p = "util::polysmallmod::" + nm
        if not rep.anchor(R, p, p in facts.hir):
            continue
        n += 1
        rep.fn(p)
        called = [f["name"] for x in walk(facts.hir[p]) for f in [callee(x)] if f and "NTTTables" in (f.get("self") or f.get("def", ""))]
        if called == [target]:
            rep.ok(R, nm, "%s -> NTTTables::%s" % (nm, target), facts.loc(p))
        else:
            rep.violation(R, nm, "polysmallmod::%s reaches NTTTables::%s instead of %s: wrong direction or laziness for "
                          "every caller of this wrapper" % (nm, called, target), facts.loc(p))
    return n


def run_rnsp(facts, rep):
    R = "R-FAMILY(rnsp)"
    rep.rule(R, "each method of an RNS-plaintext wrapper applies the same-class method of the wrapped type to its components")
    wrapped = {"app::rns_plain::evaluator::RnspEvaluator": "evaluator::Evaluator",
               "app::rns_plain::encryptor::RnspEncryptor": "encryptor::Encryptor",
               "app::rns_plain::encryptor::RnspDecryptor": "encryptor::Decryptor"}
    n = 0
    for wt, inner in sorted(wrapped.items()):
        for p in sorted(facts.methods_of(wt, pub_only=True)):
            nm = facts.items[p]["name"]
            if nm == "new":
                continue
            inner_calls = []
            for x in walk(facts.hir[p]):
                f = callee(x)
                if f and f.get("local") and (f.get("self") or "").lstrip("&") == inner:
                    inner_calls.append((f["name"], x))
            if not inner_calls:
                continue
            n += 1
            rep.fn(p)
            bad = [(c, x) for c, x in inner_calls if op_class(c) != op_class(nm)]
            if bad:
                rep.violation(R, "%s::%s" % (wt.rsplit("::", 1)[1], nm), "%s::%s applies %s::%s to its components: a different "
                              "operation than the wrapper's name" % (wt, nm, inner, bad[0][0]), facts.loc(p, bad[0][1]))
            else:
                rep.ok(R, "%s::%s" % (wt.rsplit("::", 1)[1], nm), "component-wise %s::%s" % (inner.rsplit("::", 1)[1], inner_calls[0][0]),
                       facts.loc(p), nontrivial=False)
    return n


def run_negacyclic(facts, rep, floor=0):
    """R-FAMILY(negacyclic) [N]: multiplication by X^e in Z[X]/(X^n + 1) moves coefficient i to position i + e and flips the sign
    of the e coefficients that wrap around.  Every base-level routine named negacyclic_multiply_mononomial* / negacyclic_shift
    either delegates to `negacyclic_shift` with its own exponent, or performs the move itself; if it does so with a slice
    rotation, std's semantics fix the direction: `rotate_right(e)` (element i -> i + e) followed by a negation of the PREFIX
    `[..e]`, or `rotate_left(n - e)`.  `rotate_left(e)` — with a negated suffix — is multiplication by X^(-e): every
    single-monomial plaintext product with exponent >= 1 then decrypts to the wrong coefficients (exponent 0, the one case
    the suite multiplies by, is unaffected)."""
    RN = "R-FAMILY(negacyclic)"
    rep.rule(RN, "base-level monomial multiplications delegate to negacyclic_shift with their exponent, or rotate right by the "
             "exponent and negate the wrapped prefix")
    n = 0
    for p in sorted(facts.hir):
        nm = p.rsplit("::", 1)[-1]
        it = facts.items[p]
        if "polysmallmod" not in p or not nm.startswith("negacyclic_multiply_mononomial") or nm.endswith("_p") or nm.endswith("_ps"):
            continue
        exps = {prm["pat"]["lid"]: prm["pat"]["name"] for prm in it["params"]
                if prm["pat"].get("k") == "PBind" and "exponent" in prm["pat"].get("name", "")}
        if not exps:
            continue
        body = facts.hir[p]
        n += 1
        rep.fn(p)
        key = "%s/direction" % p
        deleg = [x for x in walk(body) if x.get("k") == "Call" and (callee(x) or {}).get("name") == "negacyclic_shift"]
        rots = [x for x in walk(body) if x.get("k") == "MCall" and x.get("name") in ("rotate_left", "rotate_right") and x["args"]]
        if deleg and not rots:
            a = deleg[0]["args"][1] if len(deleg[0]["args"]) > 1 else None
            lo = local_of(a) if a is not None else None
            if lo and lo[0] in exps:
                rep.ok(RN, key, "delegates to negacyclic_shift with its own exponent", facts.loc(p, deleg[0]), sample={"function": p})
            else:
                rep.unresolved(RN, key, "delegates to negacyclic_shift with an amount that is not its exponent parameter",
                               facts.loc(p, deleg[0]))
            continue
        if not rots:
            rep.unresolved(RN, key, "neither delegation nor slice rotation recognised", facts.loc(p))
            continue
        r = rots[0]
        lo = local_of(r["args"][0])
        direct = bool(lo and lo[0] in exps)
        if r["name"] == "rotate_right" and direct:
            # the negated range must be the prefix [..e]
            neg_prefix = False
            for x in walk(body):
                if x.get("k") in ("Call", "MCall") and "negate" in ((callee(x) or {}).get("name") or x.get("name") or ""):
                    for a in x.get("args", []):
                        a0 = strip(a)
                        if a0.get("k") == "Index":
                            idx = strip(a0["i"])
                            if idx.get("k") == "Struct" and "RangeTo" in idx.get("path", ""):
                                neg_prefix = True
            if neg_prefix:
                rep.ok(RN, key, "rotate_right(exponent) with the wrapped prefix negated", facts.loc(p, r))
            else:
                rep.unresolved(RN, key, "rotate_right(exponent) but the negation of the wrapped prefix was not recognised", facts.loc(p, r))
        elif r["name"] == "rotate_left" and direct:
            rep.violation(RN, key, "`rotate_left(%s)` moves coefficient i to position i - %s: the routine multiplies by X^(-e) instead of "
                          "X^e, so every product with a single-monomial plaintext of exponent >= 1 lands on the wrong coefficients" %
                          (lo[1], lo[1]), facts.loc(p, r))
        else:
            rep.unresolved(RN, key, "rotation amount is not the exponent parameter itself", facts.loc(p, r))
    rep.floor(RN, "base-level monomial multiplications", n, floor)
    return n
