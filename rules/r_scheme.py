"""R-SCHEME / completeness / R-COMMUTE for the multiparty layer (property C18) and scheme dispatch (C01).

R-SCHEME(pair) [N]: sibling implementations of one decoding step must reach, per scheme, the same decoding
  routines: multiparty::decrypt_polynomial (projected on BFV / CKKS / BGV) vs Decryptor::{bfv,ckks,bgv}_decrypt
  — the RNSTool decoder, the representation change (intt/ntt), the correction-factor fix.
R-GUARD(complete) [N]: PolynomialRevelationProtocol::finish sums the received shares only after a refusing
  assertion over `broadcasted` (every slot is_some or the own id); every protocol type that owns revelation
  sub-protocols finishes each of them on every normally-returning path of its own finish*.
R-COMMUTE [S]: `receive` writes only slot[sender_id] of `broadcasted` (no push, no accumulator), `finish`
  combines the slots with the commutative add: the result is a function of the SET of (sender, message)
  pairs, hence independent of delivery order.  A different handler shape only loses the certificate.
"""
from facts import walk, callee, target_key, root_local, strip, local_of, Defs
from flow import Flow
import project

DECODE_NAMES = ("decrypt_scale_and_round", "decrypt_mod_t", "intt_p", "ntt_p", "intt_ps", "ntt_ps", "try_invert_u64_mod",
                "multiply_scalar_inplace", "compose_array", "decompose_array")


def decode_calls(facts, body):
    out = set()
    for x in walk(body):
        f = callee(x)
        if f and f["name"] in DECODE_NAMES:
            out.add(f["name"])
    return out


def run_pair(facts, rep):
    R = "R-SCHEME(pair)"
    rep.rule(R, "per scheme, multiparty::decrypt_polynomial reaches the same decoding routines (RNSTool decoder, "
             "representation change, correction-factor fix) as the corresponding Decryptor::<scheme>_decrypt")
    mp = "multiparty::participant::decrypt_polynomial"
    if not rep.anchor(R, mp, mp in facts.hir):
        return 0
    n = 0
    for scheme, dec in (("BFV", "encryptor::Decryptor::bfv_decrypt"), ("CKKS", "encryptor::Decryptor::ckks_decrypt"),
                        ("BGV", "encryptor::Decryptor::bgv_decrypt")):
        if not rep.anchor(R, dec, dec in facts.hir):
            continue
        n += 1
        rep.fn(dec)
        rep.fn(mp)
        proj = project.project(facts, facts.hir[mp], scheme)
        a = decode_calls(facts, proj)
        b = decode_calls(facts, facts.hir[dec])
        # the single-party routine transforms the ciphertext for the dot product as well; compare the decoders proper
        core = {"decrypt_scale_and_round", "decrypt_mod_t", "compose_array", "decompose_array"}
        ka, kb = a & core, b & core
        key = "%s/%s" % (mp, scheme)
        if ka != kb:
            rep.violation(R, key, "under %s the collective decryption decodes with {%s} but Decryptor::%s decodes with "
                          "{%s}: the protocol does not return what the single-key decryptor returns for the same phase" %
                          (scheme, ", ".join(sorted(ka)) or "nothing", dec.rsplit("::", 1)[1], ", ".join(sorted(kb)) or "nothing"),
                          facts.loc(mp))
            continue
        extra = {"try_invert_u64_mod", "multiply_scalar_inplace"}
        if (a & extra) != (b & extra):
            rep.violation(R, key, "under %s the correction-factor fix differs: collective {%s} vs single-key {%s}" %
                          (scheme, ", ".join(sorted(a & extra)), ", ".join(sorted(b & extra))), facts.loc(mp))
            continue
        # representation change: if the single-key routine leaves NTT form before decoding, so must the collective one
        if ("intt_p" in b or "intt_ps" in b) and scheme == "BGV" and not ({"intt_p", "intt_ps"} & a):
            rep.violation(R, key, "under %s Decryptor leaves NTT form (intt) before decoding but the collective decryption "
                          "does not" % scheme, facts.loc(mp))
            continue
        rep.ok(R, key, "decoders agree under %s: {%s}" % (scheme, ", ".join(sorted(ka | (a & extra)))), facts.loc(mp),
               sample={"scheme": scheme, "collective": sorted(a), "single_key": sorted(b)})
    return n


def run_complete(facts, rep):
    R = "R-GUARD(complete)"
    rep.rule(R, "the revelation protocol's finish refuses (assert over `broadcasted`: is_some or own id) before it sums; "
             "every owner of revelation sub-protocols finishes each of them on every normally-returning path")
    prp = None
    for tp in facts.types:
        if tp.endswith("::PolynomialRevelationProtocol"):
            prp = tp
    if not rep.anchor(R, "PolynomialRevelationProtocol", prp is not None):
        return 0
    fin = None
    for p in facts.methods_of(prp + "<'a>") + facts.methods_of(prp):
        if facts.items[p]["name"] == "finish":
            fin = p
    if not rep.anchor(R, "PolynomialRevelationProtocol::finish", fin is not None):
        return 0
    rep.fn(fin)
    body = facts.inlined(fin) if hasattr(facts, "inlined") else facts.hir[fin]    # an extracted completeness predicate is read in place
    defs = Defs(body)
    bad = []
    n_eff = [0]

    def is_complete_check(args):
        names = set()
        fields = set()
        for a in args:
            for x in defs.closure(a):
                f = callee(x)
                if f:
                    names.add(f["name"])
                if x.get("k") == "Field":
                    fields.add(x["name"])
        return "broadcasted" in fields and "is_some" in names and "participant_id" in fields

    def transfer(n, st):
        k = n.get("k")
        if k == "Macro" and n.get("name") == "assert" and n["args"] and is_complete_check(n["args"][:1]):
            return True
        if k in ("Call", "MCall"):
            f = callee(n)
            if f and f["name"].startswith("add_inplace"):
                n_eff[0] += 1
                if not st:
                    bad.append(n)
        return st

    def guard(n, st, sense, kind):
        if kind == "if":
            sib = n.get("el") if sense else n["th"]
            if sib is not None and facts.ty(sib) == "!" and is_complete_check([n["c"]]):
                return True
        return st

    fl = Flow(facts, lambda a, b: a and b, transfer, guard=guard, closure_mode="maybe")
    fl.run(body, False)
    if bad:
        rep.violation(R, fin + "/sum", "shares are summed (line %s) on a path that has not passed the completeness refusal: "
                      "a party that has not received every message still finishes" % bad[0].get("l"), facts.loc(fin, bad[0]))
    elif not all(st for st, _ in fl.rets):
        rep.violation(R, fin + "/return", "finish can return normally without the completeness refusal", facts.loc(fin))
    else:
        rep.ok(R, fin, "the completeness assertion dominates all %d summation site(s) and every normal return" % n_eff[0],
               facts.loc(fin), sample={"function": fin, "summation_sites": n_eff[0]})
    # owners: the summed polynomial of a revelation round is only reachable through finish()/finish_take()
    n = 1
    prp_short = "PolynomialRevelationProtocol"
    for p in sorted(facts.hir):
        it = facts.items[p]
        if not p.startswith("multiparty::"):
            continue
        own = prp_short in it.get("impl_self", "")
        for x in walk(facts.hir[p]):
            if x.get("k") == "Field" and x.get("name") == "result" and prp_short in facts.ty(x["e"]):
                if not own:
                    rep.violation(R, "%s/result-bypass" % p, "%s reads the `result` field of a revelation sub-protocol "
                                  "directly instead of through finish(): the completeness refusal is bypassed" % p,
                                  facts.loc(p, x))
    for tp in sorted(facts.types):
        if not tp.startswith("multiparty::") or tp == prp:
            continue
        t = facts.types[tp]
        rfields = [f["name"] for v in t["variants"] for f in v["fields"] if prp_short in f["ty"]]
        if not rfields:
            continue
        methods = [p for p in facts.items if facts.items[p].get("impl_self", "").split("<")[0] == tp and
                   facts.items[p]["name"].startswith("finish")]
        for m in sorted(methods):
            n += 1
            rep.fn(m)
            body = facts.inlined(m)          # a `finish_round`-style helper is read in place
            d = Defs(body)
            finished = set()
            from facts import Tree
            tree = Tree(body)
            for nd in walk(body):
                if nd.get("k") == "MCall" and nd.get("name") in ("finish", "finish_take"):
                    exprs = [nd["recv"]]
                    cl = tree.enclosing(nd, ("Closure", "For"))
                    while cl is not None:
                        if cl.get("k") == "For":
                            exprs.append(cl["iter"])
                        else:
                            par = tree.up(cl)
                            if par is not None and par.get("k") == "MCall":
                                exprs.append(par["recv"])
                        cl = tree.enclosing(cl, ("Closure", "For"))
                    for e in exprs:
                        for y in d.closure(e):
                            if y.get("k") == "Field" and y.get("name") in rfields:
                                finished.add(y["name"])
            missing = set(rfields) - finished
            if missing:
                rep.violation(R, m, "%s never finishes its revelation sub-protocol(s) {%s}: their summed result cannot have "
                              "passed the completeness refusal" % (m, ", ".join(sorted(missing))), facts.loc(m))
            else:
                rep.ok(R, m, "obtains the result of {%s} only through finish()/finish_take()" % ", ".join(rfields), facts.loc(m))
    return n


def run_commute(facts, rep):
    R = "R-COMMUTE"
    rep.rule(R, "certificate: receive writes only broadcasted[sender_id]; finish combines slots with commutative add")
    n = 0
    for p in sorted(facts.items):
        it = facts.items[p]
        if not p.startswith("multiparty::") or it["name"] != "receive" or "PolynomialRevelationProtocol" not in it.get("impl_self", ""):
            continue
        n += 1
        rep.fn(p)
        body = facts.hir[p]
        writes = [x for x in walk(body) if x.get("k") in ("Assign", "AssignOp")]
        pushes = [x for x in walk(body) if x.get("k") == "MCall" and x.get("name") in ("push", "insert", "extend", "append")]
        ok = len(writes) == 1 and not pushes
        if ok:
            w = writes[0]
            lhs = w["lhs"]
            ok = lhs.get("k") == "Index" and any(y.get("k") == "Field" and y.get("name") == "broadcasted" for y in walk(lhs["e"])) \
                and (local_of(lhs["i"]) or (None, ""))[1] == "sender_id" and w["k"] == "Assign"
        if ok:
            rep.ok(R, p, "receive stores the message in broadcasted[sender_id] only: the state after all deliveries is "
                   "independent of their order", facts.loc(p), sample={"handler": p})
        else:
            rep.unresolved(R, p, "receive is not a pure slot store: order independence is not certified", facts.loc(p))
    return n
