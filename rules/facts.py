"""Fact loading for the Heathcliff static checks.

Facts are produced by the hcx driver (see /verif/hcx) from the *current working tree* of the
repository.  A cache keyed by a hash of every build-relevant file avoids re-extraction when the
tree did not change; the key is recomputed on every invocation.
"""
import fcntl
import hashlib
import json
import os
import shutil
import subprocess
import sys
import time

VERIF = os.path.dirname(os.path.dirname(os.path.abspath(__file__)))
REPO = os.environ.get("HCHECK_REPO", "/repo")
CACHE = os.path.join(VERIF, ".cache")
HCX = os.path.join(VERIF, "hcx", "target", "release", "hcx")


def _build_files(repo):
    out = []
    for top in ("Cargo.toml", "Cargo.lock", "build.rs"):
        p = os.path.join(repo, top)
        if os.path.isfile(p):
            out.append(p)
    for root, dirs, files in os.walk(os.path.join(repo, "src")):
        dirs.sort()
        for f in sorted(files):
            out.append(os.path.join(root, f))
    return out


def tree_hash(repo=REPO):
    h = hashlib.sha256()
    for p in _build_files(repo):
        h.update(os.path.relpath(p, repo).encode())
        h.update(b"\0")
        with open(p, "rb") as fh:
            h.update(fh.read())
        h.update(b"\0")
    # the extractor itself is part of the key
    if os.path.isfile(HCX):
        st = os.stat(HCX)
        h.update(("hcx:%d:%d" % (st.st_size, int(st.st_mtime))).encode())
    return h.hexdigest()[:24]


def _sysroot():
    return subprocess.check_output(["rustc", "+nightly", "--print", "sysroot"], text=True).strip()


def ensure_hcx():
    if os.path.isfile(HCX):
        return
    env = dict(os.environ, CARGO_NET_OFFLINE="true")
    subprocess.check_call(["cargo", "+nightly", "build", "--release", "--offline"],
                          cwd=os.path.join(VERIF, "hcx"), env=env,
                          stdout=subprocess.DEVNULL, stderr=subprocess.DEVNULL)


def extract(repo, outdir, crates="heathcliff", manifest=None):
    """Run the extractor over `repo` (lib target) and write facts to outdir. Fail closed."""
    ensure_hcx()
    os.makedirs(CACHE, exist_ok=True)
    tgt = os.path.join(CACHE, "tgt")
    slot = os.environ.get("HCHECK_SLOT")
    if slot:
        # parallel runs (bin/mutants, bin/refcheck): one target directory per worker, hard-linked from the shared one
        st = os.path.join(CACHE, "tgt-" + slot)
        if not os.path.isdir(st) and os.path.isdir(tgt):
            subprocess.run(["cp", "-al", tgt, st], check=False)
        tgt = st
    env = dict(os.environ)
    env.update({
        "LD_LIBRARY_PATH": os.path.join(_sysroot(), "lib"),
        "RUSTFLAGS": "-Zmir-opt-level=0 -Awarnings",
        "CARGO_NET_OFFLINE": "true",
        "RUSTC_WORKSPACE_WRAPPER": HCX,
        "HCX_OUT": outdir,
        "HCX_CRATES": crates,
        "CARGO_TARGET_DIR": tgt,
    })
    env.pop("RUSTC_WRAPPER", None)
    # cargo's freshness cache would skip the wrapper: drop the member fingerprints
    fp = os.path.join(tgt, "debug", ".fingerprint")
    if os.path.isdir(fp):
        for d in os.listdir(fp):
            if any(d.startswith(c + "-") for c in crates.split(",")):
                shutil.rmtree(os.path.join(fp, d), ignore_errors=True)
    if os.path.isdir(outdir):
        shutil.rmtree(outdir)
    manifest = manifest or os.path.join(repo, "Cargo.toml")
    p = subprocess.run(["cargo", "+nightly", "check", "--offline", "--lib", "--manifest-path", manifest],
                       env=env, stdout=subprocess.PIPE, stderr=subprocess.STDOUT, text=True)
    if p.returncode != 0 or not os.path.isfile(os.path.join(outdir, "DONE")):
        sys.stderr.write(p.stdout[-4000:])
        raise RuntimeError("fact extraction failed for %s (exit %s): the tree does not build or the "
                           "extractor did not run" % (repo, p.returncode))


def facts_dir(repo=REPO):
    """Return a directory holding facts for the current state of `repo`."""
    os.makedirs(CACHE, exist_ok=True)
    slot = os.environ.get("HCHECK_SLOT", "")
    with open(os.path.join(CACHE, "lock" + ("-" + slot if slot else "")), "w") as lk:
        fcntl.flock(lk, fcntl.LOCK_EX)
        key = tree_hash(repo)
        d = os.path.join(CACHE, "facts-" + key)
        if os.environ.get("HCHECK_NOCACHE") == "1" and os.path.isdir(d):
            shutil.rmtree(d)
        if not os.path.isfile(os.path.join(d, "DONE")):
            extract(repo, d)
        os.utime(d, None)
        # keep at most 4 cache entries (more while parallel scratch runs are in flight)
        keep = int(os.environ.get("HCHECK_CACHE_KEEP", "4"))
        def _mtime(e):
            try:
                return os.path.getmtime(os.path.join(CACHE, e))
            except OSError:             # evicted by a concurrent run between listdir and stat
                return 0.0
        ents = sorted((e for e in os.listdir(CACHE) if e.startswith("facts-")), key=_mtime)
        ents = [e for e in ents if e != "facts-" + key] + ["facts-" + key]      # never evict the entry just produced
        for e in ents[:-keep]:
            shutil.rmtree(os.path.join(CACHE, e), ignore_errors=True)
        return d


class Facts:
    def __init__(self, d, repo=REPO):
        self.dir = d
        self.repo = repo
        with open(os.path.join(d, "items.json")) as fh:
            meta = json.load(fh)
        with open(os.path.join(d, "strs.json")) as fh:
            self.strs = json.load(fh)
        self.krate = meta["crate"]
        self.items = {i["path"]: i for i in meta["items"]}
        self.types = {t["path"]: t for t in meta["types"]}
        self.consts = {c["path"]: c for c in meta["consts"]}
        self.impls = meta["impls"]
        self._hir = None
        self._mir = None
        self._cg = None

    @property
    def hir(self):
        if self._hir is None:
            with open(os.path.join(self.dir, "hir.json")) as fh:
                self._hir = json.load(fh)
        return self._hir

    # ------------------------------------------------------------------ helper inlining (opt-in view)
    def inlinable(self, caller, d):
        """a private, non-trait, same-file helper of the crate: the kind of function an extract-method refactor creates"""
        it, ci = self.items.get(d), self.items.get(caller)
        if it is None or ci is None or d not in self.hir or d == caller:
            return False
        if it.get("impl_trait") or it.get("vis") == "pub" or it.get("file") != ci.get("file"):
            return False
        return True

    def callers_of(self, d):
        cc = self.__dict__.get("_callers")
        if cc is None:
            cc = {}
            for p_, es in self.callgraph().items():
                if self.items.get(p_, {}).get("kind") == "test" or "::tests::" in p_:
                    continue
                for t, _ in es:
                    cc.setdefault(t, set()).add(p_)
            self.__dict__["_callers"] = cc
        return cc.get(d, set())

    def extracted_helper(self, d):
        """private helper with a single calling function (what an extract-method refactor leaves behind)"""
        return len(self.callers_of(d)) == 1

    def inlined(self, fpath, depth=2, pred=None):
        """The body of fpath with calls to private same-file helpers replaced by `Inl` nodes
             {"k": "Inl", "callee": path, "stmts": [Let param = arg ...], "body": <helper body>, "t": .., "l": .., "orig": call}
        (locals and node ids of the helper renumbered so they cannot clash with the caller's).  Rules that have no callee
        summaries of their own analyse this view so that an extract-method refactor does not hide code from them."""
        # predicates are keyed by function + owner object, never by the id of a transient bound-method / lambda object
        fn = getattr(pred, "__func__", pred)
        owner = getattr(pred, "__self__", None)
        key = (fpath, depth, None if pred is None else (getattr(fn, "__module__", ""), getattr(fn, "__qualname__", repr(fn)),
                                                        id(owner) if owner is not None and owner is not self else 0))
        if pred is not None and "<lambda>" in key[2][1]:
            key = None
        cache = self.__dict__.setdefault("_inl_cache", {})
        if key is None:            # anonymous predicate: not cacheable
            self._inl_counter = self.__dict__.get("_inl_counter", 0)
            return self._inline(self.hir[fpath], fpath, depth, (fpath,), pred)
        if key not in cache:
            self._inl_counter = self.__dict__.get("_inl_counter", 0)
            cache[key] = self._inline(self.hir[fpath], fpath, depth, (fpath,), pred)
        return cache[key]

    def _inline(self, n, owner, depth, stack, pred):
        if isinstance(n, list):
            return [self._inline(x, owner, depth, stack, pred) for x in n]
        if not isinstance(n, dict):
            return n
        out = {k: (self._inline(v, owner, depth, stack, pred) if isinstance(v, (dict, list)) and k != "f" else v)
               for k, v in n.items()}
        if n.get("k") in ("Call", "MCall") and depth > 0:
            f = n.get("f")
            if isinstance(f, dict) and f.get("local"):
                d = f.get("inst") if f.get("inst") in self.hir else f.get("def")
                if d not in stack and self.inlinable(owner, d) and (pred is None or pred(d)):
                    it = self.items[d]
                    args = ([out["recv"]] if n["k"] == "MCall" else []) + out.get("args", [])
                    if len(args) == len(it["params"]):
                        self._inl_counter = self.__dict__.get("_inl_counter", 0) + 1
                        base = self._inl_counter * 1000000
                        hb = _renumber(self._inline(self.hir[d], d, depth - 1, stack + (d,), pred), base)
                        lets = []
                        for prm, a in zip(it["params"], args):
                            lets.append({"k": "Let", "l": n.get("l"), "pat": _renumber(prm["pat"], base), "init": a})
                        return {"k": "Inl", "t": n.get("t"), "l": n.get("l"), "c": n.get("c"), "id": n.get("id"),
                                "callee": d, "name": it["name"], "stmts": lets, "body": hb, "orig": n}
        return out

    @property
    def mir(self):
        if self._mir is None:
            with open(os.path.join(self.dir, "mir.json")) as fh:
                self._mir = json.load(fh)
        return self._mir

    # ---------------------------------------------------------------- helpers
    def ty(self, node):
        t = node.get("t")
        return self.strs[t] if t is not None else ""

    def ty_adj(self, node):
        t = node.get("ta", node.get("t"))
        return self.strs[t] if t is not None else ""

    def loc(self, path, node=None):
        it = self.items.get(path)
        f = it["file"] if it else "?"
        l = (node or {}).get("l") or (it["l"] if it else 0)
        return "%s:%s" % (f, l)

    def fns_in_file(self, file):
        return [p for p, i in self.items.items() if i["file"] == file]

    def methods_of(self, self_ty, pub_only=False, inherent_only=True):
        out = []
        for p, i in self.items.items():
            if i.get("impl_self") == self_ty:
                if inherent_only and "impl_trait" in i:
                    continue
                if pub_only and i["vis"] != "pub":
                    continue
                out.append(p)
        return out

    def impl_methods(self, trait, name=None):
        """All local implementations of methods of `trait` (optionally only method `name`)."""
        out = []
        for im in self.impls:
            if im.get("trait") == trait:
                for m in im["methods"]:
                    if name is None or m.endswith("::" + name):
                        out.append(m)
        return out

    def callgraph(self):
        """path -> list of (callee_key, call_node).  Trait-method calls that cannot be resolved to
        one impl get edges to every local impl of that method (conservative)."""
        if self._cg is not None:
            return self._cg
        trait_impls = {}
        for im in self.impls:
            tr = im.get("trait")
            if tr:
                for m in im["methods"]:
                    trait_impls.setdefault((tr, m.rsplit("::", 1)[1]), []).append(m)
        cg = {}
        for p, body in self.hir.items():
            edges = []
            for n in walk(body):
                f = callee(n)
                if f is None:
                    continue
                tgt = target_key(f)
                if tgt in self.items:
                    edges.append((tgt, n))
                elif f.get("trait") and f.get("local") and "inst" not in f:
                    for m in trait_impls.get((f["trait"], f["name"]), []):
                        edges.append((m, n))
                elif f.get("trait") and "inst" not in f:
                    # foreign trait implemented locally (e.g. RngCore, Clone): add local impls
                    for m in trait_impls.get((f["trait"], f["name"]), []):
                        if f.get("self") is None or _self_matches(f, m):
                            edges.append((m, n))
            cg[p] = edges
        self._cg = cg
        return cg

    def reachable(self, roots, stop=None):
        cg = self.callgraph()
        seen = set()
        work = [r for r in roots if r in cg]
        while work:
            p = work.pop()
            if p in seen:
                continue
            seen.add(p)
            if stop and stop(p):
                continue
            for t, _ in cg.get(p, []):
                if t not in seen:
                    work.append(t)
        return seen


def _self_matches(f, m):
    s = f.get("self") or ""
    # generic receiver (type parameter): any impl may be the target
    if "::" not in s and s[:1].isupper() and len(s) <= 2:
        return True
    return ("<%s as " % s) in m


def load(repo=None):
    repo = repo or REPO
    return Facts(facts_dir(repo), repo)


# -------------------------------------------------------------------- tree utilities
CHILD_KEYS = ("stmts", "expr", "e", "args", "recv", "a", "b", "c", "th", "el", "arms", "body", "init",
              "els", "lhs", "rhs", "i", "es", "fields", "base", "iter", "fe", "guard", "pat", "params", "sub", "ps")


def _renumber(n, base):
    if isinstance(n, list):
        return [_renumber(x, base) for x in n]
    if not isinstance(n, dict):
        return n
    out = {}
    for k, v in n.items():
        if k in ("lid", "id", "target", "loop_id") and isinstance(v, int):
            out[k] = v + base
        elif isinstance(v, (dict, list)) and k != "f":
            out[k] = _renumber(v, base)
        else:
            out[k] = v
    return out


def children(n):
    if isinstance(n, dict):
        for k in CHILD_KEYS:
            v = n.get(k)
            if isinstance(v, dict):
                yield v
            elif isinstance(v, list):
                for x in v:
                    if isinstance(x, dict):
                        yield x
    elif isinstance(n, list):
        for x in n:
            if isinstance(x, dict):
                yield x


def walk(n, into_closures=True):
    """Pre-order walk over all expression/statement/pattern nodes."""
    stack = [n]
    while stack:
        x = stack.pop()
        if not isinstance(x, dict):
            continue
        yield x
        if not into_closures and x.get("k") == "Closure":
            continue
        ch = list(children(x))
        ch.reverse()
        stack.extend(ch)


def callee(n):
    """Callee descriptor of a Call/MCall node (or of a Path to a fn), else None."""
    if n.get("k") in ("Call", "MCall"):
        return n.get("f")
    return None


def target_key(f):
    return f.get("inst") or f["def"]


def is_call_to(n, *names):
    f = callee(n)
    return f is not None and (f["def"] in names or f.get("inst") in names)


def call_args(n):
    """All value arguments of a call including the receiver (first)."""
    if n.get("k") == "MCall":
        return [n["recv"]] + n["args"]
    return n.get("args", [])


def strip(n):
    """Strip reference / dereference / parenthesis-like wrappers."""
    while isinstance(n, dict):
        k = n.get("k")
        if k == "Ref":
            n = n["e"]
        elif k == "Un" and n.get("op") == "*":
            n = n["e"]
        elif k == "Block" and not n.get("stmts") and n.get("expr"):
            n = n["expr"]
        else:
            break
    return n


def local_of(n):
    """If n (after stripping refs) is a path to a local, return (lid, name)."""
    n = strip(n)
    if isinstance(n, dict) and n.get("k") == "Path" and n.get("res") == "local":
        return (n["lid"], n["name"])
    return None


def root_local(n):
    """Root local of a place-like expression: x, x.f, x[i], *x, x.m() for accessor chains."""
    while isinstance(n, dict):
        k = n.get("k")
        if k in ("Ref", "Field", "Index", "Cast"):
            n = n["e"]
        elif k == "Un":
            n = n["e"]
        elif k == "MCall":
            n = n["recv"]
        elif k == "Path":
            return (n["lid"], n["name"]) if n.get("res") == "local" else None
        else:
            return None
    return None


def pat_bindings(p):
    out = []
    for x in walk(p):
        if x.get("k") == "PBind":
            out.append((x["lid"], x["name"]))
    return out


def src_line(repo, file, line):
    try:
        with open(os.path.join(repo, file)) as fh:
            for i, s in enumerate(fh, 1):
                if i == line:
                    return s.rstrip("\n")
    except OSError:
        pass
    return ""


class Tree:
    """Parent map and position helpers over one function body."""

    def __init__(self, root):
        self.root = root
        self.parent = {}
        self.slot = {}
        stack = [root]
        while stack:
            x = stack.pop()
            for k in CHILD_KEYS:
                v = x.get(k)
                if isinstance(v, dict):
                    self.parent[id(v)] = x
                    self.slot[id(v)] = k
                    stack.append(v)
                elif isinstance(v, list):
                    for y in v:
                        if isinstance(y, dict):
                            self.parent[id(y)] = x
                            self.slot[id(y)] = k
                            stack.append(y)

    def up(self, n):
        return self.parent.get(id(n))

    def slot_of(self, n):
        return self.slot.get(id(n))

    def ancestors(self, n):
        p = self.up(n)
        while p is not None:
            yield p
            p = self.up(p)

    def enclosing(self, n, kinds):
        for a in self.ancestors(n):
            if a.get("k") in kinds:
                return a
        return None

    def uses_of(self, lid):
        return [x for x in walk(self.root) if x.get("k") == "Path" and x.get("res") == "local" and x.get("lid") == lid]


class Defs:
    """Local definitions of one body: lid -> list of defining expressions (let initialisers, assignments,
    for-loop iterables, match scrutinees for pattern bindings)."""

    def __init__(self, body, facts=None):
        """With `facts`, a call that receives a local through `&mut` also defines it (from the call's other
        arguments), and element/field assignments define their root local (weak definitions)."""
        self.defs = {}
        for x in walk(body):
            k = x.get("k")
            if facts is not None and k in ("Call", "MCall"):
                args = ([x["recv"]] if k == "MCall" else []) + x.get("args", [])
                for a in args:
                    if facts.ty_adj(a).startswith("&mut ") or facts.ty(a).startswith("&mut "):
                        rl = root_local(a)
                        if rl:
                            self.defs.setdefault(rl[0], []).extend(b for b in args if b is not a)
            if facts is not None and k in ("Assign", "AssignOp"):
                rl = root_local(x["lhs"])
                if rl and local_of(x["lhs"]) is None:
                    self.defs.setdefault(rl[0], []).append(x["rhs"])
                    if x["lhs"].get("k") == "Index":
                        self.defs.setdefault(rl[0], []).append(x["lhs"]["i"])
            if k == "Let" and "init" in x:
                for lid, _ in pat_bindings(x["pat"]):
                    self.defs.setdefault(lid, []).append(x["init"])
            elif k == "LetE":
                for lid, _ in pat_bindings(x["pat"]):
                    self.defs.setdefault(lid, []).append(x["init"])
            elif k == "For":
                for lid, _ in pat_bindings(x["pat"]):
                    self.defs.setdefault(lid, []).append(x["iter"])
            elif k == "Match":
                for arm in x["arms"]:
                    for lid, _ in pat_bindings(arm["pat"]):
                        self.defs.setdefault(lid, []).append(x["e"])
            elif k == "Assign":
                rl = local_of(x["lhs"])
                if rl:
                    self.defs.setdefault(rl[0], []).append(x["rhs"])
            elif k == "AssignOp":
                rl = local_of(x["lhs"])
                if rl:
                    self.defs.setdefault(rl[0], []).append(x["rhs"])

    def closure(self, node, limit=400):
        """All nodes in `node` and, transitively, in the definitions of the locals it mentions."""
        seen_l = set()
        out = []
        work = [node]
        while work and len(out) < limit * 50:
            n = work.pop()
            for x in walk(n):
                out.append(x)
                if x.get("k") == "Path" and x.get("res") == "local" and x["lid"] not in seen_l:
                    seen_l.add(x["lid"])
                    work.extend(self.defs.get(x["lid"], []))
        return out

    def param_names(self, node, item):
        """Names of the function's parameters that `node` (transitively through local definitions) mentions."""
        plids = {}
        for p in item["params"]:
            if p["pat"].get("k") == "PBind":
                plids[p["pat"]["lid"]] = p["pat"]["name"]
        out = set()
        for x in self.closure(node):
            if x.get("k") == "Path" and x.get("res") == "local" and x["lid"] in plids:
                out.add(plids[x["lid"]])
        return out

    def derives_from_call(self, node, name):
        for x in self.closure(node):
            f = callee(x)
            if f is not None and f.get("name") == name:
                return True
        return False
