"""R-DEPEND — operand relevance of the word-level arithmetic primitives (property C08).

Forward dependency analysis (data + control, structured HIR) of every public function of
util::basic, util::uintsmallmod, util::number_theory:

 (A) at every normal return, each output (contents of an out-parameter or in/out parameter, and the
     returned value) that is not a compile-time constant depends — by data, or by the conditions under
     which it was stored — on the CONTENTS of every value operand.  If an output on some path is
     independent of an operand while the path condition does not fix that operand's value, the function
     cannot equal the binary operation it names.                                                 [N]
 (B) the contents of an in/out operand are not killed (zero-filled) before they are read: the original
     contents must still reach the output.  (Falls out of (A): a strong kill removes the dependency.) [N]
 (C) no out-parameter is read before it is written on some path (its initial contents are the caller's
     garbage).                                                                                     [N]

Value operands: all by-value integers and input slices except `&Modulus` parameters, slices named
`modulus` (a reduction may legitimately be skipped), pure counts (`*_count`, `len`, `count`), and
out-parameters (`result*`, `quotient`, `remainder`, `destination`, `hw64`, `result128`, ...).
`len()`/`is_empty()` reads are metadata and carry no content dependency.  Constant outputs (zero-fill,
literals) are exempt: their path condition fixes the operand.  Callees are modelled as: every `&mut`
argument afterwards depends on all arguments (weak update), except the strong kills `set_zero_uint`,
`fill`, `set_uint`(dst := src).  Loops are assumed to run at least once when asking whether an
out-parameter was written.
"""
from facts import walk, callee, root_local, strip, local_of
from flow import Flow

OUT_NAMES = ("result", "quotient", "remainder", "destination", "hw64", "result128", "res", "out", "output")
NONVALUE_NAMES = ("modulus", "len", "count", "u64_count", "uint64_count", "coeff_count")
META = {"len", "is_empty", "capacity"}
STRONG_KILL = {"set_zero_uint", "fill"}
SCOPE_MODULES = ("util::basic", "util::uintsmallmod", "util::number_theory")


def classify_params(it):
    vals, outs, inouts, other = [], [], [], []
    for p in it["params"]:
        pat = p["pat"]
        if pat.get("k") != "PBind":
            continue
        name, ty, lid = pat["name"], p.get("ty", ""), pat["lid"]
        if name == "self":
            other.append((lid, name))
            continue
        if ty.startswith("&mut "):
            if name.startswith(OUT_NAMES) or name in OUT_NAMES:
                outs.append((lid, name))
            else:
                inouts.append((lid, name))
                vals.append((lid, name))
            continue
        if "Modulus" in ty or name in NONVALUE_NAMES or name.endswith("_count") or name.startswith("modulus"):
            other.append((lid, name))
            continue
        if any(ty.lstrip("&").startswith(x) for x in ("u64", "u128", "usize", "i64", "u8", "u32", "[u64", "f64", "i128",
                                                      "std::vec::Vec<u64")):
            vals.append((lid, name))
        else:
            other.append((lid, name))
    return vals, outs, inouts, other


E = frozenset()


def analyse(facts, fpath, all_params=False, interest=None, body=None):
    """interest: optional {id(node): expr-getter}; the (data|ctrl) dependency set of the expression at the moment
    the node is reached is recorded in the returned Flow object's `.seen` dict (joined over visits)."""
    it = facts.items[fpath]
    body = body if body is not None else facts.hir[fpath]
    vals, outs, inouts, other = classify_params(it)
    if all_params:
        vals = [(l, n) for l, n in vals + other + outs if n != "self"]
        vals = list(dict.fromkeys(vals))
        outs, other = [], []
    out_lids = {l for l, _ in outs}
    findings = []
    d0 = {}
    for l, n in vals:
        d0[l] = (frozenset([n]), E)
    for l, n in outs + other:
        d0[l] = (E, E)
    w0 = {l: "no" for l in out_lids}
    inout_lids = {l for l, _ in inouts}
    for l in inout_lids:
        w0[("mod", l)] = "no"        # has the in/out operand been modified on this path?
    init = {"d": d0, "w": w0, "c": E}

    # mutable views: a `&mut` binding obtained from `X.iter_mut()` / `chunks_mut` / `split_at_mut` / `&mut X[..]` writes X
    MUTVIEW = ("iter_mut", "chunks_mut", "chunks_exact_mut", "split_at_mut", "as_mut_slice", "as_mut", "last_mut",
               "first_mut", "get_mut", "split_first_mut", "split_last_mut")
    alias = {}

    def view_roots(e):
        out = set()
        for x in walk(e):
            if x.get("k") == "MCall" and x.get("name") in MUTVIEW:
                rl = root_local(x["recv"])
                if rl:
                    out.add(rl[0])
            if x.get("k") == "Ref" and x.get("mut"):
                rl = root_local(x["e"])
                if rl:
                    out.add(rl[0])
        return out

    for x in walk(body):
        src = None
        if x.get("k") == "For":
            src = x["iter"]
        elif x.get("k") == "Let" and "init" in x:
            src = x["init"]
        if src is None:
            continue
        binds = [q for q in walk(x["pat"]) if q.get("k") == "PBind" and facts.ty(q).startswith("&mut")]
        if not binds:
            continue
        roots = view_roots(src)
        # a view of a view: `for (x, y) in left.iter_mut().zip(right.iter_mut())` with left/right themselves views
        for q in binds:
            alias.setdefault(q["lid"], set()).update(roots)
    changed = True
    while changed:
        changed = False
        for l, ts in alias.items():
            for t in list(ts):
                for u in alias.get(t, ()):
                    if u not in ts and u != l:
                        ts.add(u)
                        changed = True

    def join(a, b):
        d = {}
        for l in set(a["d"]) | set(b["d"]):
            x, y = a["d"].get(l, (E, E)), b["d"].get(l, (E, E))
            d[l] = (x[0] | y[0], x[1] | y[1])
        w = {}
        for l in set(a["w"]) | set(b["w"]):
            x, y = a["w"].get(l, "no"), b["w"].get(l, "no")
            w[l] = x if x == y else "maybe"
        return {"d": d, "w": w, "c": a["c"] | b["c"]}

    def deps(e, st, reads=None):
        """(data, ctrl) dependencies of expression e; records reads of out-params in `reads`."""
        data, ctrl = set(), set()
        stack = [e]
        while stack:
            x = stack.pop()
            if not isinstance(x, dict):
                continue
            k = x.get("k")
            if k == "MCall" and x.get("name") in META:
                continue
            if k == "Path" and x.get("res") == "local":
                dd = st["d"].get(x["lid"])
                if dd:
                    data |= dd[0]
                    ctrl |= dd[1]
                if reads is not None and x["lid"] in out_lids:
                    reads.append(x)
                continue
            if k == "Closure":
                stack.append(x["body"])
                continue
            for key in ("e", "a", "b", "recv", "args", "es", "i", "init", "c", "th", "el", "expr", "stmts", "fields",
                        "arms", "body", "lhs", "rhs", "iter"):
                v = x.get(key)
                if isinstance(v, dict):
                    stack.append(v)
                elif isinstance(v, list):
                    stack.extend(v)
        return frozenset(data), frozenset(ctrl)

    def check_reads(reads, st, node):
        for r in reads:
            if st["w"].get(r["lid"], "yes") != "yes":
                findings.append(("C", r["name"], node, st["w"].get(r["lid"])))

    def setd(st, lid, data, ctrl, weak=False):
        d = dict(st["d"])
        if weak and lid in d:
            d[lid] = (d[lid][0] | data, d[lid][1] | ctrl)
        else:
            d[lid] = (data, ctrl)
        return {"d": d, "w": st["w"], "c": st["c"]}

    def setw(st, lid):
        if lid in inout_lids and st["w"].get(("mod", lid)) != "yes":
            w = dict(st["w"])
            w[("mod", lid)] = "yes"
            return {"d": st["d"], "w": w, "c": st["c"]}
        if lid in out_lids and st["w"].get(lid) != "yes":
            w = dict(st["w"])
            w[lid] = "yes"
            return {"d": st["d"], "w": w, "c": st["c"]}
        return st

    def transfer(n, st):
        k = n.get("k")
        if k == "Let":
            if "init" in n:
                reads = []
                dd, cc = deps(n["init"], st, reads)
                check_reads(reads, st, n)
                for x in walk(n["pat"]):
                    if x.get("k") == "PBind":
                        st = setd(st, x["lid"], dd, cc | st["c"])
            return st
        if k == "ForBind":
            dd, cc = deps(n["iter"], st)
            for x in walk(n["pat"]):
                if x.get("k") == "PBind":
                    st = setd(st, x["lid"], dd, cc | st["c"])
            return st
        if k == "ArmPat":
            dd, cc = deps(n["scrut"], st)
            for x in walk(n["pat"]):
                if x.get("k") == "PBind":
                    st = setd(st, x["lid"], dd, cc | st["c"])
            return st
        if k in ("Assign", "AssignOp"):
            rl = root_local(n["lhs"])
            reads = []
            dd, cc = deps(n["rhs"], st, reads)
            lhs = n["lhs"]
            # index expressions of the target contribute (which cell is written is data too)
            if lhs.get("k") == "Index":
                di, ci = deps(lhs["i"], st, reads)
                dd, cc = dd | di, cc | ci
            if k == "AssignOp" and rl:
                r2 = []
                d2, c2 = deps(lhs, st, r2)
                reads += r2
                dd, cc = dd | d2, cc | c2
            check_reads(reads, st, n)
            if rl:
                whole = strip(lhs).get("k") == "Path"
                st = setd(st, rl[0], dd, cc | st["c"], weak=not whole)
                st = setw(st, rl[0])
                for t in alias.get(rl[0], ()):
                    st = setd(st, t, dd, cc | st["c"], weak=True)
                    st = setw(st, t)
            return st
        if k in ("Call", "MCall"):
            f = callee(n)
            name = f["name"] if f else n.get("name", "")
            args = ([n["recv"]] if k == "MCall" else []) + n["args"]
            if name in META:
                return st
            muts = []
            reads = []
            alld, allc = set(), set()
            for a in args:
                ta = facts.ty_adj(a)
                is_mut = ta.startswith("&mut ") or facts.ty(a).startswith("&mut ")
                rl = root_local(a)
                if is_mut and rl:
                    muts.append((rl[0], a))
                    # index sub-expressions are reads
                    dd, cc = deps(a, st, None)
                else:
                    dd, cc = deps(a, st, reads)
                alld |= dd
                allc |= cc
            check_reads(reads, st, n)
            for lid, a in muts:
                if name in STRONG_KILL:
                    st = setd(st, lid, E, st["c"], weak=(strip_index(a) is not None))
                elif name == "set_uint" or name == "copy_from_slice" or name == "clone_from_slice":
                    others = set()
                    oc = set()
                    for b in args:
                        if b is not a:
                            dd, cc = deps(b, st)
                            others |= dd
                            oc |= cc
                    st = setd(st, lid, frozenset(others), frozenset(oc) | st["c"], weak=(strip_index(a) is not None))
                else:
                    st = setd(st, lid, frozenset(alld), frozenset(allc) | st["c"], weak=True)
                st = setw(st, lid)
                for t in alias.get(lid, ()):
                    st = setd(st, t, frozenset(alld), frozenset(allc) | st["c"], weak=True)
                    st = setw(st, t)
            return st
        if k == "Path" and n.get("res") == "local" and n["lid"] in out_lids:
            # bare read of an out-parameter in expression position is checked where it is consumed
            return st
        return st

    def strip_index(a):
        a = strip(a)
        while isinstance(a, dict) and a.get("k") == "MCall" and a.get("name") in ("as_mut_slice", "as_mut", "iter_mut"):
            a = strip(a["recv"])
        return a if isinstance(a, dict) and a.get("k") == "Index" else None

    def guard(n, st, sense, kind):
        if kind in ("if", "while"):
            reads = []
            dd, cc = deps(n["c"], st, reads)
            if kind == "if":
                check_reads(reads, st, n)
            return {"d": st["d"], "w": st["w"], "c": st["c"] | dd | cc}
        if kind == "match":
            dd, cc = deps(n["e"], st)
            return {"d": st["d"], "w": st["w"], "c": st["c"] | dd | cc}
        return st

    def exit_hook(n, before, after):
        return {"d": after["d"], "w": after["w"], "c": before["c"]}

    fl = Flow(facts, join, transfer, guard=guard, closure_mode="maybe", loops_at_least_once=True)
    fl.exit_hook = exit_hook
    fl.seen = {}
    if interest:
        def visit(n, st):
            g = interest.get(id(n))
            if g is not None:
                dd, cc = deps(g(n), st)
                fl.seen[id(n)] = fl.seen.get(id(n), frozenset()) | dd | cc
        fl.visit_hook = visit
    fl.run(body, init)
    V = {n for _, n in vals}
    results = []
    ret_ty = it.get("ret", "()")
    for st, node in fl.rets:
        # outputs: out params, in/out params, return value
        outputs = []
        for l, nme in outs + inouts:
            if l in inout_lids and st["w"].get(("mod", l), "no") == "no":
                continue      # identity path: the in/out operand was not touched, nothing was computed
            dd = st["d"].get(l, (E, E))
            outputs.append((nme, dd[0], dd[1]))
        if ret_ty not in ("()", "!"):
            val = node.get("e") if node.get("k") == "Ret" else (node.get("expr") if node.get("k") == "Block" else node)
            if val is not None:
                dd, cc = deps(val, st)
                outputs.append(("<return>", dd, cc | st["c"]))
        for oname, data, ctrl in outputs:
            if not data:
                continue      # constant output: exempt
            missing = V - set(data) - set(ctrl) - set(st["c"])
            # an in/out operand trivially "depends" on itself only if its original contents survive
            if missing:
                results.append((oname, sorted(missing), node))
    return vals, outs, inouts, findings, results, fl


def run(facts, rep, modules=SCOPE_MODULES):
    rep.rule("R-DEPEND(A)", "every non-constant output of a primitive depends (data or control) on the contents of "
             "every value operand at every normal return")
    rep.rule("R-DEPEND(C)", "no out-parameter is read before it is written on some path")
    n = 0
    for p in sorted(facts.items):
        it = facts.items[p]
        if it.get("module") not in modules or it["vis"] != "pub" or "impl_self" in it:
            continue
        if p not in facts.hir:
            continue
        vals, outs, inouts, findings, results, fl = analyse(facts, p)
        rep.fn(p)
        n += 1
        rep.stats["paths"] += len(fl.rets)
        if not vals:
            rep.ok("R-DEPEND(A)", p, "no value operands", facts.loc(p), nontrivial=False)
            continue
        seen = set()
        for oname, missing, node in results:
            for m in missing:
                key = "%s/%s/%s" % (p, oname, m)
                if key in seen:
                    continue
                seen.add(key)
                rep.violation("R-DEPEND(A)", key,
                              "output `%s` of %s reaches a normal return (line %s) without depending on the contents of "
                              "operand `%s` — neither by data nor through the conditions it was stored under; the "
                              "function cannot be the operation it names for all inputs" %
                              (oname, p, node.get("l", "?"), m), facts.loc(p, node))
        if not results:
            rep.ok("R-DEPEND(A)", p, "outputs {%s} depend on operands {%s} at all %d normal return(s)" %
                   (", ".join(n_ for _, n_ in outs + inouts) or "<return>", ", ".join(n_ for _, n_ in vals), len(fl.rets)),
                   facts.loc(p), sample={"function": p, "operands": [n_ for _, n_ in vals],
                                         "outputs": [n_ for _, n_ in outs + inouts], "returns": len(fl.rets)})
        seen = set()
        for kind, name, node, w in findings:
            key = "%s/%s" % (p, name)
            if key in seen:
                continue
            seen.add(key)
            rep.violation("R-DEPEND(C)", key,
                          "out-parameter `%s` of %s is read at line %s on a path where it has %s been written: the "
                          "result then contains the caller's garbage" %
                          (name, p, node.get("l", "?"), "not" if w == "no" else "not necessarily"), facts.loc(p, node))
        if outs and not findings:
            rep.ok("R-DEPEND(C)", p, "out-parameter(s) {%s} written before every read" % ", ".join(n_ for _, n_ in outs),
                   facts.loc(p))
    return n


def run_inplace_order(facts, rep, modules=SCOPE_MODULES):
    """R-DEPEND(order) [N]: an in-place loop `x[st(i)] = f(x[ld(i)], ..)` must not read a position an EARLIER iteration of
    the same loop has already overwritten.  With st(i) = c*i + a, ld(i) = c*i + b (c = +-1 after accounting for `.rev()`),
    iteration i+k loads what iteration i stored iff c*k = a - b for some k >= 1, i.e. iff the store runs ahead of the load in
    the direction of travel.  Shifting words upward must walk downward and vice versa; otherwise the first block is smeared
    over the rest (the multi-word shifts, and through them the quotient of divide_uint, are wrong for 3 or more words)."""
    from r_slotmod import Sym, padd, pmul, pconst, patom, pshow, atoms_of
    R = "R-DEPEND(order)"
    rep.rule(R, "no in-place word loop reads a position an earlier iteration of the same loop has overwritten")
    n = 0
    for p in sorted(facts.hir):
        it = facts.items.get(p)
        if not it or it.get("module") not in modules or it.get("kind") == "test":
            continue
        body = facts.hir[p]
        sym = None
        k_s = 0
        for L in walk(body):
            if L.get("k") != "For" or L["pat"].get("k") != "PBind":
                continue
            itx = strip(L["iter"])
            rev = 1
            while itx.get("k") == "MCall" and itx.get("name") in ("rev", "into_iter", "iter"):
                if itx["name"] == "rev":
                    rev = -rev
                itx = strip(itx["recv"])
            if not (itx.get("k") == "Struct" and "ops::Range" in itx.get("path", "")):
                continue
            sym = sym or Sym(facts, body)
            iv = "%s#%d" % (L["pat"]["name"], L["pat"]["lid"])
            if L["pat"]["lid"] not in sym.loopvars:
                sym.loopvars[L["pat"]["lid"]] = iv
            for st in walk(L["body"]):
                if st.get("k") not in ("Assign", "AssignOp") or strip(st["lhs"]).get("k") != "Index":
                    continue
                lhs = strip(st["lhs"])
                rl = root_local(lhs["e"])
                if not rl or strip(lhs["i"]).get("k") == "Struct":
                    continue
                ps = sym.poly(lhs["i"])
                if not isinstance(ps, dict) or iv not in atoms_of(ps):
                    continue
                cs = [c for m, c in ps.items() if m == (iv,)]
                if len(cs) != 1 or abs(cs[0]) != 1 or any(iv in m and m != (iv,) for m in ps):
                    continue
                c = cs[0] * rev
                loads = [y for y in walk(st["rhs"]) if y.get("k") == "Index" and (root_local(y["e"]) or (None,))[0] == rl[0]
                         and strip(y["i"]).get("k") != "Struct"]
                for y in loads:
                    pl = sym.poly(y["i"])
                    if not isinstance(pl, dict):
                        continue
                    cl = [cc for m, cc in pl.items() if m == (iv,)]
                    if len(cl) != 1 or cl[0] != cs[0]:
                        continue
                    n += 1
                    rep.fn(p)
                    delta = padd(ps, pl, -1)                 # store index - load index (free of i)
                    key = "%s/%s#%d" % (p, rl[1], k_s)
                    k_s += 1
                    ahead = pmul(delta, pconst(c))           # > 0: the store runs ahead of the load in the direction of travel
                    if not ahead:
                        rep.ok(R, key, "`%s` is read and written at the same index" % rl[1], facts.loc(p, st), nontrivial=False)
                    elif all(cc <= 0 for cc in ahead.values()):
                        rep.ok(R, key, "`%s[%s]` is written from `%s[%s]`, which no earlier iteration has written" %
                               (rl[1], pshow(ps), rl[1], pshow(pl)), facts.loc(p, st),
                               sample={"function": p, "store": pshow(ps), "load": pshow(pl)})
                    elif all(cc >= 0 for cc in ahead.values()):
                        rep.violation(R, key, "`%s[%s]` is written from `%s[%s]`, a position that an earlier iteration of the "
                                      "same loop has already overwritten (the store runs %s ahead of the load in the direction "
                                      "the loop travels): the leading block is smeared over the rest whenever the loop is "
                                      "longer than that distance" % (rl[1], pshow(ps), rl[1], pshow(pl), pshow(ahead)),
                                      facts.loc(p, st))
                    else:
                        rep.unresolved(R, key, "distance %s between store and load has no definite sign" % pshow(delta),
                                       facts.loc(p, st))
    return n
