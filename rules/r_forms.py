"""R-FORMS — agreement of the in-place / destination / returning forms of each evaluator operation (C06).

Families are the public methods of `Evaluator` sharing a stem (`X_inplace`, `X`, `X_new`).  The *core*
of a family is the member the others reach (or the private function all members reach).

Certificate [S]: a non-core member is *pure forwarding* — clones/constructs, assigns into the
destination, makes exactly one call that reaches the core, possibly guards, and returns.  Then the three
forms run one computation with zero post-processing: bit-identity holds by construction and read-only
operands are only ever passed on as `&T`.  Losing the certificate is not an alarm (`unresolved`).

Alarms [N]:
 (i)  in an order-sensitive family with same-typed operands (`sub`), a forwarding member hands its
      operands to the core in a different order than the core's own parameter names say: the forms
      compute a-b and b-a;
 (ii) a forwarding member applies a further data effect to the result after the core returned (a
      `&mut` call on the result, or a write to it): the forms differ by that effect.
"""
import re
from facts import walk, callee, target_key, root_local, strip, local_of

ORDER_SENSITIVE = {"sub": "a-b vs b-a"}
BENIGN_AFTER = {"clone", "len", "size", "parms_id"}


def families(facts, self_ty="evaluator::Evaluator"):
    fam = {}
    for p in facts.methods_of(self_ty, pub_only=True):
        n = facts.items[p]["name"]
        stem = re.sub(r"_(inplace|new)$", "", n)
        fam.setdefault(stem, {})[n] = p
    return {k: v for k, v in fam.items() if len(v) >= 2}


def _calls_in(facts, body):
    out = []
    for x in walk(body):
        f = callee(x)
        if f is not None and x.get("k") in ("Call", "MCall"):
            out.append((x, f))
    return out


def _ident_map(facts, it, body, upto_node):
    """Straight-line value identity: local lid -> parameter name it holds a copy of, up to (not incl.) the
    statement containing `upto_node`."""
    ids = {}
    for p in it["params"]:
        if p["pat"].get("k") == "PBind":
            ids[p["pat"]["lid"]] = p["pat"]["name"]
    stmts = body.get("stmts", []) if body.get("k") == "Block" else []

    def src_of(e):
        e = strip(e)
        for _ in range(10):
            if e.get("k") == "MCall" and e.get("name") in ("clone", "to_owned"):
                e = strip(e["recv"])
            elif e.get("k") == "Call" and (callee(e) or {}).get("name") == "clone" and e["args"]:
                e = strip(e["args"][0])
            else:
                break
        lo = local_of(e)
        return ids.get(lo[0]) if lo else None

    for s in stmts:
        if any(x is upto_node for x in walk(s)):
            break
        if s.get("k") == "Let" and s["pat"].get("k") == "PBind" and "init" in s:
            v = src_of(s["init"])
            if v:
                ids[s["pat"]["lid"]] = v
            else:
                ids[s["pat"]["lid"]] = "<fresh>"
        elif s.get("k") in ("Semi", "Expr") and s["e"].get("k") == "Assign":
            rl = root_local(s["e"]["lhs"])
            v = src_of(s["e"]["rhs"])
            if rl:
                ids[rl[0]] = v or "<fresh>"
    return ids


def run(facts, rep, self_ty="evaluator::Evaluator"):
    rep.rule("R-FORMS(cert)", "non-core member of an API family is pure forwarding to the family's core [S]")
    rep.rule("R-FORMS(i)", "order-sensitive family: operands reach the core under the core's own parameter names [N]")
    rep.rule("R-FORMS(ii)", "no data effect on the result after the core call returned [N]")
    fam = families(facts, self_ty)
    cg = facts.callgraph()
    n_members = 0
    for stem in sorted(fam):
        members = fam[stem]
        paths = set(members.values())
        # core: member reached (directly or transitively within the family) by the others
        reached = {p: {t for t, _ in cg.get(p, []) if t in paths and t != p} for p in paths}
        cores = [p for p in paths if not reached[p]]
        for name, p in sorted(members.items()):
            it = facts.items[p]
            body = facts.hir[p]
            rep.fn(p)
            n_members += 1
            if p in cores:
                rep.ok("R-FORMS(cert)", "%s/%s" % (stem, name), "core of the family (or stand-alone member)", facts.loc(p),
                       nontrivial=False)
                continue
            # the forwarding call: the unique call to another family member
            fcalls = [(x, f) for x, f in _calls_in(facts, body) if target_key(f) in paths and target_key(f) != p]
            key = "%s/%s" % (stem, name)
            if len(fcalls) != 1:
                rep.unresolved("R-FORMS(cert)", key, "%d calls into the family (expected exactly one)" % len(fcalls), facts.loc(p))
                continue
            call, f = fcalls[0]
            tgt = target_key(f)
            # certificate: every other call in the body is clone/new/guard-like (no data effect)
            others = [(x, g) for x, g in _calls_in(facts, body) if x is not call]
            impure = []
            for x, g in others:
                nm = g["name"]
                if nm in ("clone", "new", "default", "to_owned") or nm.startswith("check_") or nm.startswith("is_") \
                        or nm in BENIGN_AFTER:
                    continue
                impure.append(g["def"])
            if impure:
                rep.unresolved("R-FORMS(cert)", key, "not pure forwarding: also calls %s" % ", ".join(sorted(set(impure))[:4]),
                               facts.loc(p))
            else:
                rep.ok("R-FORMS(cert)", key, "pure forwarding to %s" % tgt, facts.loc(p, call),
                       sample={"member": p, "forwards_to": tgt})
            # (ii) effects on the result after the forwarding call
            stmts = body.get("stmts", [])
            idx = None
            for i, s in enumerate(stmts):
                if any(x is call for x in walk(s)):
                    idx = i
            later = (stmts[idx + 1:] if idx is not None else []) + ([body["expr"]] if body.get("expr") and idx is not None else [])
            post = []
            for s in later:
                for x in walk(s):
                    k = x.get("k")
                    if k in ("Assign", "AssignOp"):
                        post.append(("assignment", x))
                    elif k == "MCall":
                        if facts.ty_adj(x["recv"]).startswith("&mut ") and x.get("name") not in BENIGN_AFTER:
                            post.append((".%s()" % x["name"], x))
                        elif any(facts.ty_adj(a).startswith("&mut ") for a in x["args"]):
                            post.append((".%s(&mut ..)" % x["name"], x))
                    elif k == "Call":
                        if any(facts.ty_adj(a).startswith("&mut ") for a in x["args"]):
                            post.append(((callee(x) or {}).get("def", "call"), x))
            if post:
                what, node = post[0]
                rep.violation("R-FORMS(ii)", key,
                              "%s applies a further effect (%s) to the result after the family's computation (%s) "
                              "returned: this form no longer produces the same bits as its siblings" % (p, what, tgt),
                              facts.loc(p, node))
            else:
                rep.ok("R-FORMS(ii)", key, "nothing touches the result after %s returns" % tgt, facts.loc(p, call))
            # (i) operand order
            if stem in ORDER_SENSITIVE:
                tit = facts.items[tgt]
                ids = _ident_map(facts, it, body, call)
                args = ([call["recv"]] if call["k"] == "MCall" else []) + call["args"]
                mism = []
                checked = 0
                own_names = {pp["pat"]["name"] for pp in it["params"] if pp["pat"].get("k") == "PBind"}
                for k_, a in enumerate(args):
                    if k_ >= len(tit["params"]):
                        break
                    cp = tit["params"][k_]
                    if cp["pat"].get("k") != "PBind":
                        continue
                    cname = cp["pat"]["name"]
                    rl = root_local(a)
                    src = ids.get(rl[0]) if rl else None
                    if src is None or src == "<fresh>" or cname in ("self", "destination", "result"):
                        continue
                    if cname in own_names:
                        checked += 1
                        if src != cname and src in own_names and src not in ("destination", "result"):
                            mism.append((cname, src))
                if mism:
                    rep.violation("R-FORMS(i)", key,
                                  "%s passes its operand `%s` in the core's `%s` position (%s): the forms of `%s` "
                                  "compute %s" % (p, mism[0][1], mism[0][0], tgt, stem, ORDER_SENSITIVE[stem]),
                                  facts.loc(p, call))
                elif checked:
                    rep.ok("R-FORMS(i)", key, "operands reach %s under the core's own names (%d checked)" % (tgt, checked),
                           facts.loc(p, call), sample={"member": p, "core": tgt})
                else:
                    rep.unresolved("R-FORMS(i)", key, "operand mapping not resolved", facts.loc(p, call))
    return len(fam), n_members
