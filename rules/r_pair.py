"""R-PAIR — agreement of inverse pairs and ordering-sensitive sequences (C11 batch encoder, C04 Galois).

C11 (BatchEncoder) [N]:
  (scatter/gather) `encode` stores values[i] at data[MAP[i]] and `decode` loads out[i] from temp[MAP[i]]
       through the SAME index-map field with the loop variable as inner index — otherwise
       decode(encode(v)) != v;
  (zero-fill) `encode` has a second scatter loop storing 0 through the same map over value_size..slots —
       otherwise short inputs are not zero-padded (stale destination data survives);
  (transform pair) `encode` ends with the inverse transform and `decode` starts with the forward
       transform of the tables obtained by the same accessor, and the pair is (inverse_ntt_negacyclic_
       harvey, ntt_negacyclic_harvey) — the non-lazy forms (a lazy form leaves values outside [0,t));
  (coefficient encoding) `encode_polynomial` stores plain_modulus.reduce(values[i]) at data[i];
       `decode_polynomial*` copy the data.

C04 (apply_galois_inplace) [N]: symbolic buffer contents through the block marked "do not change
  execution order": at the key-switch call the target buffer holds G(c1), poly(0) holds G(c0) and poly(1)
  is zero, in both representation arms.  rotate_internal: the element tested with has_key is the element
  applied; the NAF loop re-applies to the same ciphertext and key set with the loop variable as step;
  conjugation uses the element of step 0.
"""
import re
from facts import walk, callee, root_local, strip, local_of, target_key, Tree, Defs
from flow import Flow

IGN = {"t", "ta", "l", "c", "el", "id", "lid", "loop_id"}


def same_expr(a, b):
    """Structural equality of expressions modulo positions and local ids (locals compare by name)."""
    if isinstance(a, dict) and isinstance(b, dict):
        ka = {k for k in a if k not in IGN}
        kb = {k for k in b if k not in IGN}
        if ka != kb:
            return False
        return all(same_expr(a[k], b[k]) for k in ka)
    if isinstance(a, list) and isinstance(b, list):
        return len(a) == len(b) and all(same_expr(x, y) for x, y in zip(a, b))
    return a == b


def _field_of(e):
    """self.FIELD or self.FIELD.method() -> FIELD"""
    e = strip(e)
    while isinstance(e, dict) and e.get("k") == "MCall":
        e = strip(e["recv"])
    if isinstance(e, dict) and e.get("k") == "Field":
        return e.get("name")
    return None


def _for_of(body, node):
    """innermost For whose body contains node"""
    best = None
    for f in walk(body):
        if f.get("k") == "For" and any(x is node for x in walk(f["body"])):
            best = f
    return best


def _fields_in(defs, e):
    return {x.get("name") for x in defs.closure(e) if x.get("k") == "Field"}


def _scatter_sites(body):
    """Indexed stores whose index is computed (through local definitions / loop bindings) from an index-map field.
    -> (map field, index-source description, rhs, enclosing For, assign node)"""
    from facts import Defs
    defs = Defs(body)
    out = []
    for x in walk(body):
        if x.get("k") == "Assign" and x["lhs"].get("k") == "Index":
            fl = [n for n in _fields_in(defs, x["lhs"]["i"]) if n and "map" in n]
            if fl:
                f = _for_of(body, x)
                idx = strip(x["lhs"]["i"])
                inner = (local_of(idx["i"]) or (None, None))[1] if idx.get("k") == "Index" else "<bound by the loop>"
                out.append((fl[0], inner, x["rhs"], f, x))
    return out


def _gather_sites(body):
    """Indexed loads out[i] = T[...] whose source index is computed from an index-map field."""
    from facts import Defs
    defs = Defs(body)
    out = []
    for x in walk(body):
        if x.get("k") == "Assign" and x["lhs"].get("k") == "Index":
            rhs = strip(x["rhs"])
            if rhs.get("k") == "Index":
                fl = [n for n in _fields_in(defs, rhs["i"]) if n and "map" in n]
                if fl:
                    inner = strip(rhs["i"])
                    iv = (local_of(inner["i"]) or (None, None))[1] if inner.get("k") == "Index" else "<bound by the loop>"
                    out.append((fl[0], iv, (local_of(x["lhs"]["i"]) or (None, None))[1], _for_of(body, x), x))
    return out


def _loop_var(f):
    p = f["pat"]
    return p.get("name") if p.get("k") == "PBind" else None


def _range_of(f):
    it = strip(f["iter"])
    if it.get("k") == "Struct":
        d = {x["name"]: x["e"] for x in it["fields"]}
        return d.get("start"), d.get("end")
    return None, None


def run_c11(facts, rep):
    R = "R-PAIR(batch)"
    rep.rule(R, "BatchEncoder: encode scatters and decode gathers through the same index map; zero-fill of the tail; "
             "inverse/forward transform pair on the same tables; coefficient encoding reduces, decoding copies")
    enc = "batch_encoder::BatchEncoder::encode"
    dec = "batch_encoder::BatchEncoder::decode"
    encp = "batch_encoder::BatchEncoder::encode_polynomial"
    ok = all(rep.anchor(R, x, x in facts.hir) for x in (enc, dec, encp))
    if not ok:
        return
    for x in (enc, dec, encp):
        rep.fn(x)
    from iterpos import IterPos
    from r_slotmod import padd, pshow, patom

    def positions(fn):
        """stores `D[I] = V` of one function in position form:
           I -> ('map', field, off) when I is MAP[p + off] (MAP a field whose name contains `map`)
                ('pos', off)        when I is the position p + off itself
           V -> ('seq', root, off) | ('zero',) | ('load', base, I') for T[I'] | ('other',)
           plus the iteration space (start, end) of the enclosing loop when known"""
        body = facts.hir[fn]
        ip = IterPos(facts, body)
        out = []

        def idx_form(e):
            e = strip(e)
            b_ = ip.of(e)
            if b_ is not None and b_[0] == "elem" and "map" in b_[1]:
                return ("map", b_[1].rsplit(".", 1)[-1], b_[2], b_[3])
            if b_ is not None and b_[0] == "pos":
                return ("pos", b_[1], b_[2])
            if e.get("k") == "Index":
                base = strip(e["e"])
                inner = idx_form(e["i"])
                nm = base.get("name") if base.get("k") == "Field" else None
                if nm and "map" in nm and inner is not None and inner[0] == "pos":
                    return ("map", nm, inner[1], inner[2])
            return None

        def val_form(e):
            e = strip(e)
            if e.get("k") == "Lit":
                return ("zero",) if str(e.get("v", "")).split("_")[0] in ("0", "0.0") else ("other",)
            b_ = ip.of(e)
            if b_ is not None and b_[0] == "elem":
                return ("seq", b_[1], b_[2])
            if e.get("k") == "Index":
                i_ = idx_form(e["i"])
                rl = root_local(e["e"])
                if i_ is not None and i_[0] == "pos" and rl:
                    return ("seq", "%s#%d" % (rl[1], rl[0]), i_[1])
                if i_ is not None and i_[0] == "map" and rl:
                    return ("load", rl[1], i_)
            return ("other",)

        for x in walk(body):
            if x.get("k") != "Assign":
                continue
            lhs = strip(x["lhs"])
            if lhs.get("k") == "Index":
                out.append((idx_form(lhs["i"]), val_form(x["rhs"]), x, root_local(lhs["e"])))
            else:
                b_ = ip.of(lhs)
                if b_ is not None and b_[0] == "elem":
                    out.append((("pos", b_[2], b_[3]), val_form(x["rhs"]), x, None))
        return out

    enc_st = positions(enc)
    dec_st = positions(dec)
    sc = [t for t in enc_st if t[0] is not None and t[0][0] == "map"]
    val = [t for t in sc if t[1][0] == "seq" and "values" in t[1][1]]
    zer = [t for t in sc if t[1][0] == "zero"]
    ga = [t for t in dec_st if t[1][0] == "load"]
    rep.floor(R, "scatter sites in encode", len(sc), 1)
    if not ga:
        rep.violation(R, "scatter-gather", "decode no longer loads out[p] from temp[MAP[p]] through an index-map field "
                      "while encode scatters through `%s`: decode is not the inverse of encode" %
                      (sc[0][0][1] if sc else "?"), facts.loc(dec))
    if not sc or not ga:
        return
    g = ga[0]
    for t in val:
        key = "scatter-gather"
        m_, v_ = t[0], t[1]
        aligned = not padd(m_[2], v_[2], -1)                       # map position == value position
        gi = g[1][2]
        g_al = g[0] is not None and g[0][0] == "pos" and not padd(g[0][1], gi[2], -1) and gi[1] == m_[1]
        if aligned and g_al:
            rep.ok(R, key, "encode: data[%s[p]] = values[p]; decode: out[p] = temp[%s[p]] — same map, same position" %
                   (m_[1], gi[1]), facts.loc(enc, t[2]), sample={"map": m_[1], "encode_line": t[2].get("l"), "decode_line": g[2].get("l")})
        else:
            rep.violation(R, key, "encode scatters values[p + %s] through `%s[p + %s]` but decode gathers out[p + %s] from "
                          "`%s[p + %s]`: decode is not the inverse of encode" %
                          (pshow(v_[2]), m_[1], pshow(m_[2]), pshow(g[0][1]) if g[0] else "?", gi[1], pshow(gi[2])), facts.loc(dec, g[2]))
    if not val:
        rep.violation(R, "scatter-gather", "encode no longer stores values[p] through the index map", facts.loc(enc))
    # zero fill of the tail: positions value_size .. slots of the same map
    from facts import Defs
    edefs = Defs(facts.hir[enc])
    if zer:
        z = zer[0]
        m_ = z[0]
        start, end = m_[2], m_[3]
        start_ok = any("values" in a for a in [a for mono in start for a in mono]) and \
            all(c == 1 for c in start.values()) and len(start) == 1
        end_ok = end is not None and len(end) == 1 and any(a.endswith(".slots") for mono in end for a in mono)
        same_map = bool(val) and val[0][0][1] == m_[1]
        if same_map and start_ok and end_ok:
            rep.ok(R, "zero-fill", "tail value_size..slots is zero-filled through the same map", facts.loc(enc, z[2]))
        else:
            rep.violation(R, "zero-fill", "the zero-fill loop of encode does not cover value_size..slots through the "
                          "same index map (it covers %s..%s of `%s`): short inputs are not zero-padded" %
                          (pshow(start), pshow(end) if end is not None else "?", m_[1]), facts.loc(enc, z[2]))
    else:
        whole = [x for x in walk(facts.hir[enc]) if x.get("k") == "MCall" and x.get("name") == "fill" and x["args"]
                 and strip(x["args"][0]).get("v") == "0" and (root_local(x["recv"]) or (0, ""))[1] == "destination"]
        if whole:
            rep.ok(R, "zero-fill", "the whole destination buffer is zero-filled before the scatter", facts.loc(enc, whole[0]))
        else:
            rep.violation(R, "zero-fill", "encode has no loop storing 0 through the index map (and no whole-buffer fill(0)): "
                          "slots beyond the input keep stale destination data (short inputs are not zero-padded)",
                          facts.loc(enc))
    # transform pair
    def transform_calls(p):
        out = []
        for x in walk(facts.hir[p]):
            f = callee(x)
            if f and f.get("self", "").endswith("util::ntt::NTTTables") and "ntt" in f["name"]:
                out.append((f["name"], x))
        return out
    te, td = transform_calls(enc), transform_calls(dec)
    names_e = [n for n, _ in te]
    names_d = [n for n, _ in td]
    if names_e == ["inverse_ntt_negacyclic_harvey"] and names_d == ["ntt_negacyclic_harvey"]:
        # same tables accessor
        def tables_src(p, call):
            from facts import Defs
            d = Defs(facts.hir[p])
            return sorted({(callee(y) or {}).get("name") for y in d.closure(call["recv"]) if y.get("k") == "MCall"} - {None})
        se, sd = tables_src(enc, te[0][1]), tables_src(dec, td[0][1])
        if "plain_ntt_tables" in se and "plain_ntt_tables" in sd:
            rep.ok(R, "transform-pair", "encode applies inverse_ntt_negacyclic_harvey, decode ntt_negacyclic_harvey, both on "
                   "plain_ntt_tables()", facts.loc(enc, te[0][1]), sample={"encode": names_e, "decode": names_d})
        else:
            rep.violation(R, "transform-pair", "encode and decode take their transform tables from different accessors "
                          "(%s vs %s)" % (se, sd), facts.loc(dec, td[0][1]))
    else:
        rep.violation(R, "transform-pair", "encode transforms with %s and decode with %s: not the (inverse, forward) pair "
                      "of non-lazy negacyclic transforms" % (names_e, names_d), facts.loc(enc))
    # gather runs after the forward transform, scatter before the inverse transform (statement order)
    def order(p, first, second):
        pos = {}
        for i, x in enumerate(walk(facts.hir[p])):
            pos[id(x)] = i
        return pos.get(id(first), 0) < pos.get(id(second), 0)
    if te and td and val:
        if order(enc, val[0][2], te[0][1]) and order(dec, td[0][1], g[2]):
            rep.ok(R, "order", "scatter precedes the inverse transform; gather follows the forward transform", facts.loc(enc))
        else:
            rep.violation(R, "order", "scatter/transform or transform/gather are in the wrong order", facts.loc(enc))
    # coefficient encoding
    ipp = IterPos(facts, facts.hir[encp])
    stores = [x for x in walk(facts.hir[encp]) if x.get("k") == "Assign" and
              (x["lhs"].get("k") == "Index" or (ipp.of(x["lhs"]) or ("",))[0] == "elem")]
    red = [x for x in stores if any((callee(y) or {}).get("name") == "reduce" and
                                    _field_src(facts, encp, y) for y in walk(x["rhs"]))]
    if stores and len(red) == len(stores):
        rep.ok(R, "coefficient-encode", "encode_polynomial stores plain_modulus.reduce(values[i])", facts.loc(encp, stores[0]))
    else:
        rep.violation(R, "coefficient-encode", "encode_polynomial stores a coefficient without reducing it modulo the "
                      "plain modulus", facts.loc(encp))


def _field_src(facts, p, call):
    from facts import Defs
    d = Defs(facts.hir[p])
    return any((callee(y) or {}).get("name") == "plain_modulus" for y in d.closure(call["recv"]))


# ------------------------------------------------------------------------------------------- C04
def run_c04(facts, rep):
    R = "R-PAIR(galois)"
    rep.rule(R, "apply_galois_inplace: at the key-switch call, target = G(c1), poly(0) = G(c0), poly(1) = 0 on both "
             "representation arms (symbolic buffer contents); rotate_internal applies the element it tested, re-applies "
             "NAF components to the same ciphertext and keys; conjugation uses the element of step 0")
    p = "evaluator::Evaluator::apply_galois_inplace"
    if not rep.anchor(R, p, p in facts.hir):
        return
    body = facts.inlined(p, pred=facts.extracted_helper)       # a per-polynomial helper is read in place
    it = facts.items[p]
    rep.fn(p)
    enc_lid = None
    for pp in it["params"]:
        if pp["pat"].get("k") == "PBind" and pp.get("ty", "").endswith("text::Ciphertext"):
            enc_lid = pp["pat"]["lid"]
    results = []
    # parameters of inlined helpers: aliases of the caller's locals / literal arguments
    alias, lits = {}, {}
    for x in walk(body):
        if x.get("k") == "Inl":
            for st_ in x["stmts"]:
                if st_["pat"].get("k") == "PBind":
                    i0 = strip(st_["init"])
                    if i0.get("k") == "Lit":
                        lits[st_["pat"]["lid"]] = i0["v"]
                    elif local_of(i0):
                        alias[st_["pat"]["lid"]] = local_of(i0)[0]

    def res(lid):
        for _ in range(6):
            if lid in alias:
                lid = alias[lid]
        return lid

    def buf_of(e):
        """('poly', k) for encrypted.poly(k)/poly_mut(k); ('loc', lid) for a local buffer"""
        e = strip(e)
        if e.get("k") == "MCall" and e.get("name") in ("poly", "poly_mut"):
            rl = root_local(e["recv"])
            a = strip(e["args"][0]) if e["args"] else {}
            v = a.get("v") if a.get("k") == "Lit" else (lits.get(local_of(a)[0]) if local_of(a) else None)
            if rl and res(rl[0]) == enc_lid and v is not None:
                return ("poly", re.sub(r"_?usize$", "", str(v)))
        lo = local_of(e)
        if lo:
            return ("loc", res(lo[0]))
        return None

    def join(a, b):
        out = {}
        for k in set(a) | set(b):
            out[k] = a.get(k) if a.get(k) == b.get(k) else "?"
        return out

    def transfer(n, st):
        k = n.get("k")
        if k not in ("MCall", "Call"):
            return st
        f = callee(n)
        name = f["name"] if f else n.get("name")
        args = ([n["recv"]] if k == "MCall" else []) + n["args"]
        if name in ("apply_p", "apply_ntt_p", "apply", "apply_ntt") and len(args) >= 3:
            src, dst = buf_of(args[1]), buf_of(args[-1])
            if src and dst:
                st = dict(st)
                st[dst] = "G(%s)" % st.get(src, "?")
            return st
        if name in ("copy_from_slice", "clone_from_slice") and k == "MCall":
            dst, src = buf_of(n["recv"]), buf_of(n["args"][0])
            if dst and src:
                st = dict(st)
                st[dst] = st.get(src, "?")
            return st
        if name == "fill" and k == "MCall":
            dst = buf_of(n["recv"])
            v = strip(n["args"][0]) if n["args"] else {}
            if dst:
                st = dict(st)
                st[dst] = "0" if v.get("k") == "Lit" and v.get("v") == "0" else "?"
            return st
        if name == "switch_key_inplace_internal":
            tgt = buf_of(args[2]) if len(args) > 2 else None
            results.append((st.get(("poly", "0")), st.get(("poly", "1")), st.get(tgt, "?"), n))
            return st
        return st

    fl = Flow(facts, join, transfer, closure_mode="skip")
    fl.run(body, {("poly", "0"): "c0", ("poly", "1"): "c1"})
    if not results:
        rep.violation(R, p + "/keyswitch", "apply_galois_inplace no longer reaches switch_key_inplace_internal", facts.loc(p))
    for p0, p1, tgt, node in results:
        key = p + "/order"
        if (p0, p1, tgt) == ("G(c0)", "0", "G(c1)"):
            rep.ok(R, key, "at the key switch: poly(0)=G(c0), poly(1)=0, target=G(c1) on every path", facts.loc(p, node),
                   sample={"poly0": p0, "poly1": p1, "target": tgt})
        else:
            rep.violation(R, key, "at the key-switch call the buffers hold poly(0)=%s, poly(1)=%s, target=%s (expected "
                          "G(c0), 0, G(c1)): the automorphism is not applied as X -> X^g to both components before "
                          "switching" % (p0, p1, tgt), facts.loc(p, node))
    # rotate_internal
    r = "evaluator::Evaluator::rotate_internal"
    if rep.anchor(R, r, r in facts.hir):
        rep.fn(r)
        rb = facts.hir[r]
        rit = facts.items[r]
        pn = [pp["pat"]["name"] for pp in rit["params"] if pp["pat"].get("k") == "PBind"]
        found = False
        for x in walk(rb):
            if x.get("k") == "If":
                hk = [y for y in walk(x["c"]) if y.get("k") == "MCall" and y.get("name") == "has_key"]
                if not hk:
                    continue
                ag = [y for y in walk(x["th"]) if (callee(y) or {}).get("name") == "apply_galois_inplace"]
                if not ag:
                    continue
                found = True
                tested = hk[0]["args"][0]
                applied = ag[0]["args"][1] if len(ag[0]["args"]) > 1 else None
                if applied is not None and same_expr(tested, applied):
                    rep.ok(R, r + "/tested-applied", "the element tested with has_key is the element applied", facts.loc(r, ag[0]))
                else:
                    rep.violation(R, r + "/tested-applied", "rotate_internal tests the key for one Galois element and "
                                  "applies another", facts.loc(r, ag[0]))
                in_th = {id(z) for z in walk(x["th"])}
                rec = [y for y in walk(rb) if (callee(y) or {}).get("name") == "rotate_internal" and id(y) not in in_th]
                for y in rec:
                    loops = [f for f in walk(rb) if f.get("k") == "For" and any(z is y for z in walk(f["body"]))]
                    lv = _loop_var(loops[0]) if loops else None
                    a = y["args"]
                    names = [(local_of(z) or (None, None))[1] for z in a]
                    step_ok = lv is not None and any(w.get("k") == "Path" and w.get("name") == lv for w in walk(a[1]))
                    if names[0] == pn[1] and names[2] == pn[3] and step_ok:
                        rep.ok(R, r + "/naf", "each NAF component is applied to the same ciphertext and key set", facts.loc(r, y))
                    else:
                        rep.violation(R, r + "/naf", "the NAF loop does not re-apply each component to the same ciphertext "
                                      "and key set with the component as step", facts.loc(r, y))
                if not rec:
                    rep.violation(R, r + "/naf", "no composed (NAF) path in rotate_internal", facts.loc(r))
        if not found:
            rep.violation(R, r + "/tested-applied", "rotate_internal: has_key test / apply_galois_inplace pair not found",
                          facts.loc(r))
    c = "evaluator::Evaluator::conjugate_internal"
    if rep.anchor(R, c, c in facts.hir):
        rep.fn(c)
        ag = [y for y in walk(facts.hir[c]) if (callee(y) or {}).get("name") == "apply_galois_inplace"]
        good = False
        from facts import Defs as _Defs
        cdefs = _Defs(facts.hir[c])
        for y in ag:
            for z in cdefs.closure(y["args"][1]):
                if (callee(z) or {}).get("name") == "get_elt_from_step":
                    a0 = strip(z["args"][0])
                    good = a0.get("k") == "Lit" and a0.get("v") == "0"
        if good:
            rep.ok(R, c + "/step0", "conjugation / column swap applies the element of step 0", facts.loc(c))
        else:
            rep.violation(R, c + "/step0", "conjugate_internal does not apply get_elt_from_step(0)", facts.loc(c))


def run_table_siblings(facts, rep, fn_filter):
    """R-PAIR(tables) [N, sibling agreement]: inside one function, a buffer that is defined by the same slicing
    expression in sibling branches (e.g. the special-prime component `t_last` in the BGV and the BFV/CKKS arm of the key
    switch) must be transformed with the SAME NTT table index in every branch — it is the same RNS slot, so one table
    is the right one; if the arms disagree, one of them transforms the slot with another prime's table."""
    from r_encbound import render
    from facts import Defs
    R = "R-PAIR(tables)"
    rep.rule(R, "a buffer defined by the same slicing expression in sibling branches is transformed with the same NTT "
             "table index in each of them")
    n = 0
    for p in sorted(facts.hir):
        if not fn_filter(p):
            continue
        body = facts.hir[p]
        lets = {}
        for x in walk(body):
            if x.get("k") == "Let" and x["pat"].get("k") == "PBind" and "init" in x:
                lets.setdefault(x["pat"]["name"], []).append((x["pat"]["lid"], render_full(x["init"])))
        groups = {}
        for x in walk(body):
            f = callee(x)
            if not f or x.get("k") != "Call" or not f["def"].startswith("util::polysmallmod::"):
                continue
            if f["name"] not in ("ntt", "ntt_lazy", "intt", "intt_lazy") or len(x["args"]) < 2:
                continue
            lo = local_of(x["args"][0])
            if not lo:
                continue
            defn = [d for l, d in lets.get(lo[1], []) if l == lo[0]]
            if not defn:
                continue
            if "from_raw_parts" not in defn[0] and '"k": "Index"' not in defn[0]:
                continue          # a scratch allocation, not a slot of a larger buffer
            idx = None
            t = strip(x["args"][1])
            if t.get("k") == "Index":
                idx = render(t["i"])
            direction = "inverse" if f["name"].startswith("intt") else "forward"
            groups.setdefault((lo[1], defn[0], direction), []).append((idx, x, lo[0]))
        for (name, defn, direction), uses in sorted(groups.items()):
            lids = {u[2] for u in uses}
            if len(lids) < 2:
                continue          # only one binding: no sibling to compare with
            n += 1
            rep.fn(p)
            idxs = {u[0] for u in uses}
            key = "%s/%s/%s" % (p, name, direction)
            if len(idxs) == 1:
                rep.ok(R, key, "`%s` (same slot in %d sibling branches) is %s-transformed with table index `%s` in each" %
                       (name, len(lids), direction, next(iter(idxs))), facts.loc(p, uses[0][1]),
                       sample={"function": p, "buffer": name, "table_index": next(iter(idxs))})
            else:
                rep.violation(R, key, "`%s` denotes the same RNS slot in %d sibling branches but is %s-transformed with "
                              "different NTT tables: %s — one branch uses another prime's table for this slot" %
                              (name, len(lids), direction, " vs ".join("[%s] (line %s)" % (u[0], u[1].get("l")) for u in uses)),
                              facts.loc(p, uses[-1][1]))
    return n


def render_full(e):
    """structural rendering of an arbitrary expression (blocks, unsafe slices) for equality of definitions"""
    import json
    def norm(x):
        if isinstance(x, dict):
            return {k: norm(v) for k, v in x.items() if k not in IGN and k != "f"} | ({"callee": x["f"]["def"]} if isinstance(x.get("f"), dict) else {})
        if isinstance(x, list):
            return [norm(y) for y in x]
        return x
    return json.dumps(norm(e), sort_keys=True)


def run_galois_total(facts, rep):
    """R-PAIR(total) [N]: GaloisTool::apply defines every coefficient of its out-buffer.  The automorphism permutes all N
    index positions; the out-parameter `result` may hold anything on entry, so the loop that stores into it must range
    over the tool's coefficient count — not over the (possibly shorter) operand — unless the buffer is cleared first."""
    from facts import Defs
    R = "R-PAIR(total)"
    rep.rule(R, "GaloisTool::apply stores to its out-buffer for every index of the ring degree (or clears it first)")
    p = "util::galois::GaloisTool::apply"
    if not rep.anchor(R, p, p in facts.hir):
        return 0
    rep.fn(p)
    body = facts.hir[p]
    it = facts.items[p]
    plid = {q["pat"]["name"]: q["pat"]["lid"] for q in it["params"] if q["pat"].get("k") == "PBind"}
    outs = [q["pat"]["lid"] for q in it["params"] if q["pat"].get("k") == "PBind" and q.get("ty", "").startswith("&mut")]
    ins = [q["pat"]["lid"] for q in it["params"] if q["pat"].get("k") == "PBind" and q.get("ty", "").startswith("&[")]
    defs = Defs(body)
    tree = Tree(body)
    found = False
    for x in walk(body):
        if x.get("k") == "Assign" and strip(x["lhs"]).get("k") == "Index" and \
                (root_local(strip(x["lhs"])["e"]) or (None,))[0] in outs:
            L = tree.enclosing(x, ("For", "While", "Loop"))
            if L is None:
                continue
            found = True
            src = L.get("iter") or L.get("c")
            mentions_in = any(y.get("k") == "Path" and y.get("res") == "local" and y.get("lid") in ins for y in defs.closure(src))
            mentions_n = any(y.get("k") == "Field" and y.get("name") == "coeff_count" for y in defs.closure(src))
            cleared = any(y.get("k") == "MCall" and y.get("name") == "fill" and (root_local(y["recv"]) or (None,))[0] in outs and
                          (y.get("l", 0), y.get("c", 0)) < (L.get("l", 0), L.get("c", 0)) for y in walk(body))
            if mentions_n and not mentions_in:
                rep.ok(R, "apply", "the storing loop ranges over the tool's coefficient count", facts.loc(p, L))
            elif cleared:
                rep.ok(R, "apply", "the out-buffer is cleared before a loop over the operand", facts.loc(p, L))
            elif mentions_in:
                rep.violation(R, "apply", "the loop that stores into the out-buffer ranges over the operand, which may be shorter "
                              "than the ring degree (plaintexts are): the images of the implicit zero coefficients are never "
                              "written, so the rest of the out-buffer keeps whatever it held", facts.loc(p, L))
            else:
                rep.unresolved(R, "apply", "iteration space of the storing loop not recognised", facts.loc(p, L))
            break
    if not found:
        rep.unresolved(R, "apply", "no indexed store into the out-buffer inside a loop", facts.loc(p))
    return 1


def run_generator(facts, rep):
    """R-PAIR(generator) [N]: the walk that turns a rotation step into a Galois element multiplies by the generator the slot
    index map is built with — or by a constant that is its inverse modulo 2N for EVERY supported degree.

    In get_elt_from_step every multiplier of the running element (`elt = elt * g & (m - 1)`) is resolved through lets and `if`
    values to constants.  GALOIS_GENERATOR itself is accepted.  Any other constant c is accepted only if
    GALOIS_GENERATOR * c == 1 modulo 2 * HE_POLY_MOD_DEGREE_MAX (so that masking it down to 2N gives the inverse for every
    power-of-two degree); the literal values are read from the constant definitions in the source.  A constant that is an
    inverse only modulo a smaller power of two maps negative steps to wrong elements for the degrees above it."""
    import os
    import re as _re
    R = "R-PAIR(generator)"
    rep.rule(R, "every multiplier of the step-to-element walk is GALOIS_GENERATOR or a constant inverse of it modulo "
             "2 * HE_POLY_MOD_DEGREE_MAX")
    cand = [p for p in facts.hir if p.endswith("GaloisTool::get_elt_from_step")]
    if not rep.anchor(R, "GaloisTool::get_elt_from_step", bool(cand)):
        return 0
    p = cand[0]
    rep.fn(p)
    body = facts.hir[p]
    defs = Defs(body)

    def const_value(defpath):
        name = defpath.rsplit("::", 1)[-1]
        for root, _, files in os.walk(os.path.join(facts.repo, "src")):
            for fn in files:
                if fn.endswith(".rs"):
                    try:
                        txt = open(os.path.join(root, fn)).read()
                    except OSError:
                        continue
                    m = _re.search(r"\bconst\s+%s\s*:\s*\w+\s*=\s*(0x[0-9a-fA-F_]+|[0-9_]+)\s*;" % _re.escape(name), txt)
                    if m:
                        return int(m.group(1).replace("_", ""), 0)
        return None
    gen = const_value("GALOIS_GENERATOR")
    nmax = const_value("HE_POLY_MOD_DEGREE_MAX")
    muls = []
    for x in walk(body):
        if x.get("k") == "Bin" and x.get("op") == "*":
            for me, other in ((x["a"], x["b"]), (x["b"], x["a"])):
                lo = local_of(me)
                if lo and "elt" in lo[1]:
                    muls.append((x, other))
        if x.get("k") == "AssignOp" and x.get("op") in ("*", "*=") and local_of(x["lhs"]) and "elt" in local_of(x["lhs"])[1]:
            muls.append((x, x["rhs"]))
    if not muls or gen is None or nmax is None:
        rep.unresolved(R, "walk", "the element walk or the constants GALOIS_GENERATOR / HE_POLY_MOD_DEGREE_MAX were not found", facts.loc(p))
        return 1
    consts = set()
    other_leaf = False
    for _, m in muls:
        for y in defs.closure(m):
            if y.get("k") == "Path" and y.get("res") != "local" and "Const" in str(y.get("res", "")):
                consts.add(y.get("def"))
    bad = []
    for c in sorted(consts):
        nm = c.rsplit("::", 1)[-1]
        if nm == "GALOIS_GENERATOR":
            continue
        v = const_value(c)
        if v is None:
            bad.append((nm, None))
        elif (gen * v) % (2 * nmax) != 1:
            bad.append((nm, v))
    if not consts:
        rep.unresolved(R, "walk", "the multiplier of the element walk does not resolve to constants", facts.loc(p, muls[0][0]))
    elif bad:
        nm, v = bad[0]
        rep.violation(R, "walk", "the element walk multiplies by the constant %s%s, which is neither GALOIS_GENERATOR nor its inverse "
                      "modulo 2 * HE_POLY_MOD_DEGREE_MAX = %d (%d * %s = %s mod %d): for the degrees where it is not the inverse, "
                      "steps that use it are mapped to the wrong Galois element" %
                      (nm, "" if v is None else " = %#x" % v, 2 * nmax, gen, "?" if v is None else "%#x" % v,
                       "?" if v is None else (gen * v) % (2 * nmax), 2 * nmax), facts.loc(p, muls[0][0]))
    else:
        rep.ok(R, "walk", "multipliers of the element walk: %s" % ", ".join(sorted(c.rsplit("::", 1)[-1] for c in consts)),
               facts.loc(p, muls[0][0]), sample={"constants": sorted(consts)})
    return 1
