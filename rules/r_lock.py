"""R-LOCK — lock discipline of the lazily grown caches (property C17).

(a) [N] no acquisition of a lock while a guard of the same lock (type, field) is live in the same
    body, and no call — while a guard is live — into a function that (transitively) acquires the same
    lock: std's RwLock is not re-entrant (write-after-read on one thread blocks forever).  Decided on
    MIR: guard live ranges are exact (moves, `drop(guard)`, scope-end Drop terminators).
(c) [N] publish-after-recheck: every whole-value store `*write_guard = v` in a `&self` function is
    dominated by a branch that exits (return/panic) and whose condition reads the protected value
    through that same write guard — otherwise a stale length computed under the read lock lets a
    shorter array overwrite a longer one (a shrunken cache becomes observable).
(d) [N] monotone: no clear/truncate/pop/drain/remove-class call through a guard in a `&self`
    function (functions taking `&mut self` have exclusive access and are exempt).
(b),(e) [S] every access to the protected value goes through the lock API (type system; get_mut /
    into_inner need exclusive access) and no guard is live across a call into caller-supplied code.
"""
from facts import walk, callee, target_key, root_local, strip, Defs
from flow import Flow

LOCK_TYPES = ("std::sync::RwLock<", "std::sync::Mutex<", "std::sync::poison::rwlock::RwLock<",
              "std::sync::poison::mutex::Mutex<")
ACQ = {"std::sync::RwLock::<T>::read": "r", "std::sync::RwLock::<T>::write": "w",
       "std::sync::Mutex::<T>::lock": "w", "std::sync::RwLock::<T>::try_read": "r",
       "std::sync::RwLock::<T>::try_write": "w"}
GUARD_TY = ("RwLockReadGuard<", "RwLockWriteGuard<", "MutexGuard<")
SHRINKERS = {"clear", "truncate", "pop", "drain", "remove", "swap_remove", "retain", "retain_mut", "shrink_to",
             "split_off", "dedup", "take"}


def lock_fields(facts):
    out = []
    for tp, t in facts.types.items():
        for v in t["variants"]:
            for i, f in enumerate(v["fields"]):
                if f["ty"].startswith(LOCK_TYPES):
                    out.append((tp, f["name"], i, f["ty"]))
    return out


def interior_mutable_fields(facts):
    out = []
    marks = ("RwLock<", "Mutex<", "RefCell<", "Cell<", "Atomic", "OnceCell<", "OnceLock<", "UnsafeCell<")
    for tp, t in facts.types.items():
        for v in t["variants"]:
            for f in v["fields"]:
                if any(m in f["ty"] for m in marks):
                    out.append((tp, f["name"], f["ty"]))
    return out


def _pl(p):
    return "_%d%s" % (p["l"], "".join(p["p"]))


class MirLocks:
    def __init__(self, facts):
        self.facts = facts
        self.fields = {(tp, idx): name for tp, name, idx, _ in lock_fields(facts)}
        self.direct = {}     # fn -> set of lock ids acquired directly
        self.sites = {}      # fn -> list of acquisition descriptions
        for p, body in facts.mir.items():
            self._scan(p, body)

    def _lock_id(self, body, blk, local):
        """Resolve `_local = &((*_b).i)` in this block to (struct type, field name)."""
        for s in reversed(blk["s"]):
            if s["k"] == "assign" and s["pl"]["l"] == local and not s["pl"]["p"] and s["rv"]["k"] in ("ref", "mutref"):
                src = s["rv"]["pl"]
                proj = src["p"]
                if proj and proj[-1].startswith("."):
                    idx = int(proj[-1][1:])
                    # type of the base after the preceding projections: approximate by the base local's pointee
                    bt = self.facts.strs[body["locals"][src["l"]]["t"]]
                    bt = bt.lstrip("&").replace("mut ", "", 1).strip() if bt.startswith("&") else bt
                    if len(proj) > 2:
                        # nested field path: find the struct owning a lock field with this index by field type
                        for (tp, i), name in self.fields.items():
                            if i == idx:
                                return (tp, name)
                    name = self.fields.get((bt, idx))
                    if name:
                        return (bt, name)
                    for (tp, i), name in self.fields.items():
                        if i == idx:
                            return (tp, name)
                return ("?", _pl(src))
        return ("?", "_%d" % local)

    def _scan(self, p, body):
        acq = set()
        sites = []
        for bi, blk in enumerate(body["blocks"]):
            t = blk["t"]
            if t["k"] == "call":
                f = t["f"].get("f")
                if f and f["def"] in ACQ and t["args"]:
                    a = t["args"][0]
                    if "pl" in a:
                        lid = self._lock_id(body, blk, a["pl"]["l"])
                        acq.add(lid)
                        sites.append((bi, lid, ACQ[f["def"]], t.get("l")))
        if acq:
            self.direct[p] = acq
            self.sites[p] = sites

    def owner(self, p):
        """Closure bodies are attributed to their parent function."""
        while "::{closure#" in p:
            p = p[:p.rindex("::{closure#")]
        return p

    def acquirers(self):
        """fn -> set of lock ids it may acquire, transitively through local callees."""
        cg = self.facts.callgraph()
        acq = {}
        for p, s in self.direct.items():
            acq.setdefault(self.owner(p), set()).update(s)
        changed = True
        while changed:
            changed = False
            for p, edges in cg.items():
                cur = acq.get(p, set())
                n = len(cur)
                for tgt, _ in edges:
                    if tgt in acq:
                        cur = cur | acq[tgt]
                if len(cur) != n:
                    acq[p] = cur
                    changed = True
        return acq

    def analyse(self, p, acq_trans):
        """Forward dataflow over the MIR CFG of p.  Returns (violations, n_acquisitions, n_calls_under_lock)."""
        body = self.facts.mir[p]
        blocks = body["blocks"]
        nb = len(blocks)
        instate = [None] * nb
        instate[0] = frozenset()
        work = [0]
        viol = []
        seen_v = set()
        n_calls_under = 0
        user_calls = []

        def carries(st, l):
            return [g for g in st if g[0] == l]

        while work:
            bi = work.pop()
            st = set(instate[bi])
            blk = blocks[bi]
            if blk.get("cleanup"):
                continue
            for s in blk["s"]:
                if s["k"] == "assign":
                    rv = s["rv"]
                    if rv["k"] == "use" and rv["ops"] and rv["ops"][0].get("o") == "move" and not rv["ops"][0]["pl"]["p"]:
                        src = rv["ops"][0]["pl"]["l"]
                        for g in carries(st, src):
                            st.discard(g)
                            if not s["pl"]["p"]:
                                st.add((s["pl"]["l"], g[1], g[2]))
                elif s["k"] == "dead":
                    for g in carries(st, s["loc"]):
                        st.discard(g)
            t = blk["t"]
            succs = []
            k = t["k"]
            if k == "call":
                f = t["f"].get("f")
                fdef = f["def"] if f else None
                if fdef in ACQ and t["args"] and "pl" in t["args"][0]:
                    lid = self._lock_id(body, blk, t["args"][0]["pl"]["l"])
                    for g in st:
                        if g[1] == lid:
                            key = (p, "nested", lid, ACQ[fdef])
                            if key not in seen_v:
                                seen_v.add(key)
                                viol.append(("nested", lid, ACQ[fdef], g[2], t.get("l")))
                    st.add((t["dest"]["l"], lid, ACQ[fdef]))
                else:
                    moved_guard = False
                    for a in t["args"]:
                        if a.get("o") == "move" and "pl" in a and not a["pl"]["p"]:
                            for g in carries(st, a["pl"]["l"]):
                                st.discard(g)
                                moved_guard = True
                                if f and f["name"] in ("unwrap", "expect", "unwrap_or_else", "into_inner", "map"):
                                    st.add((t["dest"]["l"], g[1], g[2]))
                    if st and f is not None and not moved_guard:
                        n_calls_under += 1
                        tk = f.get("inst") or f["def"]
                        for g in st:
                            if g[1] in acq_trans.get(self.owner(tk), ()):
                                key = (p, "callee", g[1], tk)
                                if key not in seen_v:
                                    seen_v.add(key)
                                    viol.append(("callee", g[1], tk, g[2], t.get("l")))
                    if st and f is None:
                        user_calls.append(t.get("l"))
                if "t" in t:
                    succs.append(t["t"])
            elif k == "drop":
                if not t["pl"]["p"]:
                    for g in carries(st, t["pl"]["l"]):
                        st.discard(g)
                succs.append(t["t"])
            elif k == "goto":
                succs.append(t["t"])
            elif k == "switch":
                succs.extend(b for _, b in t["ts"])
                succs.append(t["other"])
            elif k == "assert":
                succs.append(t["t"])
            fs = frozenset(st)
            for sx in succs:
                if sx >= nb or blocks[sx].get("cleanup"):
                    continue
                old = instate[sx]
                new = fs if old is None else (old | fs)
                if new != old:
                    instate[sx] = new
                    work.append(sx)
        return viol, n_calls_under, user_calls


GROWERS = {"extend_from_slice", "extend", "append", "push", "extend_from_within"}


def run(facts, rep):
    rep.rule("R-LOCK(a)", "no re-acquisition of a lock (same type+field) while one of its guards is live, directly "
             "or through a callee (MIR live ranges; std RwLock is not re-entrant)")
    rep.rule("R-LOCK(c)", "a whole-value store through a write guard in a &self function is dominated by an exiting "
             "branch whose condition reads the protected value through that same guard (re-check under the write lock)")
    rep.rule("R-LOCK(d)", "no shrinking call (clear/truncate/pop/drain/remove...) through a guard in a &self function")
    rep.rule("R-LOCK(b,e)", "certificates: protected values are reachable only through the lock API; no guard live "
             "across an indirect (caller-supplied) call")
    ml = MirLocks(facts)
    fields = lock_fields(facts)
    rep.extra["lock_fields"] = ["%s.%s: %s" % (tp, n, ty) for tp, n, _, ty in fields]
    rep.floor("R-LOCK", "lock-protected fields", len(fields), 3)
    acq_trans = ml.acquirers()
    n_acq = sum(len(s) for s in ml.sites.values())
    rep.floor("R-LOCK(a)", "lock acquisitions", n_acq, 10)
    for p in sorted(ml.sites):
        rep.fn(p)
        viol, n_under, user_calls = ml.analyse(p, acq_trans)
        rep.stats["call_sites"] += n_under
        owner = ml.owner(p)
        for bi, lid, kind, line in ml.sites[p]:
            rep.stats["paths"] += 1
        if not viol:
            rep.ok("R-LOCK(a)", p, "%d acquisition(s) of %s; no guard of the same lock is live at any acquisition and "
                   "none of the %d call(s) made under a guard reaches a function that locks it" %
                   (len(ml.sites[p]), ", ".join(sorted({"%s.%s" % l for _, l, _, _ in ml.sites[p]})), n_under),
                   facts.loc(owner), sample={"function": p, "acquisitions": [
                       {"lock": "%s.%s" % l, "kind": k, "line": ln} for _, l, k, ln in ml.sites[p]],
                       "calls_under_guard": n_under})
        for v in viol:
            if v[0] == "nested":
                _, lid, kind, held, line = v
                rep.violation("R-LOCK(a)", "%s/%s.%s/nested-%s" % (p, lid[0], lid[1], kind),
                              "%s() on %s.%s at line %s while a %s-guard of the same lock is still live: std's RwLock "
                              "is not re-entrant — this thread blocks forever (write) or may deadlock/panic (read)" %
                              ("write" if kind == "w" else "read", lid[0], lid[1], line,
                               "write" if held == "w" else "read"),
                              "%s:%s" % (facts.items.get(owner, {}).get("file", "?"), line))
            else:
                _, lid, tk, held, line = v
                rep.violation("R-LOCK(a)", "%s/%s.%s/calls/%s" % (p, lid[0], lid[1], tk),
                              "call to %s at line %s while a guard of %s.%s is live; the callee (transitively) acquires "
                              "the same lock: self-deadlock" % (tk, line, lid[0], lid[1]),
                              "%s:%s" % (facts.items.get(owner, {}).get("file", "?"), line))
        if user_calls:
            rep.unresolved("R-LOCK(b,e)", p, "indirect call(s) at line(s) %s while a guard is live" % user_calls,
                           facts.loc(owner))
        else:
            rep.ok("R-LOCK(b,e)", p, "no indirect call while a guard is live", facts.loc(owner), nontrivial=False)
    # (c),(d) on HIR
    n_pub = 0
    for p in sorted({ml.owner(q) for q in ml.sites}):
        body = facts.hir.get(p)
        it = facts.items.get(p)
        if body is None:
            continue
        self_ty = it["params"][0].get("ty", "") if it["params"] else ""
        exclusive = self_ty.startswith("&mut ")
        defs = Defs(body)
        # guard locals: let g = <expr containing .write()/.lock() on a lock field>
        wguards = {}
        for x in walk(body):
            if x.get("k") == "Let" and x["pat"].get("k") == "PBind" and "init" in x:
                for y in walk(x["init"]):
                    f = callee(y)
                    if f and f["def"] in ACQ and ACQ[f["def"]] == "w":
                        fld = strip(y["recv"])
                        wguards[x["pat"]["lid"]] = (x["pat"]["name"], fld.get("name", "?"))
        if not wguards:
            continue
        rguards = {}
        for x in walk(body):
            if x.get("k") == "Let" and x["pat"].get("k") == "PBind" and "init" in x:
                for y in walk(x["init"]):
                    f = callee(y)
                    if f and f["def"] in ACQ and ACQ[f["def"]] == "r":
                        rguards[x["pat"]["lid"]] = x["pat"]["name"]

        def mentions(cond, lid):
            """Does `cond`, followed through local definitions, read local `lid`?  Guard locals are leaves: what is
            later stored THROUGH a guard is not part of what the condition reads."""
            seen = set()
            work = [cond]
            while work:
                e = work.pop()
                for n in walk(e):
                    if n.get("k") == "Path" and n.get("res") == "local":
                        l = n["lid"]
                        if l == lid:
                            return True
                        if l in seen or l in wguards or l in rguards:
                            continue
                        seen.add(l)
                        work.extend(defs.defs.get(l, []))
            return False

        found = []

        def join(a, b):
            return a & b

        stale_hits = []

        def guard(n, st, sense, kind):
            if kind == "if":
                sibling = n.get("el") if sense else n["th"]
                if sibling is not None and facts.ty(sibling) == "!":
                    new = set(st)
                    for lid in wguards:
                        if mentions(n["c"], lid):
                            stale = [nm for rl_, nm in rguards.items() if mentions(n["c"], rl_)]
                            if stale:
                                stale_hits.append((lid, stale[0], n))
                            else:
                                new.add(lid)
                    return frozenset(new)
            return st

        def transfer(n, st):
            k = n.get("k")
            if k == "Assign":
                lhs = n["lhs"]
                if lhs.get("k") == "Un" and lhs.get("op") == "*":
                    rl = root_local(lhs)
                    inner = strip(lhs["e"]) if isinstance(lhs.get("e"), dict) else None
                    if rl and rl[0] in wguards and inner is not None and inner.get("k") == "Path":
                        found.append(("publish", rl[0], rl[0] in st, n))
            if k == "MCall" and n.get("name") in SHRINKERS:
                rl = root_local(n["recv"])
                if rl and rl[0] in wguards:
                    found.append(("shrink", rl[0], False, n))
            if k == "MCall" and n.get("name") in GROWERS and n.get("args"):
                rl = root_local(n["recv"])
                if rl and rl[0] in wguards:
                    found.append(("grow", rl[0], rl[0] in st, n))
            return st

        fl = Flow(facts, join, transfer, guard=guard, closure_mode="maybe")
        fl.run(body, frozenset())
        for kind, lid, ok, node in found:
            gname, fld = wguards[lid]
            n_pub += 1
            key = "%s/%s/%s" % (p, fld, kind)
            if exclusive:
                rep.ok("R-LOCK(c)" if kind == "publish" else "R-LOCK(d)", key,
                       "function takes &mut self: exclusive access, no concurrent observer", facts.loc(p, node), nontrivial=False)
            elif kind == "publish":
                if ok:
                    rep.ok("R-LOCK(c)", key, "whole-value store through `%s` is dominated by an exiting re-check that "
                           "reads the protected value through the same write guard" % gname, facts.loc(p, node),
                           sample={"function": p, "guard": gname, "field": fld})
                elif any(h[0] == lid for h in stale_hits):
                    h = [h for h in stale_hits if h[0] == lid][0]
                    rep.violation("R-LOCK(c)", key,
                                  "the re-check before `*%s = ...` (line %s) compares the protected value of `%s` with a "
                                  "value computed from the snapshot taken under the READ guard `%s`: if another thread "
                                  "grew the cache in between, the stale target makes this thread overwrite the longer array "
                                  "with its shorter one (shrunken cache observable)" %
                                  (gname, h[2].get("l"), fld, h[1]), facts.loc(p, node))
                else:
                    rep.violation("R-LOCK(c)", key,
                                  "`*%s = ...` replaces the whole protected value of `%s` without a re-check under the "
                                  "write lock (no dominating exiting branch reads it through `%s`): a length computed "
                                  "before the write lock was taken may be stale, so a shorter array can overwrite a "
                                  "longer one and readers observe a shrunken cache" % (gname, fld, gname),
                                  facts.loc(p, node))
            elif kind == "grow":
                # data appended at the END of the protected value: if it was computed from a snapshot taken under the read
                # guard (before the write lock), its position is right only if the length is still the snapshot's length
                data = node["args"][-1]
                from_snapshot = [nm for rl_, nm in rguards.items() if mentions(data, rl_)]
                positioned = mentions(data, lid)
                rechecked = any(h[0] == lid for h in stale_hits)      # an exiting check relating the current value to the snapshot
                if not from_snapshot:
                    rep.ok("R-LOCK(c)", key, "appended data does not derive from a snapshot taken before the write lock",
                           facts.loc(p, node), nontrivial=False)
                elif positioned or rechecked:
                    rep.ok("R-LOCK(c)", key, "data computed from the read-guard snapshot is appended %s" %
                           ("at an offset taken from the current value" if positioned else "after an exiting check against the snapshot"),
                           facts.loc(p, node), sample={"function": p, "guard": gname, "field": fld})
                else:
                    rep.violation("R-LOCK(c)", key,
                                  "`%s.%s(..)` appends data computed from the snapshot taken under the read guard `%s` (before the "
                                  "write lock) at the current end of `%s`, and nothing under the write lock relates the current "
                                  "length to the snapshot's: if another thread grew the cache in between, the elements land at "
                                  "the wrong positions (check-then-act) and every later reader uses wrong cache entries" %
                                  (gname, node.get("name"), from_snapshot[0], fld), facts.loc(p, node))
            else:
                rep.violation("R-LOCK(d)", key, "`.%s()` through write guard `%s` shrinks the shared cache `%s` in a "
                              "&self function" % (node.get("name"), gname, fld), facts.loc(p, node))
    rep.floor("R-LOCK(c)", "publish / mutation sites through write guards", n_pub, 2)
    # ---- (try): a non-blocking acquisition whose failure silently skips a publication
    rep.rule("R-LOCK(try)", "a try_write / try_read / try_lock on a protected cache is not used to guard a publication that is simply "
             "skipped when the lock is busy (the failure arm must diverge, retry, or acquire blocking), and is never unwrapped")
    TRY = {d for d in ACQ if "::try_" in d}
    n_try = 0
    from facts import Tree as _Tree
    # the expected count on a healthy tree is zero: a synthetic positive example must be recognised on every run
    _try = {"k": "MCall", "name": "try_write", "f": {"def": "std::sync::RwLock::<T>::try_write", "name": "try_write"}, "args": [],
            "recv": {"k": "Field", "name": "cache", "e": {"k": "Path", "res": "local", "lid": 1, "name": "self"}}}
    _lete = {"k": "LetE", "pat": {"k": "PBind", "lid": 2, "name": "g"}, "init": _try}
    _syn = {"k": "Block", "stmts": [{"k": "Expr", "e": {"k": "If", "c": _lete, "th": {"k": "Block", "stmts": [
        {"k": "Semi", "e": {"k": "Assign", "lhs": {"k": "Un", "op": "*", "e": {"k": "Path", "res": "local", "lid": 2, "name": "g"}},
                            "rhs": {"k": "Lit", "v": "0"}}}]}}}]}
    selftest = [False]

    class _SelfRep:
        def __getattr__(self, nm):
            def f(*a, **kw):
                if nm == "violation":
                    selftest[0] = True
            return f
    for p in ["<self-test>"] + sorted(facts.hir):
        body = _syn if p == "<self-test>" else facts.hir[p]
        calls = [x for x in walk(body) if x.get("k") == "MCall" and (callee(x) or {}).get("def") in TRY]
        if not calls:
            continue
        it = facts.items.get(p, {})
        if "::tests::" in p or it.get("kind") == "test":
            continue
        tree = _Tree(body)
        real_rep = rep
        if p == "<self-test>":
            rep = _SelfRep()
        else:
            rep.fn(p)
        for k_c, c in enumerate(calls):
            n_try += 0 if p == "<self-test>" else 1
            fld = strip(c["recv"]).get("name", "?")
            key = "%s/%s/try#%d" % (p, fld, k_c)
            up = tree.up(c)
            if up is not None and up.get("k") == "MCall" and up.get("name") in ("unwrap", "expect"):
                rep.violation("R-LOCK(try)", key, "`%s.%s().%s()` panics whenever another thread holds the lock: a concurrent caller "
                              "gets a panic instead of the result of a sequential execution" % (fld, c["name"], up["name"]),
                              facts.loc(p, c))
                continue
            cond_if = None
            if up is not None and up.get("k") == "LetE":
                u2 = tree.up(up)
                if u2 is not None and u2.get("k") == "If" and u2.get("c") is up:
                    cond_if = u2
            if cond_if is None:
                rep.unresolved("R-LOCK(try)", key, "result of %s() consumed by a form the rule does not read" % c["name"], facts.loc(p, c))
                continue
            stores = [y for y in walk(cond_if["th"]) if y.get("k") in ("Assign", "AssignOp") or
                      (y.get("k") == "MCall" and y.get("name") in GROWERS | {"insert", "resize", "copy_from_slice"})]
            el = cond_if.get("el")
            in_retry = tree.enclosing(cond_if, ("While", "Loop")) is not None
            handles = el is not None and (facts.ty(el) == "!" or any(
                y.get("k") == "MCall" and (callee(y) or {}).get("def") in ACQ and (callee(y) or {}).get("def") not in TRY
                for y in walk(el)) or any(y.get("k") in ("Ret", "Continue") for y in walk(el)))
            if not stores:
                rep.ok("R-LOCK(try)", key, "nothing is published under the non-blocking acquisition", facts.loc(p, c), nontrivial=False)
            elif handles or in_retry:
                rep.ok("R-LOCK(try)", key, "the failure arm %s" % ("is inside a retry loop" if in_retry else
                                                                    "diverges, returns or acquires blocking"), facts.loc(p, c))
            else:
                rep.violation("R-LOCK(try)", key, "the store into `%s` is made only if %s() succeeds and nothing happens otherwise: when "
                              "any other thread holds the lock at that moment (a reader, or a writer filling another entry) the entry "
                              "is left unfilled and the code that follows uses it as if it had been built" % (fld, c["name"]),
                              facts.loc(p, c))
        rep = real_rep
    if selftest[0]:
        rep.ok("R-LOCK(try)", "self-test", "the matcher recognises `if let Ok(g) = self.cache.try_write() { *g = .. }` as a skipped "
               "publication", "rules/r_lock.py", nontrivial=False)
    else:
        rep.violation("R-LOCK(try)", "self-test", "the try-acquisition matcher no longer recognises its positive example")
    rep.floor("R-LOCK(try)", "non-blocking acquisitions", n_try, 0)
    # ---- (split): one cache entry published in two critical sections
    rep.rule("R-LOCK(split)", "a &self function does not mutate the same lock-protected value under two separate write acquisitions "
             "(placeholder now, real value later): between the two critical sections other threads observe the intermediate value")
    n_split = 0
    for p in sorted({ml.owner(q) for q in ml.sites}):
        body = facts.hir.get(p)
        it = facts.items.get(p)
        if body is None or it is None:
            continue
        self_ty = it["params"][0].get("ty", "") if it["params"] else ""
        if self_ty.startswith("&mut "):
            continue
        guards = {}          # guard lid -> field name
        for x in walk(body):
            if x.get("k") == "Let" and x["pat"].get("k") == "PBind" and "init" in x:
                for y in walk(x["init"]):
                    f = callee(y)
                    if f and f["def"] in ACQ and ACQ[f["def"]] == "w" and "::try_" not in f["def"]:
                        guards[x["pat"]["lid"]] = strip(y["recv"]).get("name", "?")
        by_field = {}
        for x in walk(body):
            k = x.get("k")
            rl = None
            if k in ("Assign", "AssignOp"):
                rl = root_local(x["lhs"])
            elif k == "MCall" and x.get("name") in GROWERS | {"resize", "insert", "copy_from_slice", "fill", "clear", "truncate"}:
                rl = root_local(x["recv"])
            if rl and rl[0] in guards:
                by_field.setdefault(guards[rl[0]], {}).setdefault(rl[0], []).append(x)
        for fld, per_guard in by_field.items():
            n_split += 1
            key = "%s/%s/split" % (p, fld)
            if len(per_guard) >= 2:
                first = sorted(per_guard.items())[0][1][0]
                rep.violation("R-LOCK(split)", key, "`%s` is mutated under %d separate write acquisitions in this &self function: the value "
                              "stored in the first critical section (a placeholder) is visible to every other thread until the second "
                              "one replaces it — a thread that tests the entry in between uses the placeholder as the real value" %
                              (fld, len(per_guard)), facts.loc(p, first))
            else:
                rep.ok("R-LOCK(split)", key, "`%s` is mutated under a single write acquisition" % fld, facts.loc(p), nontrivial=False)
    rep.floor("R-LOCK(split)", "(function, lock) pairs with mutations through write guards", n_split, 2)
    im = interior_mutable_fields(facts)
    rep.extra["interior_mutable_fields"] = ["%s.%s: %s" % x for x in im]
    return ml
