"""R-LADDER — the parameter-validation ladder and the chain's reproducibility (property C13).

HeContext::validate:
 (L1) every early `return` is reached with a non-Success ErrorType stored (state tracked through the
      function by forward dataflow); the tail return is reached only with Success still stored;
 (L2) after a non-Success store nothing but `return` follows (a failed precondition test does not fall
      through into the computations that assume it);
 (L3) every ErrorType variant except None/Success is stored somewhere in validate;
 (L4) every unwrap()/expect() on a local in validate is dominated by the matching is_err()/is_none() /
      `if let` test that returns early — the ladder reports, it does not panic;
 (L5) parameters_set() is exactly `matches!(parameter_error, Success)`.
Precondition-to-guard chain [N]:
 (P1) RNSBase::new refuses inside a loop nest over all index pairs (i over 0..len, j over 0..i) on
      !are_coprime(base[i], base[j]);
 (P2) validate <- create_ntt_tables <- NTTTables::new <- try_minimal_primitive_root <- try_primitive_root:
      each link turns its callee's refusal into its own refusal on every normal path, and
      try_primitive_root refuses through a branch computed from both the degree and the modulus.
Identifier recomputation and determinism:
 (I1) compute_parms_id reads every hashed field of EncryptionParameters (all fields except the two table-
      listed exclusions);
 (I2) every method of EncryptionParameters that writes a hashed field calls compute_parms_id afterwards on
      every normally-returning path;
 (I3) no entropy / time / address / hash-map iteration is reachable from compute_parms_id.
"""
from facts import walk, callee, target_key, root_local, strip, local_of, Defs, Tree, pat_bindings
from flow import Flow, cond_atoms
import r_guard

NONDET_PREFIX = ("rand::", "std::time::", "std::collections::hash::map::HashMap", "std::collections::HashMap",
                 "rand_chacha::", "std::thread::", "getrandom::", "rand_core::", "std::collections::hash::set")


def _err_variant(e):
    e = strip(e)
    if e.get("k") == "Path" and "ErrorType::" in e.get("def", ""):
        return e["def"].rsplit("::", 1)[1]
    return None


def validate_family(facts, v):
    """validate plus the local helper functions of src/context.rs it reaches (reporters such as `invalid(c, err)`,
    sub-validators returning Result<_, ErrorType>)"""
    fam, work = [v], [v]
    file = facts.items[v]["file"]
    while work:
        g = work.pop()
        for x in walk(facts.hir[g]):
            f = callee(x)
            if f and f.get("local"):
                d = target_key(f) if target_key(f) in facts.hir else f["def"]
                if d in facts.hir and d not in fam and facts.items.get(d, {}).get("file") == file and \
                        facts.items[d].get("kind") in ("fn", "assoc_fn", "method", None, "Fn", "AssocFn"):
                    fam.append(d)
                    work.append(d)
    return fam


def _is_perr_store(n):
    if n.get("k") == "Assign":
        lhs = n["lhs"]
        if lhs.get("k") == "Field" and lhs.get("name") == "parameter_error":
            return True
    return False


def reporters(facts, fam):
    """family function -> index of the parameter it stores into `.parameter_error`"""
    out = {}
    for g in fam:
        plids = {p["pat"]["lid"]: j for j, p in enumerate(facts.items[g]["params"]) if p["pat"].get("k") == "PBind"}
        for x in walk(facts.hir[g]):
            if _is_perr_store(x):
                lo = local_of(x["rhs"])
                if lo and lo[0] in plids:
                    out[g] = plids[lo[0]]
    return out


def report_sites(facts, fam, reps):
    """(function, variant or '?', node, kind) for every place an ErrorType is reported: direct store (A), reporter call
    (B), `Err(ErrorType::V)` in a sub-validator (C)"""
    out = []
    for g in fam:
        ret = facts.items[g].get("ret", "")
        for x in walk(facts.hir[g]):
            if _is_perr_store(x):
                lo = local_of(x["rhs"])
                plids = {p["pat"]["lid"] for p in facts.items[g]["params"] if p["pat"].get("k") == "PBind"}
                if lo and lo[0] in plids:
                    continue                      # the reporter's own store: accounted at its call sites
                out.append((g, _err_variant(x["rhs"]) or "?", x, "A"))
            elif x.get("k") == "Call":
                f = callee(x)
                d = (target_key(f) if f and target_key(f) in reps else (f or {}).get("def"))
                if d in reps and reps[d] < len(x["args"]):
                    out.append((g, _err_variant(x["args"][reps[d]]) or "?", x, "B"))
                elif "ErrorType" in ret and (x.get("ctor", "") or (f or {}).get("def", "")).endswith("::Err") and x["args"]:
                    v = _err_variant(x["args"][0])
                    if v:
                        out.append((g, v, x, "C"))
    return out


def run_validate(facts, rep):
    R = "R-LADDER"
    rep.rule(R, "validate: early returns carry a non-Success error; nothing follows an error store but return; every "
             "ErrorType variant is used; unwraps are dominated by their tests; parameters_set == matches!(error, Success)")
    v = "context::HeContext::validate"
    if not rep.anchor(R, v, v in facts.hir):
        return
    rep.fn(v)
    body = facts.hir[v]
    fam = validate_family(facts, v)
    reps = reporters(facts, fam)
    sites = report_sites(facts, fam, reps)
    for g in fam[1:]:
        if g in reps or any(s[0] == g for s in sites):
            rep.fn(g)
    stored = {s[1] for s in sites}

    def is_err_store(n):
        if _is_perr_store(n):
            return _err_variant(n["rhs"]) or "?"
        if n.get("k") == "Call":
            f = callee(n)
            d = (target_key(f) if f and target_key(f) in reps else (f or {}).get("def"))
            if d in reps and reps[d] < len(n["args"]):
                return _err_variant(n["args"][reps[d]]) or "?"
        return None

    # (L1) forward: last stored variant
    def transfer(n, st):
        ev = is_err_store(n)
        if ev is not None:
            return ev
        return st

    fl = Flow(facts, lambda a, b: a if a == b else "?", transfer, closure_mode="skip")
    fl.run(body, "unset")
    early = [(st, node) for st, node in fl.rets if node.get("k") == "Ret"]
    tail = [(st, node) for st, node in fl.rets if node.get("k") != "Ret"]
    early.sort(key=lambda t: (t[1].get("l", 0), t[1].get("c", 0)))
    for k, (st, node) in enumerate(early):
        if st == "Success" or st == "unset":
            rep.violation(R, "%s/early-return-with-success#%d" % (v, k),
                          "an early return (line %s) is reached while the stored error is still Success: the context "
                          "reports its parameters as set although the test that led here failed" % node.get("l"),
                          facts.loc(v, node))
    if all(st not in ("Success", "unset") for st, _ in early):
        rep.ok(R, v + "/L1", "all %d early returns carry a non-Success error" % len(early), facts.loc(v),
               sample={"early_returns": len(early), "variants": sorted(stored)})
    for st, node in tail:
        if st != "Success":
            rep.violation(R, v + "/tail", "the final return can be reached with error state `%s`: an error was stored "
                          "without returning" % st, facts.loc(v, node))
        else:
            rep.ok(R, v + "/tail", "the final return is reached only with Success stored", facts.loc(v), nontrivial=False)
    # sub-validators: their Err must be turned into a report by the caller
    subs = {g for g, _, _, kind in sites if kind == "C"}
    for g in sorted(subs):
        callers = [(h, x) for h in fam for x in walk(facts.hir[h]) if x.get("k") == "Call" and callee(x) and
                   (target_key(callee(x)) == g or callee(x)["def"] == g)]
        for h, x in callers:
            hb = facts.hir[h]
            consumed = False
            for y in walk(hb):
                if y.get("k") in ("PStruct", "PTupleStruct") and y.get("path", "").endswith("::Err"):
                    for lid, _ in pat_bindings(y):
                        for z in walk(hb):
                            if (_is_perr_store(z) and (local_of(z["rhs"]) or (None,))[0] == lid) or \
                                    (is_err_store(z) is not None and z.get("k") == "Call" and
                                     any((local_of(a) or (None,))[0] == lid for a in z["args"])):
                                consumed = True
                if y.get("k") == "Try" and any(w is x for w in walk(y)):
                    consumed = True
            key = "%s/consumes/%s" % (h, g.rsplit("::", 1)[1])
            if consumed:
                rep.ok(R, key, "the error returned by %s is stored as the parameter error by its caller" % g, facts.loc(h, x))
            else:
                rep.violation(R, key, "%s returns its failure as Err(ErrorType) but %s does not store it: the failed "
                              "precondition is not reported" % (g, h), facts.loc(h, x))
    # (L2) each error store is immediately followed by `return` in its block
    bad2 = []
    n_stores = sum(1 for s in sites if s[1] != "Success")
    for g in fam:
        for b in walk(facts.hir[g]):
            if b.get("k") != "Block":
                continue
            stmts = b.get("stmts", [])
            for i, s in enumerate(stmts):
                e = s.get("e") if s.get("k") in ("Semi", "Expr") else None
                if e is None or not any(e is st[2] for st in sites if st[3] == "A"):
                    continue
                ev = _err_variant(e["rhs"]) or "?"
                if ev == "Success":
                    continue
                nxt = stmts[i + 1] if i + 1 < len(stmts) else None
                nxt_e = (nxt.get("e") if nxt and nxt.get("k") in ("Semi", "Expr") else None) or (b.get("expr") if nxt is None else None)
                if not (isinstance(nxt_e, dict) and nxt_e.get("k") == "Ret"):
                    bad2.append((ev, e, g))
    for ev, e, g in bad2:
        rep.violation(R, "%s/no-return-after/%s" % (v, ev), "ErrorType::%s is stored (line %s) but validation continues "
                      "instead of returning: later steps assume the failed precondition and may panic or overwrite the "
                      "specific error" % (ev, e.get("l")), facts.loc(g, e))
    if not bad2:
        rep.ok(R, v + "/L2", "each direct error store is followed directly by `return` (%d report sites in %d function(s))" %
               (n_stores, len({s[0] for s in sites})), facts.loc(v))
    rep.floor(R, "error stores in validate", n_stores, 14)
    # (L6) the range tests compare with the documented bounds
    RANGE = {"InvalidCoeffModulusBitCount": ({60, 2}, "2-to-60-bit coefficient moduli"),
             "InvalidPlainModulusBitCount": ({60, 2}, "2-to-60-bit plain modulus"),
             "InvalidCoeffModulusSize": ({64, 1}, "1 to 64 coefficient moduli"),
             "InvalidPolyModulusDegree": ({131072, 2}, "degree between 2 and 2^17")}
    trees = {g: (Tree(facts.hir[g]), Defs(facts.hir[g])) for g in fam}
    for g, ev, x, kind in sites:
        if ev not in RANGE:
            continue
        tree, defs = trees[g]
        gd = tree.enclosing(x, ("If",))
        want, text = RANGE[ev]
        vals = set()
        names = []
        if gd is not None:
            for y in defs.closure(gd["c"]):
                if y.get("k") == "Path" and y.get("res") not in ("local", None) and y.get("def"):
                    c = facts.consts.get(y["def"])
                    if c and c.get("value") is not None:
                        vals.add(int(c["value"]))
                        names.append(y["def"].rsplit("::", 1)[1])
                if y.get("k") == "Lit" and str(y.get("v", "")).split("_")[0].isdigit():
                    vals.add(int(str(y["v"]).split("_")[0]))
        key = "%s/range/%s" % (v, ev)
        if all(w in vals for w in want):
            rep.ok(R, key, "the test reporting %s compares with the documented bounds (%s): constants {%s}" %
                   (ev, text, ", ".join(sorted(set(names)))), facts.loc(g, x), sample={"error": ev, "constants": sorted(set(names))})
        else:
            rep.violation(R, key, "the test reporting %s compares with constants {%s} (values %s) instead of the documented "
                          "bounds %s (%s): parameters outside the documented range are accepted or valid ones refused" %
                          (ev, ", ".join(sorted(set(names))), sorted(vals), sorted(want), text), facts.loc(g, x))
    # (L3) enum coverage
    et = facts.types.get("encryption_parameters::ErrorType")
    if rep.anchor(R, "ErrorType", et is not None):
        variants = [x["name"] for x in et["variants"] if x["name"] not in ("None", "Success")]
        missing = [x for x in variants if x not in stored]
        if missing:
            rep.violation(R, v + "/unused-variants", "ErrorType variant(s) {%s} are never stored by validate: the precondition "
                          "they name is not tested (or tested without being reported)" % ", ".join(missing), facts.loc(v))
        else:
            rep.ok(R, v + "/L3", "all %d ErrorType variants are produced" % len(variants), facts.loc(v))
    # (L4) unwraps dominated by their tests
    tested_hits = []

    def guard(n, st, sense, kind):
        if kind == "if":
            sib = n.get("el") if sense else n["th"]
            if sib is not None and facts.ty(sib) == "!":
                new = set(st)
                for atom, truth in cond_atoms(n["c"], bool(sense)):
                    x = strip(atom)
                    if x.get("k") == "MCall":
                        lo = local_of(x["recv"])
                        # on the continuing side we know: is_err()/is_none() is false, or is_ok()/is_some() is true
                        if lo and ((x.get("name") in ("is_err", "is_none") and not truth) or
                                   (x.get("name") in ("is_ok", "is_some") and truth)):
                            new.add(lo[1])
                return frozenset(new)
        return st

    unwraps = []

    def tr4(n, st):
        if n.get("k") == "MCall" and n.get("name") in ("unwrap", "expect"):
            lo = local_of(n["recv"])
            if lo is not None:
                unwraps.append((lo[1], lo[1] in st, n))
        if n.get("k") == "Let" and n["pat"].get("k") == "PBind":
            # shadowing: `let x = x.unwrap()` keeps the fact only for the old binding; names suffice here
            return st
        return st

    f4 = Flow(facts, lambda a, b: a & b, tr4, guard=guard, closure_mode="skip")
    f4.run(body, frozenset())
    for name, ok, node in unwraps:
        key = "%s/unwrap/%s" % (v, name)
        if ok:
            rep.ok(R, key, "`%s.unwrap()` is dominated by its is_err/is_none early return" % name, facts.loc(v, node))
        else:
            rep.violation(R, key, "`%s.unwrap()` (line %s) is not dominated by a test that returns an error: invalid "
                          "parameters make the constructor panic instead of reporting" % (name, node.get("l")),
                          facts.loc(v, node))
    # (L5)
    ps = "encryption_parameters::EncryptionParameterQualifiers::parameters_set"
    if rep.anchor(R, ps, ps in facts.hir):
        rep.fn(ps)
        b = facts.hir[ps]
        good = False
        for x in walk(b):
            if x.get("k") == "Match" and any(y.get("k") == "Field" and y.get("name") == "parameter_error" for y in walk(x["e"])):
                arms = x["arms"]
                t = [a for a in arms if a["pat"].get("path", "").endswith("ErrorType::Success") and
                     strip(a["body"]).get("v") == "true"]
                o = [a for a in arms if a["pat"].get("k") == "PWild" and strip(a["body"]).get("v") == "false"]
                good = len(t) == 1 and len(o) == 1 and len(arms) == 2
        if good:
            rep.ok(R, ps, "parameters_set() is matches!(parameter_error, ErrorType::Success)", facts.loc(ps))
        else:
            rep.violation(R, ps, "parameters_set() is no longer exactly `matches!(parameter_error, Success)`", facts.loc(ps))


def _ctx(body, node):
    return "l%s" % node.get("l")


def run_chain(facts, rep):
    R = "R-LADDER(chain)"
    rep.rule(R, "the mathematical preconditions reach the ladder: RNSBase::new refuses inside an all-pairs loop nest on "
             "!are_coprime; each link validate <- create_ntt_tables <- NTTTables::new <- try_minimal_primitive_root <- "
             "try_primitive_root turns its callee's refusal into its own, and try_primitive_root refuses on a branch "
             "computed from degree and modulus")
    # (P1)
    p = "util::rns::RNSBase::new"
    if rep.anchor(R, p, p in facts.hir):
        rep.fn(p)
        body = facts.hir[p]
        tree = Tree(body)
        eng = r_guard.GuardEngine(facts, refusal_values=("Err", "false"))
        found = False
        for x in walk(body):
            if x.get("k") == "If" and eng.refuses(x["th"]):
                calls = [y for y in walk(x["c"]) if (callee(y) or {}).get("name") == "are_coprime"]
                if not calls:
                    continue
                fors = [a for a in tree.ancestors(x) if a.get("k") == "For"]
                if len(fors) < 2:
                    continue
                inner, outer = fors[0], fors[1]
                vi = inner["pat"].get("name")
                vo = outer["pat"].get("name")
                idx = set()
                for a in calls[0]["args"]:
                    for y in walk(a):
                        if y.get("k") == "Index":
                            lo = local_of(y["i"])
                            if lo:
                                idx.add(lo[1])
                so, eo = _range(outer)
                si, ei = _range(inner)
                full_outer = so is not None and strip(so).get("v") == "0" and eo is not None and \
                    any((callee(y) or {}).get("name") == "len" for y in Defs(body).closure(eo))
                tri = si is not None and strip(si).get("v") == "0" and ei is not None and (local_of(ei) or (0, ""))[1] == vo
                if idx == {vi, vo} and full_outer and tri:
                    found = True
                    rep.ok(R, p + "/all-pairs", "refusal on !are_coprime(base[%s], base[%s]) inside `for %s in 0..len` / "
                           "`for %s in 0..%s`: every pair is tested" % (vo, vi, vo, vi, vo), facts.loc(p, x),
                           sample={"outer": vo, "inner": vi})
        if not found:
            rep.violation(R, p + "/all-pairs", "RNSBase::new no longer refuses on !are_coprime for every index pair (loop nest "
                          "over 0..len x 0..i with both loop variables as indices): a base with a non-coprime pair can be "
                          "accepted and the context reports its parameters as set", facts.loc(p))
    # (P2) refusal propagation chain
    links = [("util::ntt::NTTTables::create_ntt_tables", "new", "Err"),
             ("util::ntt::NTTTables::new", "try_minimal_primitive_root", "Err"),
             ("util::number_theory::try_minimal_primitive_root", "try_primitive_root", "false")]
    for fpath, cal, refusal in links:
        if not rep.anchor(R, fpath, fpath in facts.hir):
            continue
        rep.fn(fpath)
        body = facts.hir[fpath]
        eng = r_guard.GuardEngine(facts, refusal_values=("Err", "false"))
        hit = [False]
        leaks = []

        def guard(n, st, sense, kind, cal=cal, eng=eng):
            if kind == "if":
                sib = n.get("el") if sense else n["th"]
                if sib is not None and eng.refuses(sib) and any((callee(y) or {}).get("name") == cal for y in walk(n["c"])):
                    return True
            return st

        def transfer(n, st, cal=cal):
            return st

        # every call to `cal` must sit in the condition of a refusing branch (or be matched with an Err arm that refuses)
        tree = Tree(body)
        calls = [y for y in walk(body) if (callee(y) or {}).get("name") == cal and
                 (cal != "new" or "NTTTables" in (callee(y) or {}).get("def", ""))]
        okc = 0
        for c in calls:
            good = False
            for a in tree.ancestors(c):
                if a.get("k") == "If":
                    in_cond = any(y is c for y in walk(a["c"]))
                    if in_cond and (eng.refuses(a["th"]) or (a.get("el") is not None and eng.refuses(a["el"]))):
                        good = True
                    break
                if a.get("k") == "Try":
                    good = True
                    break
                if a.get("k") == "Match" and any(y is c for y in walk(a["e"])):
                    # match callee(..) { Ok(x) => .., Err(_) => return Err(..) }: some non-success arm refuses
                    for arm in a["arms"]:
                        pn = arm["pat"].get("path", "").rsplit("::", 1)[-1]
                        if (pn in ("Err", "None") or arm["pat"].get("k") == "PWild" or
                                (arm["pat"].get("k") == "PLit" and arm["pat"].get("v") == "false")) and eng.refuses(arm["body"]):
                            good = True
                    break
            if good:
                okc += 1
            else:
                leaks.append(c)
        key = "%s/propagates/%s" % (fpath, cal)
        if calls and not leaks:
            rep.ok(R, key, "the refusal of %s is turned into a refusal of %s at all %d call site(s)" % (cal, fpath, len(calls)),
                   facts.loc(fpath, calls[0]))
        elif not calls:
            rep.violation(R, key, "%s no longer calls %s: the precondition (modulus = 1 mod 2N) is not enforced through this "
                          "chain" % (fpath, cal), facts.loc(fpath))
        else:
            rep.violation(R, key, "%s ignores the refusal of %s (line %s): a modulus that is not 1 mod 2N is accepted" %
                          (fpath, cal, leaks[0].get("l")), facts.loc(fpath, leaks[0]))
    tp = "util::number_theory::try_primitive_root"
    if rep.anchor(R, tp, tp in facts.hir):
        rep.fn(tp)
        eng = r_guard.GuardEngine(facts, refusal_values=("false",), track_scalars=True)
        body = facts.hir[tp]
        it = facts.items[tp]
        defs = Defs(body, facts)
        ok = False
        # first statement-level refusing branch whose condition is computed from `degree` and `modulus`, before the search loop
        for s in body.get("stmts", []):
            e = s.get("e") if s.get("k") in ("Semi", "Expr") else None
            if isinstance(e, dict) and e.get("k") in ("Loop", "While", "For"):
                break
            if isinstance(e, dict) and e.get("k") == "If" and eng.refuses(e["th"]):
                names = defs.param_names(e["c"], it)
                if {"degree", "modulus"} <= names:
                    ok = True
        if ok:
            rep.ok(R, tp + "/divisibility", "refuses (returns false) on a branch computed from degree and modulus before the "
                   "search", facts.loc(tp))
        else:
            rep.violation(R, tp + "/divisibility", "try_primitive_root no longer refuses up front on a branch computed from both "
                          "the degree and the modulus (2N | q-1): a non-NTT-friendly modulus can reach the search loop",
                          facts.loc(tp))
    # validate consumes both
    v = "context::HeContext::validate"
    if v in facts.hir:
        names = {(callee(y) or {}).get("name") for g in validate_family(facts, v) for y in walk(facts.hir[g])}
        for need, why in (("create_ntt_tables", "moduli = 1 mod 2N"), ("new", "pairwise coprime (RNSBase::new)"),
                          ("are_coprime", "plain modulus coprime to every prime"), ("max_bit_count", "security bound")):
            if need in names:
                rep.ok(R, "%s/uses/%s" % (v, need), "validate consults %s (%s)" % (need, why), facts.loc(v), nontrivial=False)
            else:
                rep.violation(R, "%s/uses/%s" % (v, need), "validate no longer consults %s: precondition `%s` is not tested" %
                              (need, why), facts.loc(v))


def _range(f):
    it = strip(f["iter"])
    if it.get("k") == "Struct":
        d = {x["name"]: x["e"] for x in it["fields"]}
        return d.get("start"), d.get("end")
    return None, None


def run_ident(facts, rep):
    R = "R-LADDER(id)"
    rep.rule(R, "compute_parms_id reads every hashed field; every method that writes a hashed field recomputes the "
             "identifier afterwards; nothing nondeterministic is reachable from compute_parms_id")
    tp = "encryption_parameters::EncryptionParameters"
    cp = tp + "::compute_parms_id"
    t = facts.types.get(tp)
    if not (rep.anchor(R, tp, t is not None) and rep.anchor(R, cp, cp in facts.hir)):
        return
    rep.fn(cp)
    EXCL = {"parms_id": "the identifier itself", "use_special_prime_for_encryption": "not part of the hashed identity (table row)"}
    fields = [f["name"] for f in t["variants"][0]["fields"]]
    hashed = [f for f in fields if f not in EXCL]
    read = {x["name"] for x in walk(facts.hir[cp]) if x.get("k") == "Field" and (local_of(x["e"]) or (0, ""))[1] == "self"}
    missing = [f for f in hashed if f not in read]
    if missing:
        rep.violation(R, cp + "/coverage", "compute_parms_id does not read field(s) {%s}: two parameter sets differing only "
                      "there get the same identifier" % ", ".join(missing), facts.loc(cp))
    else:
        rep.ok(R, cp + "/coverage", "hashes every identity field {%s}" % ", ".join(hashed), facts.loc(cp),
               sample={"hashed": hashed, "excluded": EXCL})
    # (I2)
    n = 0
    for p in sorted(facts.methods_of(tp)):
        if p == cp:
            continue
        body = facts.hir[p]
        it = facts.items[p]
        writes = []
        for x in walk(body):
            if x.get("k") in ("Assign", "AssignOp"):
                lhs = x["lhs"]
                base = lhs
                while base.get("k") in ("Index", "Un"):
                    base = base["e"]
                if base.get("k") == "Field" and base.get("name") in hashed and (root_local(base) or (0, ""))[1] in ("self", "ret"):
                    writes.append((base["name"], x))
            if x.get("k") == "Struct" and x.get("path", "").endswith("EncryptionParameters"):
                writes.append(("<construct>", x))
        if not writes:
            continue
        n += 1
        rep.fn(p)

        def tr(nd, st):
            if nd.get("k") in ("Assign", "AssignOp"):
                for nm, w in writes:
                    if w is nd:
                        return False
            if nd.get("k") == "Struct":
                for nm, w in writes:
                    if w is nd:
                        return False
            if nd.get("k") == "MCall" and nd.get("name") == "compute_parms_id":
                return True
            return st

        fl = Flow(facts, lambda a, b: a and b, tr, closure_mode="maybe")
        fl.run(body, True)
        stale = [node for st, node in fl.rets if not st]
        key = "%s/recompute" % p
        if stale:
            rep.violation(R, key, "%s writes hashed field `%s` and can return without recomputing the identifier: parties "
                          "building the same parameters in a different order disagree on parms_id" % (p, writes[0][0]),
                          facts.loc(p, writes[0][1]))
        else:
            rep.ok(R, key, "writes {%s} and recomputes the identifier on every path" %
                   ", ".join(sorted({nm for nm, _ in writes})), facts.loc(p))
    rep.floor(R, "methods writing hashed fields", n, 4)
    # (I3)
    reach = facts.reachable([cp])
    bad = []
    for q in reach:
        for x in walk(facts.hir.get(q, {})):
            f = callee(x)
            if f and f["def"].startswith(NONDET_PREFIX):
                bad.append((q, f["def"], x))
    if bad:
        rep.violation(R, cp + "/determinism", "%s (reachable from compute_parms_id) calls %s: the identifier is no longer a "
                      "function of the parameters alone" % (bad[0][0], bad[0][1]), facts.loc(bad[0][0], bad[0][2]))
    else:
        rep.ok(R, cp + "/determinism", "no entropy/time/hash-map iteration reachable from compute_parms_id (%d function(s))" %
               len(reach), facts.loc(cp))


def run_hashin(facts, rep):
    """R-LADDER(hashin): the words hashed into a parms_id are stored at pairwise distinct positions of the hash input —
    a store that lands on another field's slot makes the identifier independent of that field (collisions between
    different parameter sets)."""
    from r_slotmod import Sym, padd, pmul, pconst, patom, psubst, pshow, atoms_of
    R = "R-LADDER(hashin)"
    rep.rule(R, "every parameter word of the parms_id hash input has its own position: cursor stores are each followed by the "
             "cursor's increment, explicit positions are pairwise distinct for every chain length >= 1")
    p = "encryption_parameters::EncryptionParameters::compute_parms_id"
    if not rep.anchor(R, p, p in facts.hir):
        return 0
    rep.fn(p)
    body = facts.hir[p]
    # the buffer handed to the hash
    buf = None
    for x in walk(body):
        if x.get("k") == "Call" and (callee(x) or {}).get("name") == "hash" and x["args"]:
            buf = root_local(x["args"][0])
    if buf is None:
        rep.unresolved(R, "buffer", "no call to hash::hash with a local buffer found", facts.loc(p))
        return 0
    stores = [x for x in walk(body) if x.get("k") == "Assign" and strip(x["lhs"]).get("k") == "Index" and
              (root_local(strip(x["lhs"])["e"]) or (None,))[0] == buf[0]]
    if not stores:
        rep.ok(R, "positions", "the hash input is built by appends only (each word gets the next position)", facts.loc(p),
               nontrivial=False)
        return 1
    sym = Sym(facts, body)
    tree = Tree(body)
    cursor_ok, explicit = [], []
    for st in stores:
        idx = strip(strip(st["lhs"])["i"])
        lo = local_of(idx)
        mutable = lo is not None and lo[0] not in sym.lets and lo[0] not in sym.loopvars
        if mutable:
            # cursor form: the next statement of the same block increments the cursor (or this is the last store)
            blk = tree.enclosing(st, ("Block",))
            stmts = blk.get("stmts", []) if blk else []
            pos = [i for i, s in enumerate(stmts) if s.get("e") is st or any(y is st for y in walk(s))]
            nxt = stmts[pos[0] + 1] if pos and pos[0] + 1 < len(stmts) else None
            ne = strip(nxt.get("e")) if nxt is not None and nxt.get("k") in ("Semi", "Expr") else {}
            inc = ne.get("k") == "AssignOp" and ne.get("op", "").startswith("+") and \
                local_of(ne["lhs"]) is not None and local_of(ne["lhs"])[0] == lo[0]
            later = [t for t in stores if (t.get("l", 0), t.get("c", 0)) > (st.get("l", 0), st.get("c", 0))]
            cursor_ok.append((st, inc or not later))
        else:
            explicit.append((st, sym.poly(idx)))
    bad = [st for st, ok in cursor_ok if not ok]
    for st in bad:
        rep.violation(R, "cursor", "a word is stored at the running cursor (line %s) without advancing it before the next "
                      "store: the next word overwrites it and the identifier no longer depends on it" % st.get("l"),
                      facts.loc(p, st))
    if cursor_ok and not bad:
        rep.ok(R, "cursor", "each of the %d cursor stores is followed by the cursor's increment" % len(cursor_ok), facts.loc(p))

    def ge1(poly):
        """poly >= 0 for every value of the loop variables in range and every length atom >= 1?"""
        q = sym.bound(poly, False)
        if q is None:
            return False
        for a in list(atoms_of(q)):
            if a.startswith("len("):
                q = psubst(q, a, padd(patom(a), pconst(1)))
        return all(c >= 0 for c in q.values())

    n_pairs = 0
    for i in range(len(explicit)):
        for j in range(i + 1, len(explicit)):
            (sa, pa), (sb, pb) = explicit[i], explicit[j]
            if not isinstance(pa, dict) or not isinstance(pb, dict):
                continue
            n_pairs += 1
            d = padd(pa, pb, -1)
            key = "positions/%d-%d" % (i, j)
            dm1 = padd(d, pconst(1), -1)                       # d - 1 >= 0  <=>  d > 0
            md = pmul(d, pconst(-1))
            mdm1 = padd(md, pconst(1), -1)                     # -d - 1 >= 0 <=>  d < 0
            if ge1(dm1) or ge1(mdm1):
                rep.ok(R, key, "positions %s and %s never coincide" % (pshow(pa), pshow(pb)), facts.loc(p, sb), nontrivial=False)
                continue
            # collision: d == 0 has a solution inside the loop range
            lvs = [a for a in atoms_of(d) if a in sym.ranges]
            hit = not d
            if len(lvs) == 1:
                a = lvs[0]
                coef = [c for m, c in d.items() if m == (a,)]
                if len(coef) == 1 and abs(coef[0]) == 1 and all(a not in m or m == (a,) for m in d):
                    rest = {m: c for m, c in d.items() if m != (a,)}
                    sol = pmul(rest, pconst(-coef[0]))             # a = sol
                    lo_, hi_ = sym.ranges[a]
                    if ge1(padd(sol, lo_, -1)) and ge1(padd(padd(hi_, sol, -1), pconst(1), -1)):
                        hit = True
            if hit:
                rep.violation(R, key, "two words of the parms_id hash input are stored at positions %s and %s, which coincide "
                              "(for every chain length >= 1): one overwrites the other, so parameter sets differing only in "
                              "the overwritten word share an identifier" % (pshow(pa), pshow(pb)), facts.loc(p, sb))
            else:
                rep.unresolved(R, key, "positions %s and %s not provably distinct" % (pshow(pa), pshow(pb)), facts.loc(p, sb))
    return 1 + n_pairs
