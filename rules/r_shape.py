"""R-SHAPE — symbolic buffer dimensions at calls into the polynomial / RNS layers (C02, C10).

Symbols are accessor chains on named roots (`size(encrypted2)`, `len(base_Bsk)`, ...), obtained by expanding
single-definition local lets.  A buffer's length is the multiset of factors of its allocation
(`vec![0; a*b*c]`) or, for `x.data()/data_mut()`, `size(x)*N*K`.

(count) [N]  for every call  `polysmallmod::*_ps(buf.., pcount, degree, moduli|tables)`  the polynomial
       count handed over must be the buffer's OWN count: if the buffer's length carries the accessor
       `A(rootB)` while the call passes `A(rootA)` for a different root (operand 2's buffer processed with
       operand 1's size), the transform covers only part of the buffer or runs past its end — for operands
       of different sizes the product is wrong or the call panics.  Equal => ok; anything not expressible
       as "same accessor, different root" => unresolved (never an alarm).
(conv)  [N]  every `BaseConverter::fast_convert_array / exact_convey_array` call inside RNSTool passes as
       input a buffer whose base-size factor is the converter's own input base and as output its output
       base, where converter fields are tied to (ibase, obase) by RNSTool::new's own constructor calls.
"""
from facts import walk, callee, strip, local_of, Defs, root_local, target_key
from r_encbound import factors


def chain_of(e, defs, depth=0):
    """(accessor chain tuple, root name) for x.a().b()  /  locals defined by such chains."""
    e = strip(e)
    names = []
    for _ in range(12):
        k = e.get("k")
        if k == "MCall" and not e["args"]:
            names.append(e["name"])
            e = strip(e["recv"])
        elif k == "MCall" and e.get("name") in ("unwrap", "clone", "as_ref", "borrow"):
            e = strip(e["recv"])
        elif k == "Field":
            names.append("." + e["name"])
            e = strip(e["e"])
        elif k == "Cast":
            e = strip(e["e"])
        elif k == "Path":
            if e.get("res") == "local":
                ds = defs.defs.get(e["lid"], [])
                if len(ds) == 1 and depth < 6 and names == []:
                    sub = chain_of(ds[0], defs, depth + 1)
                    if sub:
                        return sub
                return (tuple(names), e["name"])
            return (tuple(names), e.get("def", "?").rsplit("::", 1)[-1])
        else:
            return None
    return None


def resolve_root(name_lid, defs, params, depth=0):
    """Follow `let y = x.clone()` chains to the parameter a local is a copy of; returns parameter name or None."""
    lid, name = name_lid
    if lid in params:
        return params[lid]
    ds = defs.defs.get(lid, [])
    if len(ds) == 1 and depth < 5:
        e = strip(ds[0])
        while e.get("k") == "MCall" and e.get("name") in ("clone", "to_owned"):
            e = strip(e["recv"])
        lo = local_of(e)
        if lo:
            return resolve_root(lo, defs, params, depth + 1)
    return None


def buffer_count_syms(facts, arg, defs):
    """Set of (chain, root) symbols among the multiplicative factors of the buffer's length."""
    a = strip(arg)
    # object data: size(x) * N * K
    if a.get("k") == "MCall" and a.get("name") in ("data", "data_mut") and "Ciphertext" in facts.ty_adj(a["recv"]):
        rl = root_local(a["recv"])
        if rl:
            return {(("size",), rl[1])}, "size(%s)*N*K" % rl[1]
    lo = local_of(a)
    if lo is None:
        return None, None
    ln = None
    for x in defs.closure(a):
        if x.get("k") == "Call" and (callee(x) or {}).get("name") == "from_elem" and len(x["args"]) == 2:
            ln = x["args"][1]
            break
    if ln is None:
        return None, None
    syms = set()
    txt = []
    def _factors(e, depth=0):
        """multiplicative factors; a local is expanded only when its definition is itself a product"""
        e = strip(e)
        if e.get("k") == "Bin" and e.get("op") == "*":
            return _factors(e["a"], depth) + _factors(e["b"], depth)
        if e.get("k") == "Cast":
            return _factors(e["e"], depth)
        if e.get("k") == "Path" and e.get("res") == "local" and depth < 6:
            ds = defs.defs.get(e["lid"], [])
            if len(ds) == 1 and strip(ds[0]).get("k") == "Bin" and strip(ds[0]).get("op") == "*":
                return _factors(ds[0], depth + 1)
        return [e]
    for f in _factors(ln):
        c = chain_of(f, defs)
        if c:
            syms.add(c)
            txt.append("%s(%s)" % (".".join(c[0]) or "val", c[1]))
        else:
            txt.append("<expr>")
    return syms, " * ".join(txt)


def _min_operands(e, defs, depth=0):
    """chains of the operands of a `min` expression (through single-definition locals), else []"""
    e = strip(e)
    if depth > 4:
        return []
    if e.get("k") == "Cast":
        return _min_operands(e["e"], defs, depth)
    if e.get("k") == "MCall" and e.get("name") == "min" and len(e["args"]) == 1:
        return [chain_of(e["recv"], defs), chain_of(e["args"][0], defs)] + _min_operands(e["recv"], defs, depth + 1) + \
            _min_operands(e["args"][0], defs, depth + 1)
    if e.get("k") == "Call" and (callee(e) or {}).get("name") == "min" and len(e["args"]) == 2:
        return [chain_of(e["args"][0], defs), chain_of(e["args"][1], defs)]
    lo = local_of(e)
    if lo:
        ds = defs.defs.get(lo[0], [])
        if len(ds) == 1:
            return _min_operands(ds[0], defs, depth + 1)
    return []


def run_count(facts, rep, files=None):
    R = "R-SHAPE(count)"
    rep.rule(R, "the polynomial count passed to a *_ps routine is the count of the buffer it is applied to (same "
             "accessor on the same operand), not another operand's")
    n = 0
    for p in sorted(facts.hir):
        it = facts.items[p]
        if files is not None and it["file"] not in files:
            continue
        if it.get("module") == "util::polysmallmod":
            continue
        body = facts.hir[p]
        calls = [x for x in walk(body) if x.get("k") == "Call" and (callee(x) or {}).get("def", "").startswith("util::polysmallmod::")
                 and (callee(x) or {}).get("name", "").endswith("_ps")]
        if not calls:
            continue
        defs = Defs(body)
        rep.fn(p)
        idx = {}
        params = {pp["pat"]["lid"]: pp["pat"]["name"] for pp in it["params"] if pp["pat"].get("k") == "PBind"}
        lids = {}
        for x in walk(body):
            if x.get("k") == "Path" and x.get("res") == "local":
                lids.setdefault(x["name"], x["lid"])
            if x.get("k") == "PBind":
                lids.setdefault(x["name"], x["lid"])

        def op_root(name):
            l = lids.get(name)
            return resolve_root((l, name), defs, params) if l is not None else None
        for c in calls:
            f = callee(c)
            cit = facts.items.get(target_key(f))
            if cit is None:
                continue
            pnames = [pp["pat"].get("name") for pp in cit["params"]]
            if "pcount" not in pnames:
                cand = [i for i, nm in enumerate(pnames) if nm in ("poly_count", "pcount", "count")]
            else:
                cand = [pnames.index("pcount")]
            if not cand:
                continue
            pc = c["args"][cand[0]]
            pcs = chain_of(pc, defs)
            bufs = [a for a, pp in zip(c["args"], cit["params"]) if "[u64]" in pp.get("ty", "")]
            for b in bufs:
                syms, txt = buffer_count_syms(facts, b, defs)
                k0 = "%s/%s" % (p, f["name"])
                idx[k0] = idx.get(k0, 0) + 1
                key = "%s#%s/%s" % (k0, idx[k0], (root_local(b) or (0, "?"))[1])
                n += 1
                # a count that is the minimum of several counts never exceeds any of them: fine for a buffer whose own
                # count is one of the operands of the min
                mins = _min_operands(pc, defs)
                if syms is not None and mins:
                    normb = {(s_[0], op_root(s_[1])) for s_ in syms}
                    hit = [m for m in mins if m is not None and (m in syms or (op_root(m[1]) is not None and (m[0], op_root(m[1])) in normb))]
                    if hit:
                        rep.ok(R, key, "count is a minimum that includes the buffer's own count %s(%s)" %
                               (".".join(hit[0][0]), hit[0][1]), facts.loc(p, c))
                        continue
                if syms is None or pcs is None:
                    rep.unresolved(R, key, "buffer length or count not expressible as accessor chains", facts.loc(p, c))
                    continue
                if pcs in syms:
                    rep.ok(R, key, "count %s(%s) is a factor of the buffer's own length (%s)" %
                           (".".join(pcs[0]), pcs[1], txt), facts.loc(p, c),
                           sample={"call": f["name"], "buffer": (root_local(b) or (0, "?"))[1], "count": "%s(%s)" % (".".join(pcs[0]), pcs[1]),
                                   "length": txt})
                    continue
                # compare through clone chains, and only between OPERANDS (parameters or copies of parameters)
                rp = op_root(pcs[1])
                norm = {(s_[0], op_root(s_[1])) for s_ in syms}
                if rp is not None and (pcs[0], rp) in norm:
                    rep.ok(R, key, "count %s(%s) is the count of the buffer (a copy of operand `%s`)" %
                           (".".join(pcs[0]), pcs[1], rp), facts.loc(p, c))
                    continue
                same_acc = [s_ for s_ in norm if s_[0] == pcs[0] and s_[1] is not None and rp is not None and s_[1] != rp]
                if same_acc and pcs[0]:
                    o = same_acc[0]
                    rep.violation(R, key, "`%s` has length %s but %s is told to process %s(%s) polynomials: a buffer sized by "
                                  "`%s` is processed with `%s`'s count — for operands of different sizes part of the buffer "
                                  "is left untransformed or the routine runs past its end" %
                                  ((root_local(b) or (0, "?"))[1], txt, f["name"], ".".join(pcs[0]), pcs[1], o[1], pcs[1]),
                                  facts.loc(p, c))
                else:
                    rep.unresolved(R, key, "count %s(%s) vs length %s: not comparable by accessor/root" %
                                   (".".join(pcs[0]) or "val", pcs[1], txt), facts.loc(p, c))
    return n


# --------------------------------------------------------------------------------------------- converters
def run_converters(facts, rep):
    """RNSTool: converter fields vs the bases of the buffers they are applied to."""
    R = "R-SHAPE(conv)"
    rep.rule(R, "every BaseConverter held by RNSTool is constructed from the (input base, output base) pair under which "
             "its callers slice their buffers: the size factor of the input slice is the converter's input base, of the "
             "output slice its output base")
    new = "util::rns::RNSTool::new"
    if not rep.anchor(R, new, new in facts.hir):
        return 0
    body = facts.hir[new]
    defs = Defs(body)
    # converter field -> (ibase local name, obase local name) from `BaseConverter::new(&a, &b)` bound to the struct literal
    conv = {}
    locals_ = {}
    for x in walk(body):
        if x.get("k") == "Let" and x["pat"].get("k") == "PBind" and "init" in x:
            for y in walk(x["init"]):
                f = callee(y)
                if f and f["name"] == "new" and "BaseConverter" in f.get("def", "") and len(y["args"]) == 2:
                    a, b = (root_local(y["args"][0]) or (0, "?"))[1], (root_local(y["args"][1]) or (0, "?"))[1]
                    locals_[x["pat"]["name"]] = (a, b)
    for x in walk(body):
        if x.get("k") == "Struct" and x.get("path", "").endswith("RNSTool"):
            for fld in x["fields"]:
                src = None
                for y in walk(fld["e"]):
                    lo = local_of(y)
                    if lo and lo[1] in locals_:
                        src = locals_[lo[1]]
                    f = callee(y)
                    if f and f["name"] == "new" and "BaseConverter" in f.get("def", "") and len(y.get("args", [])) == 2:
                        src = ((root_local(y["args"][0]) or (0, "?"))[1], (root_local(y["args"][1]) or (0, "?"))[1])
                if src:
                    conv[fld["name"]] = src
    rep.extra["rns_converters"] = {k: "%s -> %s" % v for k, v in conv.items()}
    rep.floor(R, "converter fields tied to bases by RNSTool::new", len(conv), 5)
    n = 0
    for p in sorted(facts.methods_of("util::rns::RNSTool")):
        body = facts.hir[p]
        d2 = Defs(body)
        for x in walk(body):
            f = callee(x)
            if not f or x.get("k") != "MCall" or f["name"] not in ("fast_convert_array", "exact_convey_array"):
                continue
            fld = None
            for y in walk(x["recv"]):
                if y.get("k") == "Field" and y.get("name") in conv:
                    fld = y["name"]
            lo = local_of(x["recv"])
            if fld is None and lo:
                for y in d2.closure(x["recv"]):
                    if y.get("k") == "Field" and y.get("name") in conv:
                        fld = y["name"]
            if fld is None:
                continue
            n += 1
            rep.fn(p)
            ib, ob = conv[fld]
            key = "%s/%s.%s" % (p, fld, f["name"])

            def base_names(arg):
                names = set()
                for y in d2.closure(arg):
                    if y.get("k") == "Field":
                        names.add(y["name"])
                    if y.get("k") == "Path" and y.get("res") == "local":
                        names.add(y["name"])
                return names
            # only slices with an explicit size carry base information; whole buffers are unresolved
            def sliced(arg):
                return any(y.get("k") == "Index" for y in walk(strip(arg)))
            msgs = []
            verdict = "ok"
            for arg, want, role in ((x["args"][0], ib, "input"), (x["args"][1], ob, "output")):
                if not sliced(arg):
                    continue
                nm = base_names(arg)
                others = {v for pair in conv.values() for v in pair} - {want}
                # the slice bound mentions some base size: it must be the converter's own base for that side
                mentions = {b for b in others | {want} if any(b.lower().replace("base_", "") in s.lower() for s in nm
                                                               if "size" in s.lower() or "len" in s.lower())}
                if mentions and want not in mentions:
                    verdict = "violation"
                    msgs.append("%s slice is sized by %s but converter `%s` has %s base `%s`" %
                                (role, "/".join(sorted(mentions)), fld, role, want))
            if verdict == "violation":
                rep.violation(R, key, "; ".join(msgs) + ": the conversion reads/writes a different number of residues than "
                              "the buffer region holds", facts.loc(p, x))
            else:
                rep.ok(R, key, "converter %s (%s -> %s) applied to regions sized by its own bases" % (fld, ib, ob),
                       facts.loc(p, x), sample={"routine": p, "converter": fld, "bases": "%s -> %s" % (ib, ob)})
    return n


# ------------------------------------------------------------------------------------------------------------------
def run_baselen(facts, rep, fpath="util::rns::RNSTool::new"):
    """R-SHAPE(baselen) [N]: the auxiliary base B of the BEHZ tool has exactly the number of primes its sizing rule asks for.

    RNSTool::new decides the size of B with a bit-count inequality (`K*n*t*q^2 < q*prod(B)*m_sk`): a mutable counter
    starts at |q| and is incremented when the inequality fails for |q| primes.  The primes handed to the base that is
    later extended by m_sk (= base B) must be exactly that many — as a symbolic identity between the length of the
    prime list (what remains of the sampled primes after m_sk and gamma are taken) and the sizing counter.  If the
    lengths differ (for instance a slice bounded by |q|), every configuration in which the rule asks for one more prime
    silently gets a B too small for fast_floor's range: BFV products wrap modulo prod(B)*m_sk."""
    R = "R-SHAPE(baselen)"
    rep.rule(R, "the number of primes handed to base B equals the counter of the sizing rule (symbolic length of the prime "
             "list vs. the mutable size incremented under the bit-count inequality)")
    from r_slotmod import Sym, padd, pconst, patom, pshow
    if not rep.anchor(R, fpath, fpath in facts.hir):
        return 0
    rep.fn(fpath)
    body = facts.hir[fpath]
    sym = Sym(facts, body)
    order = {id(x): i for i, x in enumerate(walk(body))}
    # the sizing counter: a `mut` integer local incremented by one inside an `if` whose condition reads bit counts
    sizing = None
    for x in walk(body):
        if x.get("k") == "If" and any(y.get("k") in ("MCall", "Call") and "bit_count" in ((callee(y) or {}).get("name") or y.get("name") or "")
                                      for y in walk(x["c"])) or (x.get("k") == "If" and any(
                                          local_of(y) and "bit_count" in local_of(y)[1] for y in walk(x["c"]))):
            for y in walk(x["th"]):
                if y.get("k") == "AssignOp" and local_of(y["lhs"]) and str(strip(y["rhs"]).get("v", "")).split("_")[0] == "1":
                    sizing = local_of(y["lhs"])
    # base B: the RNSBase::new(..) whose result is later extended (extend_modulus)
    ext_recv = set()
    for x in walk(body):
        if x.get("k") == "MCall" and x.get("name") == "extend_modulus":
            rl = root_local(x["recv"])
            if rl:
                ext_recv.add(rl[0])
    base_b = None
    for x in walk(body):
        if x.get("k") == "Let" and x["pat"].get("k") == "PBind" and "init" in x and x["pat"]["lid"] in ext_recv:
            for y in walk(x["init"]):
                f = callee(y) or {}
                if y.get("k") == "Call" and f.get("name") == "new" and "RNSBase" in f.get("def", "") and y["args"]:
                    base_b = (x, y)
    key = fpath + "/B"
    if sizing is None or base_b is None:
        rep.unresolved(R, key, "sizing counter or the construction of base B not recognised", facts.loc(fpath))
        return 1
    lets = {x["pat"]["lid"]: x for x in walk(body) if x.get("k") == "Let" and x["pat"].get("k") == "PBind" and "init" in x}

    def length(e, at, depth=0):
        """symbolic length of the sequence denoted by e when evaluated at position `at`"""
        if depth > 10:
            return None
        e = strip(e)
        k = e.get("k")
        if k == "MCall":
            nm = e.get("name")
            if nm in ("iter", "into_iter", "copied", "cloned", "collect", "to_vec", "as_slice", "by_ref", "clone", "to_owned"):
                return length(e["recv"], at, depth + 1)
            if nm == "skip" and e["args"]:
                b, kk = length(e["recv"], at, depth + 1), sym.poly(e["args"][0])
                return padd(b, kk, -1) if isinstance(b, dict) and isinstance(kk, dict) else None
            if nm == "take" and e["args"]:
                kk = sym.poly(e["args"][0])
                return kk if isinstance(kk, dict) else None
            return None
        if k == "Call":
            f = callee(e) or {}
            if f.get("name") == "get_primes" and len(e["args"]) >= 3:
                c = sym.poly(e["args"][2])
                return c if isinstance(c, dict) else None
            return None
        if k == "Index":
            idx = strip(e["i"])
            if idx.get("k") == "Struct" and "ops::Range" in idx.get("path", ""):
                d = {f_["name"]: f_["e"] for f_ in idx["fields"]}
                st = sym.poly(d["start"]) if "start" in d else {}
                if "end" in d:
                    en = sym.poly(d["end"])
                else:
                    en = length(e["e"], at, depth + 1)
                if isinstance(st, dict) and isinstance(en, dict):
                    return padd(en, st, -1)
            return None
        lo = local_of(e)
        if lo and lo[0] in lets:
            base = length(lets[lo[0]]["init"], order[id(lets[lo[0]])], depth + 1)
            if not isinstance(base, dict):
                return None
            # an iterator local advanced by `.next()` before this use
            nexts = [y for y in walk(body) if y.get("k") == "MCall" and y.get("name") == "next" and
                     (local_of(y["recv"]) or (None,))[0] == lo[0] and order[id(lets[lo[0]])] < order[id(y)] < at]
            return padd(base, pconst(len(nexts)), -1) if nexts else base
        return None
    L = length(base_b[1]["args"][0], order[id(base_b[1])])
    want = patom("%s#%d" % (sizing[1], sizing[0]))
    if not isinstance(L, dict):
        rep.unresolved(R, key, "length of the prime list handed to base B not resolved", facts.loc(fpath, base_b[1]))
    elif not padd(L, want, -1):
        rep.ok(R, key, "base B receives %s primes, the counter of the sizing rule" % pshow(L), facts.loc(fpath, base_b[1]),
               sample={"length": pshow(L), "sizing": sizing[1]})
    else:
        rep.violation(R, key, "base B is built from %s primes but the sizing rule (`%s`, incremented when the bit-count inequality "
                      "fails) asks for %s: whenever the rule adds a prime, B is one prime short of the range fast_floor needs and "
                      "BFV products wrap" % (pshow(L), sizing[1], pshow(want)), facts.loc(fpath, base_b[1]))
    return 1
