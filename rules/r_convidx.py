"""R-CONVIDX [N] — degree conservation of the packed 2-D convolution (Conv2dHelper).

The helper packs a block of weights and a block of inputs into two polynomials whose product carries, at coefficient
index  idx_w + idx_x,  the sum over input channels; the decoder reads that sum at `mask_index`.  At the granularity of
the channel slot (the multiple of image_height_block * image_width_block in each index) this is an identity between
three index expressions written in three functions:

      slot_w(oc, ic)  +  slot_x(b, ic)   ==   slot_out(b, oc)          for every ic of the block.

Each loop variable v with range `lo..hi` is replaced by `lo + U_role`, where the role (input channel, output channel,
batch) is read off the struct field its range is sized by (`input_channel_block`, `output_channel_block`, `batch_block`);
all three slot expressions become integer polynomials (r_slotmod.Sym) over the helper's fields, the block origins and the
role variables, and the identity is decided by polynomial equality.  If it fails, for the shapes where the differing
terms differ (e.g. a partial last channel block) the channel sum lands at a coefficient the decoder does not read.
"""
from facts import walk, callee, strip, local_of, root_local, Defs
from r_slotmod import Sym, padd, pmul, pconst, patom, psubst, pshow, atoms_of

R = "R-CONVIDX"
ROLE_FIELDS = {"input_channel_block": "ic", "output_channel_block": "oc", "batch_block": "b"}
ENC = ("encode_polynomial_new", "encode_polynomial", "encode_f64_polynomial_new", "encode_f64_polynomial")
DEC = ("decode_polynomial_new", "decode_polynomial")


def _fields(defs, e):
    return {y["name"] for y in defs.closure(e) if y.get("k") == "Field"}


def role_subst(facts, body, sym, defs):
    """loop-variable atom -> (role, replacement polynomial lo + U_role)"""
    out = {}
    for x in walk(body):
        if x.get("k") != "For" or x["pat"].get("k") != "PBind":
            continue
        a = sym.loopvars.get(x["pat"]["lid"])
        if a is None or a not in sym.ranges:
            continue
        roles = {ROLE_FIELDS[f] for f in _fields(defs, x["iter"]) if f in ROLE_FIELDS}
        if len(roles) != 1:
            continue
        role = next(iter(roles))
        out[a] = (role, padd(sym.ranges[a][0], patom("U_" + role)))
    return out


def is_block(p):
    """image_height_block * image_width_block"""
    if len(p) != 1:
        return False
    (m, c), = p.items()
    return c == 1 and len(m) == 2 and any(a.endswith(".image_height_block") for a in m) and \
        any(a.endswith(".image_width_block") for a in m)


def channel_slot(sym, idx_expr, subst):
    """coefficient polynomial of BLOCK (= image_height_block*image_width_block, the let the functions name `block_size` /
    `interval`) in the index, after the role substitution"""
    p = sym.poly(idx_expr)
    if not isinstance(p, dict):
        return None
    for a, (_, rep_) in subst.items():
        p = psubst(p, a, rep_)
    slot = {}
    hit = False
    for m, c in p.items():
        if "BLOCK" in m:
            mm = list(m)
            mm.remove("BLOCK")
            slot = padd(slot, {tuple(mm): c})
            hit = True
    return slot if hit else None


def packed_index(facts, body, defs, kind):
    """index expression of the store into the buffer handed to the encoder (kind 'enc') or of the load from the decoded
    buffer (kind 'dec')"""
    if kind == "enc":
        bufs = set()
        for x in walk(body):
            if x.get("k") == "MCall" and (callee(x) or {}).get("name") in ENC and x["args"]:
                rl = root_local(x["args"][0])
                if rl:
                    bufs.add(rl[0])
        for x in walk(body):
            if x.get("k") == "Assign" and strip(x["lhs"]).get("k") == "Index":
                rl = root_local(strip(x["lhs"])["e"])
                if rl and rl[0] in bufs:
                    return strip(x["lhs"])["i"], x
    else:
        bufs = set()
        for x in walk(body):
            if x.get("k") == "Let" and x["pat"].get("k") == "PBind" and "init" in x and \
                    any((callee(y) or {}).get("name") in DEC for y in walk(x["init"]) if y.get("k") == "MCall"):
                bufs.add(x["pat"]["lid"])
        for x in walk(body):
            if x.get("k") == "Assign":
                for y in walk(x["rhs"]):
                    if y.get("k") == "Index":
                        rl = root_local(y["e"])
                        if rl and rl[0] in bufs:
                            return y["i"], x
    return None, None


def _norm(p):
    """drop the lid suffix of block-origin locals that differ in name between the functions (lb/lc/lic/loc ... are
    eliminated by the identity; what remains must match exactly)"""
    return p


def run(facts, rep, tpath="app::conv2d::Conv2dHelper", floor=0):
    rep.rule(R, "channel-slot conservation of the packed convolution: slot(weights) + slot(inputs) == slot read by the "
             "decoder, as polynomials over the helper's fields after replacing each loop variable by origin + role variable")
    ms = {facts.items[p]["name"]: p for p in facts.methods_of(tpath)}
    n = 0
    for sfx in ("bfv", "ckks"):
        names = ("encode_weights_" + sfx, "encode_inputs_" + sfx, "decrypt_outputs_" + sfx)
        if not all(rep.anchor(R, "%s::%s" % (tpath, nm), nm in ms) for nm in names):
            continue
        slots = []
        where = None
        for nm, kind in zip(names, ("enc", "enc", "dec")):
            p = ms[nm]
            rep.fn(p)
            body = facts.hir[p]
            sym = Sym(facts, body)
            sym.keep_as_atom(is_block, "BLOCK")
            defs = Defs(body)
            idx, node = packed_index(facts, body, defs, kind)
            if idx is None:
                slots.append(None)
                continue
            sub = role_subst(facts, body, sym, defs)
            s = channel_slot(sym, idx, sub)
            slots.append(s)
            where = where or facts.loc(p, node)
        key = "%s/channel-slot/%s" % (tpath, sfx)
        n += 1
        if any(s is None for s in slots):
            rep.unresolved(R, key, "a packed index was not found or is not polynomial in one of %s" % (names,), where)
            continue
        w, x, o = slots
        lhs = padd(w, x)
        diff = padd(lhs, o, -1)
        if not diff:
            rep.ok(R, key, "slot(weights) + slot(inputs) == slot(decoder):  (%s) + (%s) == %s" % (pshow(w), pshow(x), pshow(o)),
                   where, sample={"weights": pshow(w), "inputs": pshow(x), "decoder": pshow(o)})
        else:
            rep.violation(R, key, "the channel slot where the product of the packed polynomials accumulates, (%s) + (%s), is not "
                          "the slot the decoder reads, %s (difference %s): for shapes where these differ — e.g. a partial last "
                          "channel block — the convolution result is read from the wrong coefficients" %
                          (pshow(w), pshow(x), pshow(o), pshow(diff)), where)
    rep.floor(R, "packed-convolution identities", n, floor)
    return n


def run_tiles(facts, rep, tpath="app::conv2d::Conv2dHelper"):
    """R-CONVIDX(tiles) [N]: the order in which the input encoder emits the sub-images of a split image is the order the
    output side assumes when it recovers the tile coordinates from the flat group index.

    encode_inputs_* pushes one group per tile inside nested counted loops; within a batch block the flat index of a tile is
    outer * count(inner) + inner, so the INNERMOST tile loop is the fast coordinate.  decrypt_outputs_* / encode_outputs_*
    recover the coordinates as  fast = eb % D,  slow = (eb % (..)) / D.  Each count is tagged by the image dimension its
    definition reads (image_height* -> H, image_width* -> W); the fast coordinate must be the same dimension on both sides.
    When they differ, every shape that is split along both dimensions has its output tiles written at transposed positions
    (or dropped by the range guard); shapes split along at most one dimension — all the suite uses — are unaffected."""
    RT = "R-CONVIDX(tiles)"
    rep.rule(RT, "the fast tile coordinate of the input encoder's emission order (innermost tile loop) is the dimension the "
             "output side takes as `eb % count`")
    ms = {facts.items[p]["name"]: p for p in facts.methods_of(tpath)}

    def dim_of(defs, e):
        fs = {y["name"] for y in defs.closure(e) if y.get("k") == "Field"}
        h = any(f.startswith("image_height") for f in fs)
        w = any(f.startswith("image_width") for f in fs)
        return "H" if h and not w else ("W" if w and not h else None)
    n = 0
    for sfx in ("bfv", "ckks"):
        enc = ms.get("encode_inputs_" + sfx)
        if not rep.anchor(RT, "%s::encode_inputs_%s" % (tpath, sfx), enc is not None):
            continue
        rep.fn(enc)
        n += 1
        body = facts.hir[enc]
        defs = Defs(body)
        from facts import Tree
        tree = Tree(body)
        # the push into the returned collection: the push whose argument is itself a Vec of encoded plaintexts, i.e. the
        # outermost `push` (fewest enclosing loops)
        pushes = [x for x in walk(body) if x.get("k") == "MCall" and x.get("name") == "push"]
        if not pushes:
            rep.unresolved(RT, "encode_inputs_%s/order" % sfx, "no push found", facts.loc(enc))
            continue

        def tile_loops(x):
            out = []
            for a in tree.ancestors(x):
                if a.get("k") == "For":
                    it = strip(a["iter"])
                    if it.get("k") == "Struct" and "ops::Range" in it.get("path", ""):
                        d = {f["name"]: f["e"] for f in it["fields"]}
                        if "end" in d:
                            out.append((a, dim_of(defs, d["end"])))
            return out           # innermost first
        cand = sorted(pushes, key=lambda x: len([a for a in tree.ancestors(x) if a.get("k") in ("For", "While", "Loop")]))
        loops = tile_loops(cand[0])
        dims = [d for _, d in loops]
        key_e = "encode_inputs_%s" % sfx
        if len(loops) < 2 or None in dims[:2] or dims[0] == dims[1]:
            rep.unresolved(RT, key_e + "/order", "tile loops around the group push not recognised (dims %s)" % dims, facts.loc(enc))
            continue
        enc_fast = dims[0]
        for side in ("decrypt_outputs_", "encode_outputs_"):
            dec = ms.get(side + sfx)
            if dec is None:
                continue
            rep.fn(dec)
            b2 = facts.hir[dec]
            d2 = Defs(b2)
            t2 = Tree(b2)
            fast = None
            for x in walk(b2):
                if x.get("k") == "Bin" and x.get("op") == "%" and local_of(x["a"]) and local_of(x["b"]):
                    up = t2.up(x) if hasattr(t2, "up") else None
                    while up is not None and up.get("k") in ("Block", "Cast") and not up.get("stmts"):
                        up = t2.up(up)
                    if up is not None and up.get("k") == "Bin" and up.get("op") == "/":
                        continue
                    # the left operand must be a counted loop variable (the flat group index)
                    is_loopvar = any(y.get("k") == "For" and y["pat"].get("k") == "PBind" and y["pat"]["lid"] == local_of(x["a"])[0]
                                     for y in walk(b2))
                    if is_loopvar:
                        fast = (x, dim_of(d2, x["b"]))
            key = "%s%s/fast-coordinate" % (side, sfx)
            if fast is None or fast[1] is None:
                rep.unresolved(RT, key, "no `group index %% count` form with a dimension-tagged count found", facts.loc(dec))
            elif fast[1] == enc_fast:
                rep.ok(RT, key, "encoder emits tiles with %s as the fast coordinate; %s%s takes `index %% count(%s)`" %
                       (enc_fast, side, sfx, fast[1]), facts.loc(dec, fast[0]), sample={"fast": enc_fast})
            else:
                rep.violation(RT, key, "encode_inputs_%s emits the sub-images with the %s tile index as the fast coordinate (innermost "
                              "loop), but %s%s recovers the fast coordinate as `index %% count(%s)`: for every image split along both "
                              "dimensions the output tiles are read at transposed tile positions" %
                              (sfx, "height" if enc_fast == "H" else "width", side, sfx, "height" if fast[1] == "H" else "width"),
                              facts.loc(dec, fast[0]))
    rep.floor(RT, "input encoders examined for tile order", n, 2)
    return n
