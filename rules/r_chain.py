"""R-CHAIN [N] — construction of the modulus-switching chain in HeContext::new / create_next_context_data.

 (gate)  Whether the chain is expanded is decided by the request (`expand_mod_chain`) and the validity of the level to
         expand from.  The constructor is partially evaluated with each configuration flag getter of the parameters
         (a `bool`-returning, argument-free method of EncryptionParameters read in the constructor, e.g.
         `use_special_prime_for_encryption()`) fixed to true and to false: locals are followed through `let`, `if` with a
         folded condition selects its branch, `a != b` of two expressions that fold to the SAME local is false.  No
         branch enclosing the chain-expansion loop may fold to `never taken`: if it does, a requested expansion is
         silently ignored for every parameter set with that flag value (the chain ends at the entry level and the lower
         levels other parties build do not exist here).
 (link)  create_next_context_data builds the next level as the PREFIX of the previous one (the moduli vector copied from
         the previous level's parameters loses exactly its last element by `pop`), refuses (returns PARMS_ID_ZERO) before
         linking when the level is invalid, stores the back link from the map entry of the previous id into the new
         level, stores the forward link to the new level into the previous one, and inserts the new level under the id
         of its own parameters.
 (walk)  the expansion loop moves both `prev` and `last` to the id returned by create_next_context_data after the
         PARMS_ID_ZERO test; chain indices are assigned by a walk over next_context_data with a counter decremented once
         per level, starting from the number of levels.
"""
from facts import walk, callee, strip, local_of, root_local, Defs, Tree

R = "R-CHAIN"


class Fold:
    """tiny partial evaluator: booleans and local identity"""

    def __init__(self, facts, body, assume):
        self.facts = facts
        self.assume = assume
        self.env = {}
        self.assigned = set()
        for x in walk(body):
            if x.get("k") in ("Assign", "AssignOp"):
                lo = root_local(x["lhs"])
                if lo:
                    self.assigned.add(lo[0])
            if x.get("k") == "Let" and x["pat"].get("k") == "PBind" and "init" in x:
                self.env[x["pat"]["lid"]] = x["init"]

    def ident(self, e, depth=0):
        """canonical local an expression is an alias of (through lets, derefs, folded ifs), or None"""
        e = strip(e)
        if depth > 12:
            return None
        k = e.get("k")
        if k == "Un" and e.get("op") == "*":
            return self.ident(e["e"], depth + 1)
        if k == "Block" and e.get("expr") is not None and not e.get("stmts"):
            return self.ident(e["expr"], depth + 1)
        if k == "Block" and e.get("expr") is not None:
            return self.ident(e["expr"], depth + 1)
        if k == "If":
            c = self.boolean(e["c"], depth + 1)
            if c is True:
                return self.ident(e["th"], depth + 1)
            if c is False and e.get("el") is not None:
                return self.ident(e["el"], depth + 1)
            a = self.ident(e["th"], depth + 1)
            b = self.ident(e["el"], depth + 1) if e.get("el") is not None else None
            return a if a is not None and a == b else None
        lo = local_of(e)
        if lo:
            if lo[0] in self.env and lo[0] not in self.assigned:
                r = self.ident(self.env[lo[0]], depth + 1)
                if r is not None:
                    return r
            return lo[0]
        return None

    def boolean(self, e, depth=0):
        e = strip(e)
        if depth > 12:
            return None
        k = e.get("k")
        if k == "Lit" and e.get("v") in ("true", "false"):
            return e["v"] == "true"
        if k == "MCall" and not e.get("args") and e.get("name") in self.assume:
            return self.assume[e["name"]]
        if k == "Un" and e.get("op") == "!":
            v = self.boolean(e["e"], depth + 1)
            return None if v is None else (not v)
        if k == "Bin" and e.get("op") in ("||", "&&"):
            a, b = self.boolean(e["a"], depth + 1), self.boolean(e["b"], depth + 1)
            if e["op"] == "||":
                return True if (a is True or b is True) else (False if (a is False and b is False) else None)
            return False if (a is False or b is False) else (True if (a is True and b is True) else None)
        if k == "Bin" and e.get("op") in ("==", "!="):
            a, b = self.ident(e["a"], depth + 1), self.ident(e["b"], depth + 1)
            if a is not None and a == b:
                return e["op"] == "=="
            return None
        if k == "Block" and e.get("expr") is not None:
            return self.boolean(e["expr"], depth + 1)
        if k == "If":
            c = self.boolean(e["c"], depth + 1)
            if c is True:
                return self.boolean(e["th"], depth + 1)
            if c is False and e.get("el") is not None:
                return self.boolean(e["el"], depth + 1)
            return None
        lo = local_of(e)
        if lo and lo[0] in self.env and lo[0] not in self.assigned:
            return self.boolean(self.env[lo[0]], depth + 1)
        return None


def _flag_getters(facts, body):
    out = set()
    for x in walk(body):
        if x.get("k") == "MCall" and not x.get("args") and facts.ty(x) == "bool":
            f = callee(x) or {}
            if "::EncryptionParameters::" in f.get("def", ""):
                out.add(x["name"])
    return out


def run(facts, rep):
    rep.rule(R, "chain construction: the expansion gate does not fold to never-taken under any value of a configuration flag; "
             "the next level is the prefix of the previous one, linked both ways and registered under its own id; the "
             "expansion loop advances prev/last; chain indices count down one per level")
    n = 0
    p = "context::HeContext::new"
    q = "context::HeContext::create_next_context_data"
    # ------------------------------------------------------------------ (gate) + (walk)
    if rep.anchor(R, p, p in facts.hir):
        rep.fn(p)
        body = facts.hir[p]
        tree = Tree(body)
        loops = [x for x in walk(body) if x.get("k") in ("While", "Loop") and
                 any((callee(y) or {}).get("name") == "create_next_context_data" for y in walk(x))]
        if rep.anchor(R, p + "/expansion-loop", len(loops) == 1):
            lp = loops[0]
            gates = []
            node = lp
            for a in tree.ancestors(lp):
                if a.get("k") == "If":
                    in_th = any(y is node for y in walk(a["th"]))
                    gates.append((a, in_th))
                node = a
            flags = sorted(_flag_getters(facts, body))
            rep.extra["chain_flags"] = flags
            n += 1
            key = p + "/gate"
            bad = None
            for fl in flags:
                for val in (True, False):
                    fo = Fold(facts, body, {fl: val})
                    for g, in_th in gates:
                        v = fo.boolean(g["c"])
                        if v is not None and v != in_th:
                            bad = bad or (fl, val, g)
            if not gates:
                rep.ok(R, key, "the expansion loop is not nested in a branch", facts.loc(p, lp), nontrivial=False)
            elif bad:
                rep.violation(R, key, "with %s() == %s the branch that encloses the chain-expansion loop folds to never taken "
                              "(its condition compares two ids that are then the same local): a requested modulus-switching "
                              "chain is silently not built for every parameter set with that flag value" %
                              (bad[0], str(bad[1]).lower()), facts.loc(p, bad[2]))
            else:
                rep.ok(R, key, "the %d branch(es) enclosing the expansion loop stay undetermined under every value of {%s}" %
                       (len(gates), ", ".join(flags) or "no flag"), facts.loc(p, gates[0][0]),
                       sample={"flags": flags, "gates": len(gates)})
            # (walk): prev and last both receive the id returned by create_next_context_data, after the zero test
            n += 1
            key = p + "/walk"
            lbody = lp["body"]
            nxt = None
            for x in walk(lbody):
                if x.get("k") == "Let" and x["pat"].get("k") == "PBind" and "init" in x and \
                        any((callee(y) or {}).get("name") == "create_next_context_data" for y in walk(x["init"])):
                    nxt = x["pat"]["lid"]
                    call = [y for y in walk(x["init"]) if (callee(y) or {}).get("name") == "create_next_context_data"][0]
            if nxt is None:
                rep.unresolved(R, key, "the id returned by create_next_context_data is not bound to a local", facts.loc(p, lp))
            else:
                prev_arg = root_local(call["args"][1]) if len(call["args"]) > 1 else None
                moved = set()
                zero_test = False
                order_ok = True
                seen_test = False
                for st in (lbody.get("stmts") or []):
                    e = strip(st.get("e") or st.get("init") or {}) if st.get("k") in ("Semi", "Expr") else {}
                    if e.get("k") == "If" and any(local_of(y) and local_of(y)[0] == nxt for y in walk(e["c"])) and \
                            any(y.get("k") in ("Break", "Ret") for y in walk(e["th"])):
                        seen_test = zero_test = True
                    if e.get("k") == "Assign" and local_of(e["rhs"]) and local_of(e["rhs"])[0] == nxt:
                        lo = local_of(e["lhs"])
                        if lo:
                            moved.add(lo[0])
                            order_ok = order_ok and seen_test
                last_lids = set()
                tail = body.get("expr")
                for y in walk(tail or {}):
                    if y.get("k") == "Struct":
                        for f in y.get("fields", []):
                            if f["name"] == "last_parms_id" and local_of(f["e"]):
                                last_lids.add(local_of(f["e"])[0])
                if prev_arg and prev_arg[0] in moved and last_lids and last_lids <= moved and zero_test and order_ok:
                    rep.ok(R, key, "after the PARMS_ID_ZERO test the loop moves both the cursor and last_parms_id to the new level",
                           facts.loc(p, lp), sample={"moved": len(moved)})
                elif not zero_test or not order_ok:
                    rep.violation(R, key, "the expansion loop no longer tests the returned id for PARMS_ID_ZERO before moving the "
                                  "cursor: an invalid level's zero id becomes the cursor / last_parms_id", facts.loc(p, lp))
                elif prev_arg and prev_arg[0] not in moved:
                    rep.violation(R, key, "the expansion loop does not move its cursor `%s` to the level just created: the same "
                                  "level is expanded again" % prev_arg[1], facts.loc(p, lp))
                elif last_lids and not last_lids <= moved:
                    rep.violation(R, key, "the expansion loop does not move last_parms_id to the level just created: "
                                  "last_parms_id is not the end of the chain", facts.loc(p, lp))
                else:
                    rep.unresolved(R, key, "cursor / last id of the expansion loop not recognised", facts.loc(p, lp))
    # ------------------------------------------------------------------ (link)
    if rep.anchor(R, q, q in facts.hir):
        rep.fn(q)
        body = facts.hir[q]
        defs = Defs(body)
        it = facts.items[q]
        params = {prm["pat"]["name"]: prm["pat"]["lid"] for prm in it["params"] if prm["pat"].get("k") == "PBind"}
        prev = params.get("prev_parms_id")
        n += 1
        key = q + "/prefix"

        def from_prev(e):
            return prev is not None and any(y.get("k") == "Path" and y.get("res") == "local" and y.get("lid") == prev
                                            for y in defs.closure(e))
        # the moduli vector
        vec = None
        for x in walk(body):
            if x.get("k") == "Let" and x["pat"].get("k") == "PBind" and "init" in x and "Vec<" in facts.ty(x["pat"]) and \
                    any(y.get("k") == "MCall" and y.get("name") == "coeff_modulus" for y in walk(x["init"])):
                vec = x
        if vec is None:
            rep.unresolved(R, key, "the next level's moduli vector was not found", facts.loc(q))
        else:
            vl = vec["pat"]["lid"]
            muts = [y for y in walk(body) if y.get("k") == "MCall" and (root_local(y["recv"]) or (None,))[0] == vl and
                    (facts.ty_adj(y["recv"]).startswith("&mut ") or y.get("name") in
                     ("pop", "remove", "truncate", "push", "insert", "swap_remove", "drain", "clear", "retain", "reverse", "sort", "swap"))]
            names = [y["name"] for y in muts]
            used = any(y.get("k") == "MCall" and y.get("name") == "set_coeff_modulus" and
                       any((root_local(a) or (None,))[0] == vl for a in y["args"]) for y in walk(body))
            if names == ["pop"] and from_prev(vec["init"]) and used:
                rep.ok(R, key, "next moduli = previous level's moduli with exactly the last element removed", facts.loc(q, vec),
                       sample={"vector": vec["pat"]["name"]})
            elif not from_prev(vec["init"]):
                rep.violation(R, key, "the next level's moduli are not copied from the level registered under prev_parms_id: "
                              "the chain is not a chain of prefixes of one moduli list", facts.loc(q, vec))
            elif not used:
                rep.violation(R, key, "the shortened moduli vector is not what set_coeff_modulus receives", facts.loc(q, vec))
            else:
                def lit0(y):
                    return y.get("args") and str(strip(y["args"][0]).get("v", "")).split("_")[0] == "0"
                wrong = [y for y in muts if y["name"] in ("swap_remove", "reverse", "sort", "insert", "push", "clear", "retain") or
                         (y["name"] == "remove" and lit0(y))]
                if wrong or not muts or names.count("pop") > 1:
                    rep.violation(R, key, "the next level's moduli are derived from the previous ones by [%s] instead of dropping "
                                  "exactly the last prime: the next level is not the one-shorter prefix" % (", ".join(names) or "nothing"),
                                  facts.loc(q, (wrong or muts or [vec])[0]))
                else:
                    rep.unresolved(R, key, "the moduli vector is shortened by [%s]: not read as dropping exactly the last element" %
                                   ", ".join(names), facts.loc(q, muts[0]))
        # links and registration
        n += 1
        key = q + "/links"
        back = fwd = None
        for x in walk(body):
            if x.get("k") == "Assign":
                lhs = strip(x["lhs"])
                if lhs.get("k") == "Field" and lhs.get("name") == "prev_context_data":
                    back = x
                if lhs.get("k") == "Field" and lhs.get("name") == "next_context_data":
                    fwd = x
        ins = [y for y in walk(body) if y.get("k") == "MCall" and y.get("name") == "insert" and len(y["args"]) == 2]
        newctx = None
        for x in walk(body):
            if x.get("k") == "Let" and x["pat"].get("k") == "PBind" and "init" in x and \
                    any((callee(y) or {}).get("name") == "validate" for y in walk(x["init"])):
                newctx = x["pat"]["lid"]

        def from_new(e):
            return newctx is not None and any(y.get("k") == "Path" and y.get("res") == "local" and y.get("lid") == newctx
                                              for y in defs.closure(e))
        problems = []
        if back is None or fwd is None or not ins or newctx is None:
            rep.unresolved(R, key, "links / registration not recognised", facts.loc(q))
        else:
            if not ((root_local(back["lhs"]) or (None,))[0] == newctx and from_prev(back["rhs"])):
                problems.append("the back link is not `new.prev_context_data = <map entry of prev_parms_id>`")
            if not (from_prev(fwd["lhs"]) and from_new(fwd["rhs"])):
                problems.append("the forward link is not `<map entry of prev_parms_id>.next_context_data = <new level>`")
            idok = any(y.get("k") == "MCall" and y.get("name") == "parms_id" for y in defs.closure(ins[0]["args"][0])) and \
                not from_prev_direct(ins[0]["args"][0], prev)
            if not (idok and from_new(ins[0]["args"][1])):
                problems.append("the new level is not inserted under the id of its own parameters")
            # refusal before linking
            tree = Tree(body)
            refusal = None
            for x in walk(body):
                if x.get("k") == "If" and any(y.get("k") == "MCall" and y.get("name") == "parameters_set" for y in walk(x["c"])) and \
                        any(y.get("k") == "Ret" for y in walk(x["th"])):
                    refusal = x
            if refusal is None:
                problems.append("no refusal (return of the zero id) when the next level is invalid")
            else:
                order = {id(s): i for i, s in enumerate(walk(body))}
                if not all(order[id(refusal)] < order[id(z)] for z in (back, fwd, ins[0])):
                    problems.append("an invalid level is linked or registered before the refusal")
            if problems:
                rep.violation(R, key, "; ".join(problems) + ": the chain is not a doubly linked list of registered levels",
                              facts.loc(q, back))
            else:
                rep.ok(R, key, "refusal precedes linking; back link from the map entry of prev_parms_id, forward link to the new "
                       "level, registration under the new parameters' id", facts.loc(q, back), sample={"inserts": len(ins)})
    # ------------------------------------------------------------------ chain indices
    if p in facts.hir:
        body = facts.hir[p]
        n += 1
        key = p + "/chain-index"
        defs = Defs(body)
        done = False
        for lp in walk(body):
            if lp.get("k") not in ("Loop", "While"):
                continue
            asg = [x for x in walk(lp) if x.get("k") == "Assign" and strip(x["lhs"]).get("k") == "Field" and
                   strip(x["lhs"]).get("name") == "chain_index"]
            if not asg:
                continue
            done = True
            cnt = None
            for y in walk(asg[0]["rhs"]):
                if local_of(y):
                    cnt = local_of(y)
            decs = [x for x in walk(lp) if x.get("k") == "AssignOp" and local_of(x["lhs"]) and cnt and
                    local_of(x["lhs"])[0] == cnt[0]]
            follows = any(y.get("k") == "Field" and y.get("name") == "next_context_data" for y in walk(lp))
            init_len = cnt is not None and any(y.get("k") == "MCall" and y.get("name") == "len" for y in defs.closure(
                {"k": "Path", "res": "local", "lid": cnt[0], "name": cnt[1]}))
            rhs = strip(asg[0]["rhs"])
            minus1 = rhs.get("k") == "Bin" and rhs.get("op") == "-" and str(strip(rhs["b"]).get("v", "")).split("_")[0] == "1" \
                and local_of(rhs["a"]) is not None
            plain = local_of(rhs) is not None
            dec1 = len(decs) == 1 and decs[0].get("op") in ("-", "-=") and str(strip(decs[0]["rhs"]).get("v", "")).split("_")[0] == "1"
            in_nested = False
            dec_first = False
            if decs:
                t2 = Tree(lp)
                in_nested = any(a.get("k") in ("If", "Match", "While", "For", "Loop") and a is not lp for a in t2.ancestors(decs[0]))
                order = {id(y): i for i, y in enumerate(walk(lp))}
                dec_first = order[id(decs[0])] < order[id(asg[0])]
            recognised = cnt and follows and init_len
            # index given to a level = (counter at entry of the step) - 1, whichever side of the assignment the decrement is on
            good = (minus1 and not dec_first) or (plain and dec_first)
            off = (plain and not dec_first) or (minus1 and dec_first)
            if recognised and dec1 and not in_nested and good:
                rep.ok(R, key, "the level visited at step k gets index (number of levels) - 1 - k along next_context_data",
                       facts.loc(p, asg[0]), sample={"counter": cnt[1], "decrement_first": dec_first})
            elif recognised and (not dec1 or in_nested) and (minus1 or plain):
                rep.violation(R, key, "the level counter `%s` is not decremented by exactly one on every step of the walk along "
                              "next_context_data: chain indices are not strictly decreasing by one down to 0" % cnt[1],
                              facts.loc(p, asg[0]))
            elif recognised and dec1 and not in_nested and off:
                rep.violation(R, key, "chain_index is %s: the first level visited does not get (number of levels) - 1, so the last "
                              "level does not get index 0" % ("the counter itself, assigned before it is decremented" if plain else
                                                              "counter - 1 taken after the decrement"), facts.loc(p, asg[0]))
            else:
                rep.unresolved(R, key, "chain-index assignment walk not recognised", facts.loc(p, asg[0]))
        if not done:
            rep.unresolved(R, key, "no loop assigns chain_index", facts.loc(p))
    rep.floor(R, "chain-construction clauses", n, 5)
    return n


def from_prev_direct(e, prev):
    lo = local_of(e)
    return bool(lo and prev is not None and lo[0] == prev)
