"""R-ADMIT(degree) [N] — the transform tables exist for every supported ring degree.

NTTTables::new(coeff_count_power, modulus) builds the tables of degree N = 2^coeff_count_power; the library documents the
degrees HE_POLY_MOD_DEGREE_MIN ..= HE_POLY_MOD_DEGREE_MAX (powers of two).  Whether a modulus is admissible is a number-
theoretic fact the rule does not judge; but a REFUSING branch whose condition is already true from the degree alone, for a
supported degree, makes that degree unconstructible for every prime: no transform — evaluation map or inverse — exists
there.  The rule evaluates the condition of every refusing `if` of the constructor three-valuedly (true / false / unknown)
for each supported power p (coeff_count_power = p, locals defined from it by shifts and arithmetic evaluated; everything
else unknown; `a || b` is true when one side is, `a && b` only when both are) and reports a power for which a refusal is
certain.  The suite builds tables for degrees up to 8192 only.
"""
import os
import re
from facts import walk, strip, local_of

R = "R-ADMIT(degree)"
UNK = None


def _const(facts, name):
    for root, _, files in os.walk(os.path.join(facts.repo, "src")):
        for fn in files:
            if fn.endswith(".rs"):
                try:
                    txt = open(os.path.join(root, fn)).read()
                except OSError:
                    continue
                m = re.search(r"\bconst\s+%s\s*:\s*\w+\s*=\s*(0x[0-9a-fA-F_]+|[0-9_]+)\s*;" % re.escape(name), txt)
                if m:
                    return int(m.group(1).replace("_", ""), 0)
    return None


def _ev(e, env, lets, depth=0):
    """three-valued / integer evaluation; None = unknown"""
    if depth > 12 or not isinstance(e, dict):
        return UNK
    e = strip(e)
    k = e.get("k")
    if k == "Lit":
        v = str(e.get("v", ""))
        if v in ("true", "false"):
            return v == "true"
        m = re.match(r"^(0x[0-9a-fA-F_]+|[0-9_]+)", v)
        return int(m.group(1).replace("_", ""), 0) if m else UNK
    if k == "Cast":
        return _ev(e["e"], env, lets, depth + 1)
    if k == "Block" and e.get("expr") is not None and not e.get("stmts"):
        return _ev(e["expr"], env, lets, depth + 1)
    lo = local_of(e)
    if lo:
        if lo[0] in env:
            return env[lo[0]]
        if lo[0] in lets and len(lets[lo[0]]) == 1:
            return _ev(lets[lo[0]][0], env, lets, depth + 1)
        return UNK
    if k == "Un" and e.get("op") == "!":
        v = _ev(e["e"], env, lets, depth + 1)
        return (not v) if isinstance(v, bool) else UNK
    if k == "Bin":
        op = e.get("op")
        a, b = _ev(e["a"], env, lets, depth + 1), _ev(e["b"], env, lets, depth + 1)
        if op == "||":
            if a is True or b is True:
                return True
            return False if (a is False and b is False) else UNK
        if op == "&&":
            if a is False or b is False:
                return False
            return True if (a is True and b is True) else UNK
        if a is UNK or b is UNK or isinstance(a, bool) or isinstance(b, bool):
            return UNK
        try:
            if op == "+": return a + b
            if op == "-": return a - b if a >= b else UNK
            if op == "*": return a * b
            if op == "<<": return a << b if b < 64 else UNK
            if op == ">>": return a >> b if b < 64 else UNK
            if op == "/": return a // b if b else UNK
            if op == "<": return a < b
            if op == "<=": return a <= b
            if op == ">": return a > b
            if op == ">=": return a >= b
            if op == "==": return a == b
            if op == "!=": return a != b
        except Exception:
            return UNK
    return UNK


def run(facts, rep, floor=0):
    rep.rule(R, "no refusing branch of NTTTables::new is certain from the degree alone for a supported degree "
             "(HE_POLY_MOD_DEGREE_MIN ..= HE_POLY_MOD_DEGREE_MAX)")
    lo_n, hi_n = _const(facts, "HE_POLY_MOD_DEGREE_MIN"), _const(facts, "HE_POLY_MOD_DEGREE_MAX")
    n = 0
    for p in sorted(facts.hir):
        it = facts.items[p]
        if it["file"] != "src/util/ntt.rs" or not p.endswith("NTTTables::new"):
            continue
        body = facts.inlined(p)
        params = [prm["pat"] for prm in it["params"] if prm["pat"].get("k") == "PBind" and prm.get("ty", "").strip() == "usize"]
        # the power parameter: the usize parameter that is the amount of a `1 << x`
        power = None
        for x in walk(body):
            if x.get("k") == "Bin" and x.get("op") == "<<":
                l = local_of(x["b"])
                if l and any(l[0] == q["lid"] for q in params) and _ev(x["a"], {}, {}) == 1:
                    power = l
        if power is None or lo_n is None or hi_n is None:
            rep.unresolved(R, p, "the degree-power parameter (`1 << x`) or the constants HE_POLY_MOD_DEGREE_MIN / _MAX were not found",
                           facts.loc(p))
            continue
        lets = {}
        for x in walk(body):
            if x.get("k") == "Let" and x["pat"].get("k") == "PBind" and "init" in x:
                lets.setdefault(x["pat"]["lid"], []).append(x["init"])
        powers = [q for q in range(0, 64) if lo_n <= (1 << q) <= hi_n]
        k_site = 0
        for x in walk(body):
            if x.get("k") != "If":
                continue
            th_div = facts.ty(x["th"]) == "!"
            el_div = x.get("el") is not None and facts.ty(x["el"]) == "!"
            if not (th_div or el_div) or (th_div and el_div):
                continue
            n += 1
            rep.fn(p)
            key = "%s/refusal#%d" % (p, k_site)
            k_site += 1
            certain = [q for q in powers if _ev(x["c"], {power[0]: q}, lets) is (True if th_div else False)]
            if certain:
                rep.violation(R, key, "this refusal is certain from the degree alone for %s = %s (degree %s), a supported degree "
                              "(%d ..= %d): no NTT tables can be built there for any prime, so the transform the property quantifies "
                              "over does not exist at that degree" %
                              (power[1], ", ".join(map(str, certain)), ", ".join(str(1 << q) for q in certain), lo_n, hi_n),
                              facts.loc(p, x))
            else:
                rep.ok(R, key, "not certain from the degree alone for any supported power (%d..%d)" % (powers[0], powers[-1]),
                       facts.loc(p, x), sample={"function": p, "powers": [powers[0], powers[-1]]})
    rep.floor(R, "refusing branches of NTTTables::new", n, floor)
    return n
