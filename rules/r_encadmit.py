"""R-ENCADMIT [N] — admissibility test and magnitude paths of the CKKS encoder agree with the integer types used.

Every `encode_internal_*` computes a bit count B of the largest scaled coefficient, refuses when B reaches the bit count
of the coefficient modulus, and then chooses a 64-bit / 128-bit / multi-precision path by `B <= 64`, `B <= 128`.

 (allow)  B carries a sign-bit allowance: a coefficient m is representable only as a centred residue, |m| < q/2, and
          q/2 >= 2^(bits(q)-2).  With B = ceil(log2 m) + c the refusal `B >= bits(q)` admits m <= 2^(bits(q)-1-c), so c >= 1
          is necessary; with B = floor(log2 m) + c (a truncating cast) c >= 2; with B = significant_bits(m) + c, c >= 1.
          Without it, magnitudes in [q/2, 2^(bits(q)-1)] are accepted and decode to m - q (sign flipped).
 (cast)   inside the branch guarded by `B <= W` every float-to-integer cast of the magnitude fits its target type:
          the guard admits m <= 2^(W-c) (directly cast), m / 2^64 <= 2^(W-c-64), m % 2^64 < 2^64; a value up to 2^e fits
          an integer type only if e < its magnitude bits (u64: 64, i64: 63, u128: 128, i128: 127, ...) — otherwise the
          `as` cast saturates and every RNS component receives the same wrong integer.
"""
import re
from facts import walk, callee, strip, local_of, Defs, Tree

R = "R-ENCADMIT"
CAP = {"u64": 64, "usize": 64, "i64": 63, "isize": 63, "u128": 128, "i128": 127, "u32": 32, "i32": 31, "u16": 16, "i16": 15,
       "u8": 8, "i8": 7}


def _lit(e):
    e = strip(e)
    if e.get("k") == "Lit":
        m = re.match(r"^(\d+)", str(e.get("v", "")))
        return int(m.group(1)) if m else None
    return None


def bitcount_form(defs, e, depth=0):
    """-> (form, allowance) of a bit-count expression: form in ceil / floor / sig / None"""
    e = strip(e)
    k = e.get("k")
    if k == "Bin" and e.get("op") == "+":
        for x, y in ((e["a"], e["b"]), (e["b"], e["a"])):
            c = _lit(y)
            if c is not None:
                f, a = bitcount_form(defs, x, depth)
                return f, (a + c if f else 0)
        return None, 0
    if k == "Cast":
        inner = strip(e["e"])
        if inner.get("k") == "MCall" and inner.get("name") == "ceil":
            if any(y.get("k") == "MCall" and y.get("name") == "log2" for y in walk(inner)):
                return "ceil", 0
        if any(y.get("k") == "MCall" and y.get("name") == "log2" for y in walk(inner)) and \
                not any(y.get("k") == "MCall" and y.get("name") in ("ceil", "round") for y in walk(inner)):
            return "floor", 0
        return bitcount_form(defs, inner, depth)
    if k in ("Call", "MCall") and (callee(e) or {}).get("name") == "get_significant_bit_count":
        return "sig", 0
    if k == "Inl":
        b = e.get("body") or {}
        return bitcount_form(defs, b.get("expr") if b.get("k") == "Block" else b, depth + 1) if depth < 5 else (None, 0)
    if k == "Block" and e.get("expr") is not None:
        return bitcount_form(defs, e["expr"], depth + 1) if depth < 5 else (None, 0)
    lo = local_of(e)
    if lo and depth < 5:
        ds = defs.defs.get(lo[0], [])
        if len(ds) == 1:
            return bitcount_form(defs, ds[0], depth + 1)
    return None, 0


NEED = {"ceil": 1, "floor": 2, "sig": 1}


def run(facts, rep, floor=0):
    rep.rule(R, "the CKKS encoder's admissibility bit count carries the sign-bit allowance its formula needs, and inside "
             "each `B <= W` branch every float-to-integer cast of the magnitude fits its target type")
    n = 0
    for p in sorted(facts.methods_of("ckks_encoder::CKKSEncoder")):
        if not facts.items[p]["name"].startswith("encode_internal"):
            continue
        body = facts.inlined(p)          # admissibility / word-splitting helpers are read in place
        defs = Defs(body)
        tree = Tree(body)
        # the refusing comparison with total_coeff_modulus_bit_count
        admit = None
        for x in walk(body):
            if x.get("k") == "If" and facts.ty(x["th"]) == "!" or (x.get("k") == "If" and any(
                    y.get("k") == "Macro" and y.get("name") == "panic" for y in walk(x["th"]))):
                c = strip(x["c"])
                if c.get("k") == "Bin" and c.get("op") in (">=", ">") and local_of(c["a"]) and \
                        any(y.get("k") == "MCall" and y.get("name") == "total_coeff_modulus_bit_count" for y in defs.closure(c["b"])) \
                        and bitcount_form(defs, c["a"])[0] is not None:
                    admit = (x, c)
        if admit is None:
            continue
        n += 1
        rep.fn(p)
        blid, bname = local_of(admit[1]["a"])
        form, c = bitcount_form(defs, admit[1]["a"])
        key = "%s/allow" % p
        if form is None:
            rep.unresolved(R, key, "the bit count `%s` is not one of the modelled formulas (ceil(log2)+c, floor(log2)+c, "
                           "significant bits + c)" % bname, facts.loc(p, admit[0]))
            continue
        strict = admit[1]["op"] == ">"
        need = NEED[form] + (1 if strict else 0)
        if c >= need:
            rep.ok(R, key, "`%s` = %s(..) + %d: magnitudes of at least half the modulus are refused" % (bname, form, c),
                   facts.loc(p, admit[0]), sample={"function": p, "form": form, "allowance": c})
        else:
            rep.violation(R, key, "`%s` is computed as %s(log2 m) + %d and refused only when it reaches the modulus bit count: "
                          "magnitudes between half the modulus and 2^(bits-%d) are accepted although they have no centred "
                          "representative — they decode with the sign flipped (needs an allowance of %d)" %
                          (bname, form, c, 1 + c, need), facts.loc(p, admit[0]))
        # two_pow_64 locals
        pow64 = set()
        for x in walk(body):
            if x.get("k") == "Let" and x["pat"].get("k") == "PBind" and "init" in x:
                i0 = strip(x["init"])
                if i0.get("k") == "MCall" and i0.get("name") in ("powi", "powf") and i0["args"] and _lit(i0["args"][0]) == 64:
                    pow64.add(x["pat"]["lid"])
        # (cast)
        k_c = 0
        for x in walk(body):
            if x.get("k") != "If":
                continue
            cd = strip(x["c"])
            if not (cd.get("k") == "Bin" and cd.get("op") in ("<=", "<") and local_of(cd["a"]) and
                    (local_of(cd["a"])[0] == blid or bitcount_form(defs, cd["a"]) == (form, c)) and _lit(cd["b"]) is not None):
                continue
            W = _lit(cd["b"]) - (1 if cd["op"] == "<" else 0)
            # magnitude exponent admitted by the guard: m <= 2^(W - c) for ceil/sig forms, m < 2^(W - c + 1) for floor
            e_max = W - c + (1 if form == "floor" else 0)
            for y in walk(x["th"]):
                if y.get("k") != "Cast" or facts.ty(y) not in CAP or not facts.ty(y["e"]).startswith("f"):
                    continue
                src = strip(y["e"])
                expo, what = e_max, "the magnitude"
                if src.get("k") == "Bin" and src.get("op") in ("/", "%") and local_of(src["b"]) and local_of(src["b"])[0] in pow64:
                    if src["op"] == "/":
                        expo, what = e_max - 64, "the magnitude / 2^64"
                    else:
                        expo, what = 64, "the magnitude mod 2^64"
                cap = CAP[facts.ty(y)]
                fits = expo < cap if what != "the magnitude mod 2^64" else 64 <= cap
                ck = "%s/cast/W%d#%d" % (p, W, k_c)
                k_c += 1
                if fits:
                    rep.ok(R, ck, "under `%s <= %d`, %s (up to 2^%d) fits `%s`" % (bname, W, what, expo, facts.ty(y)),
                           facts.loc(p, y), nontrivial=False)
                else:
                    rep.violation(R, ck, "under `%s <= %d` %s can reach 2^%d but is cast to `%s`, which holds magnitudes below "
                                  "2^%d only: the cast saturates and every RNS component receives the same wrong integer" %
                                  (bname, W, what, expo, facts.ty(y), cap), facts.loc(p, y))
    rep.floor(R, "encode_internal_* functions with an admissibility test", n, floor)
    return n


def run_component_modulus(facts, rep, tpath="ckks_encoder::CKKSEncoder"):
    """R-ENCADMIT(modulus) [N]: inside a loop over the RNS components of the destination, every modular primitive works under the
    component's OWN prime.  In a `for (j, component) in data.chunks_mut(N).enumerate()` / `for j in 0..L` loop whose body
    indexes the coefficient-modulus list with j, a modular primitive (negate / reduce / multiply ... taking a `&Modulus`) whose
    modulus resolves to that list at a LITERAL index uses one fixed prime for all components: the residues written for j >= 1
    are those of another integer (x + q_0 instead of x), so the components are not the residues of one number."""
    RM = "R-ENCADMIT(modulus)"
    rep.rule(RM, "in per-component loops of the encoder, the modulus handed to a modular primitive is indexed by the component "
             "variable, never by a literal")
    from facts import pat_bindings, root_local as _rl
    n = 0
    for p in sorted(facts.methods_of(tpath)):
        body = facts.hir.get(p)
        if body is None:
            continue
        defs = Defs(body)
        k = 0
        for lp in walk(body):
            if lp.get("k") != "For":
                continue
            lids = {l for l, _ in pat_bindings(lp["pat"])}
            # does the body index a modulus list with a loop variable?
            per_comp = [y for y in walk(lp["body"]) if y.get("k") == "Index" and local_of(y["i"]) and local_of(y["i"])[0] in lids and
                        "Modulus" in facts.ty(y)]
            if not per_comp:
                continue
            lists = {(_rl(y["e"]) or (None,))[0] for y in per_comp}
            for c in walk(lp["body"]):
                if c.get("k") not in ("Call", "MCall"):
                    continue
                for a in c.get("args", []):
                    if "Modulus" not in facts.ty(a) or "[" in facts.ty(a) and "Modulus]" in facts.ty(a):
                        continue
                    e = strip(a)
                    for _ in range(3):
                        lo = local_of(e)
                        if lo and len(defs.defs.get(lo[0], [])) == 1:
                            e = strip(defs.defs[lo[0]][0])
                        else:
                            break
                    if e.get("k") != "Index" or (_rl(e["e"]) or (None,))[0] not in lists:
                        continue
                    n += 1
                    rep.fn(p)
                    key = "%s/component-modulus#%d" % (p, k)
                    k += 1
                    idx = strip(e["i"])
                    if idx.get("k") == "Lit":
                        rep.violation(RM, key, "inside a loop over the RNS components, %s is given the prime at the fixed index %s "
                                      "while the component's own prime is the one at the loop index: components other than that one "
                                      "receive residues of a different integer" %
                                      ((callee(c) or {}).get("name") or c.get("name"), idx.get("v")), facts.loc(p, c))
                    elif local_of(idx) and local_of(idx)[0] in lids:
                        rep.ok(RM, key, "modulus indexed by the component variable", facts.loc(p, c), nontrivial=False)
                    else:
                        rep.unresolved(RM, key, "modulus index is neither the component variable nor a literal", facts.loc(p, c))
    return n
