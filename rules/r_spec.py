"""Three small specification clauses added in round 13.

R-STDTABLE [N] (C13) — the security tables are the HomomorphicEncryption.org standard's.  `he_standard_params_<bits>_<tc|tq>`
map a ring degree to the largest total coefficient-modulus bit count the standard allows for a ternary secret; validation
(`HeContext::validate`, `CoeffModulus::max_bit_count`) compares against them.  The published table is the specification —
it is kept HERE as the oracle (not copied from the source) and every literal arm of the functions' `match` is compared with it:
a larger value admits parameter sets the requested security level excludes.

R-RNGPROV(bias) [N] (C16) — `sample::uniform` does not reduce a raw random word modulo the prime.  `next_u64() % q` favours the
residues below 2^64 mod q (by up to a factor 2 for 60-bit primes in the middle of their range); a uniform residue comes from a
range sampler (`Uniform` / `gen_range`, which reject) or from an explicit rejection loop.

R-ROUND [N] (C12) — the scaled coefficient is ROUNDED before it becomes an integer.  Every `f64 as {u,i}{64,128}` cast in the
CKKS encoders takes a value whose definition passes through `round()` (or floor / ceil / trunc of an offset value), or through
`|x| + 0.5` with the absolute value taken BEFORE the offset.  `(x + 0.5).abs() as u64` truncates negative coefficients towards
zero after the shift (error up to 1.5 units instead of 0.5)."""
from facts import walk, callee, strip, local_of, root_local, Defs

STD = {
    "128_tc": {1024: 27, 2048: 54, 4096: 109, 8192: 218, 16384: 438, 32768: 881},
    "192_tc": {1024: 19, 2048: 37, 4096: 75, 8192: 152, 16384: 305, 32768: 611},
    "256_tc": {1024: 14, 2048: 29, 4096: 58, 8192: 118, 16384: 237, 32768: 476},
    "128_tq": {1024: 25, 2048: 51, 4096: 101, 8192: 202, 16384: 411, 32768: 827},
    "192_tq": {1024: 17, 2048: 35, 4096: 70, 8192: 141, 16384: 284, 32768: 571},
    "256_tq": {1024: 13, 2048: 27, 4096: 54, 8192: 109, 16384: 220, 32768: 443},
}


def _int(v):
    try:
        return int(str(v).split("_")[0].rstrip("usizeu64i32"), 0) if not str(v).split("_")[0].isdigit() else int(str(v).split("_")[0])
    except ValueError:
        return None


def run_stdtable(facts, rep, floor=0):
    R = "R-STDTABLE"
    rep.rule(R, "every literal arm of he_standard_params_<bits>_<tc|tq> does not exceed the HomomorphicEncryption.org standard's "
             "bound for that degree (oracle table kept in the checker)")
    n = 0
    for p in sorted(facts.hir):
        name = facts.items[p]["name"]
        if not name.startswith("he_standard_params_") or name[len("he_standard_params_"):] not in STD:
            continue
        tab = STD[name[len("he_standard_params_"):]]
        ms = [x for x in walk(facts.hir[p]) if x.get("k") == "Match"]
        if len(ms) != 1:
            rep.unresolved(R, p, "the table is not a single `match` on the degree", facts.loc(p))
            continue
        for arm in ms[0]["arms"]:
            if arm["pat"].get("k") != "PLit":
                continue
            deg, val = _int(arm["pat"].get("v")), (_int(strip(arm["body"]).get("v")) if strip(arm["body"]).get("k") == "Lit" else None)
            key = "%s/%s" % (p, deg)
            n += 1
            rep.fn(p)
            if deg is None or val is None or deg not in tab:
                rep.unresolved(R, key, "arm not a literal degree of the standard / value not a literal", facts.loc(p, arm["body"]))
            elif val > tab[deg]:
                rep.violation(R, key, "%s allows %d bits of total coefficient modulus at degree %d; the standard's bound is %d: "
                              "parameter sets between the two are reported as set at a security level they do not reach" %
                              (name, val, deg, tab[deg]), facts.loc(p, arm["body"]))
            else:
                rep.ok(R, key, "degree %d: %d bits (standard: %d)" % (deg, val, tab[deg]), facts.loc(p, arm["body"]),
                       nontrivial=(val == tab[deg]), sample={"function": name, "degree": deg, "bits": val})
    rep.floor(R, "literal arms of the security tables", n, floor)
    return n


RAW = ("next_u64", "next_u32", "gen", "r#gen", "random")
RANGED = ("sample", "gen_range", "sample_single", "sample_iter")


def run_bias(facts, rep, floor=0):
    R = "R-RNGPROV(bias)"
    rep.rule(R, "sample::uniform stores residues drawn by a range sampler or under an explicit rejection loop, never a raw "
             "random word reduced with `%`")
    n = 0
    for p in sorted(facts.hir):
        it = facts.items[p]
        if it["file"] != "src/util/rlwe.rs" or it["name"] != "uniform" or "::tests::" in p:
            continue
        body = facts.inlined(p)
        defs = Defs(body)
        has_loop = any(x.get("k") in ("While", "Loop") for x in walk(body))
        k_s = 0
        for x in walk(body):
            if x.get("k") != "Assign" or strip(x["lhs"]).get("k") != "Index":
                continue
            n += 1
            rep.fn(p)
            key = "%s/store#%d" % (p, k_s)
            k_s += 1
            cl = list(defs.closure(x["rhs"]))
            names = [((callee(y) or {}).get("name") or y.get("name")) for y in cl if y.get("k") in ("Call", "MCall")]
            rems = [y for y in cl if y.get("k") == "Bin" and y.get("op") == "%" and
                    any(((callee(z) or {}).get("name") or z.get("name")) in RAW for z in defs.closure(y["a"]) if z.get("k") in ("Call", "MCall"))]
            if rems and not has_loop:
                rep.violation(R, key, "the stored residue is a raw random word reduced with `%`: residues below 2^w mod q are drawn more "
                              "often than the others (noticeably for primes that are not just below a power of two), so the mask / "
                              "public-key component is not uniform modulo the prime", facts.loc(p, x))
            elif rems:
                rep.unresolved(R, key, "`%` of a raw word inside a function with a loop: rejection not analysed", facts.loc(p, x))
            elif any(nm in RANGED for nm in names):
                rep.ok(R, key, "drawn by a range sampler", facts.loc(p, x), sample={"function": p})
            else:
                rep.unresolved(R, key, "source of the stored residue not recognised", facts.loc(p, x))
    rep.floor(R, "stores of sample::uniform", n, floor)
    return n


ROUNDERS = ("round", "floor", "ceil", "trunc", "round_ties_even", "rint")
INT_T = ("u64", "i64", "u128", "i128")       # coefficient words; usize casts are sizes / bit counts


def run_round(facts, rep, floor=1):
    R = "R-ROUND"
    rep.rule(R, "every float-to-integer cast of the CKKS encoders takes a value that was rounded (round / floor / ceil / trunc), or "
             "`|x| + 0.5` with the absolute value inside the offset")
    n = 0
    for p in sorted(facts.hir):
        it = facts.items[p]
        if it["file"] != "src/ckks_encoder.rs" or not it["name"].startswith("encode_internal") or "::tests::" in p:
            continue
        body = facts.hir[p]
        defs = Defs(body)
        k_s = 0
        for x in walk(body):
            if x.get("k") != "Cast" or not facts.ty(x["e"]).startswith("f") or facts.ty(x) not in INT_T:
                continue
            cl = list(defs.closure(x["e"]))
            names = [((callee(y) or {}).get("name") or y.get("name")) for y in cl if y.get("k") in ("Call", "MCall")]
            if any(nm in ("log2", "log10", "ln") for nm in names):
                continue                       # a magnitude estimate (bit count), not a coefficient
            n += 1
            rep.fn(p)
            key = "%s/cast#%d" % (p, k_s)
            k_s += 1
            if any(nm in ROUNDERS for nm in names):
                rep.ok(R, key, "value passes through %s" % [nm for nm in names if nm in ROUNDERS][0], facts.loc(p, x),
                       sample={"function": p})
                continue
            half = [y for y in cl if y.get("k") == "Bin" and y.get("op") == "+" and
                    any(strip(z).get("k") == "Lit" and str(strip(z).get("v", "")).startswith("0.5") for z in (y["a"], y["b"]))]
            if half:
                inner_abs = all(any(((callee(z) or {}).get("name") or z.get("name")) == "abs"
                                    for side in (y["a"], y["b"]) for z in defs.closure(side) if z.get("k") in ("Call", "MCall"))
                                for y in half)
                if inner_abs:
                    rep.ok(R, key, "|x| + 0.5 truncated: round-half-up of a non-negative value", facts.loc(p, x))
                else:
                    rep.violation(R, key, "the value cast to an integer is `x + 0.5` without a rounding call and without taking |x| "
                                  "first: the cast truncates towards zero, so negative coefficients are off by up to 1.5 units "
                                  "instead of being rounded to nearest", facts.loc(p, x))
            elif any(y.get("k") == "Lit" and "." in str(y.get("v", "")) for y in cl) and not names:
                rep.unresolved(R, key, "float constant expression", facts.loc(p, x))
            else:
                rep.violation(R, key, "a float is cast to an integer without being rounded: the cast truncates towards zero, the "
                              "coefficient is not the rounded scaled preimage (error up to 1 unit)", facts.loc(p, x))
    rep.floor(R, "float-to-integer casts in the CKKS encoders", n, floor)
    return n
