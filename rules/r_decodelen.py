"""R-DECODELEN [N] — a decoded BFV/BGV plaintext polynomial is indexed only after it is brought to full length.

Premise (read from the code on every run): the BFV and BGV decryption routines trim the plaintext to its significant
coefficient count (`destination.resize(get_significant_uint64_count_uint(..)..)`), and BatchEncoder::decode_polynomial /
decode_polynomial_new return exactly the plaintext's data (no padding).  Hence the vector a caller receives can be as short
as ONE element — whenever the trailing coefficients of the message are zero.

Rule: in library code, a vector obtained from BatchEncoder::decode_polynomial(_new) that is read by an index expression
which is not a literal must first be resized (`.resize(n, ..)`) in the same function, as the sibling
RnspBatchEncoder::decode_internal_new does.  Otherwise a legitimate message with zero high coefficients (an all-zero output
column, an all-zero kernel) makes the helper panic with an out-of-bounds index instead of returning 0.
"""
from facts import walk, callee, strip, local_of, root_local, Tree

R = "R-DECODELEN"
DEC = ("batch_encoder::BatchEncoder::decode_polynomial", "batch_encoder::BatchEncoder::decode_polynomial_new")


def _premise(facts):
    """-> (trimming decrypt routines, unpadded decoders)"""
    trims = []
    for p in sorted(facts.methods_of("encryptor::Decryptor")):
        body = facts.hir.get(p)
        if body is None:
            continue
        cnt = set()
        for x in walk(body):
            if x.get("k") == "Let" and x["pat"].get("k") == "PBind" and "init" in x and \
                    any((callee(y) or {}).get("name") == "get_significant_uint64_count_uint" for y in walk(x["init"])):
                cnt.add(x["pat"]["lid"])
        for x in walk(body):
            if x.get("k") == "MCall" and x.get("name") == "resize" and x["args"] and \
                    any(local_of(y) and local_of(y)[0] in cnt for y in walk(x["args"][0])):
                trims.append(p)
                break
    unpadded = []
    for d in DEC:
        body = facts.hir.get(d)
        if body is None:
            continue
        pads = any(x.get("k") == "MCall" and x.get("name") == "resize" and x["args"] and
                   not any(y.get("k") == "MCall" and y.get("name") == "len" for y in walk(x["args"][0])) for x in walk(body))
        if not pads:
            unpadded.append(d)
    return trims, unpadded


def run(facts, rep, scope_prefix="src/app/", floor=0):
    rep.rule(R, "a vector decoded by BatchEncoder::decode_polynomial(_new) (as short as the trimmed plaintext) is resized "
             "before it is read at a computed index")
    trims, unpadded = _premise(facts)
    rep.extra["decodelen_premise"] = {"trimming_decrypt": trims, "unpadded_decoders": unpadded}
    n = 0
    if not trims or not unpadded:
        rep.ok(R, "premise", "decryption no longer trims plaintexts or the decoders pad their result: nothing to require",
               None, nontrivial=False)
        return 0
    for p in sorted(facts.hir):
        it = facts.items[p]
        if not it["file"].startswith(scope_prefix):
            continue
        body = facts.hir[p]
        sites = [x for x in walk(body) if x.get("k") in ("MCall", "Call") and (callee(x) or {}).get("def") in DEC]
        if not sites:
            continue
        rep.fn(p)
        tree = Tree(body)
        order = {id(x): i for i, x in enumerate(walk(body))}
        resized = {}
        for x in walk(body):
            if x.get("k") == "MCall" and x.get("name") == "resize" and x["args"]:
                rl = root_local(x["recv"])
                if rl:
                    resized.setdefault(rl[0], []).append(order[id(x)])
        for k, c in enumerate(sites):
            name = (callee(c) or {}).get("name")
            buf = None
            escapes = False
            if name == "decode_polynomial":
                buf = root_local(c["args"][-1])
            else:
                anc = tree.ancestors(c)
                let = next((a for a in anc if a.get("k") == "Let"), None)
                if let is not None and let["pat"].get("k") == "PBind" and strip(let["init"]) is c:
                    buf = (let["pat"]["lid"], let["pat"]["name"])
                    # bound inside a closure / block whose value is that local: the vector leaves through it
                    blk = next((a for a in anc if a.get("k") == "Block" and any(s is let for s in a.get("stmts") or [])), None)
                    tl = local_of(blk["expr"]) if blk is not None and blk.get("expr") is not None else None
                    if tl and tl[0] == buf[0] and not any(order[id(c)] < r for r in resized.get(buf[0], [])):
                        buf = None
                        escapes = True
                else:
                    escapes = True
            key = "%s/decode#%d" % (p, k)
            n += 1
            if buf is not None:
                reads = [x for x in walk(body) if x.get("k") == "Index" and (root_local(x["e"]) or (None,))[0] == buf[0] and
                         strip(x["i"]).get("k") != "Lit" and order[id(x)] > order[id(c)] and
                         not (strip(x["i"]).get("k") == "Struct" and "Range" in strip(x["i"]).get("path", ""))]
                if not reads:
                    rep.ok(R, key, "`%s` is not read at a computed index" % buf[1], facts.loc(p, c), nontrivial=False)
                    continue
                first = min(order[id(x)] for x in reads)
                if any(order[id(c)] < r < first for r in resized.get(buf[0], [])):
                    rep.ok(R, key, "`%s` is resized after decoding and before it is indexed" % buf[1], facts.loc(p, c),
                           sample={"function": p, "buffer": buf[1], "indexed_reads": len(reads)})
                else:
                    rep.violation(R, key, "`%s` holds the decoded polynomial of a decrypted plaintext, which decryption trims to its "
                                  "significant coefficients (possibly one), and is read at a computed index without being resized "
                                  "to the polynomial degree first: a result whose high coefficients are zero (an all-zero output "
                                  "column or kernel) panics with an out-of-bounds index instead of decoding to 0" % buf[1],
                                  facts.loc(p, reads[0]))
            else:
                # the decoded vector leaves the expression unresized (closure tail collected into a Vec of vectors)
                anc = tree.ancestors(c)
                outer = next((a for a in anc if a.get("k") == "Let" and a["pat"].get("k") == "PBind" and
                              any(y.get("k") == "Closure" for y in walk(a["init"]))), None)
                dbl = []
                if outer is not None:
                    ol = outer["pat"]["lid"]
                    dbl = [x for x in walk(body) if x.get("k") == "Index" and strip(x["e"]).get("k") == "Index" and
                           (root_local(x["e"]) or (None,))[0] == ol and strip(x["i"]).get("k") != "Lit"]
                if not dbl:
                    rep.unresolved(R, key, "decoded vector flows into an expression the rule does not follow", facts.loc(p, c))
                else:
                    rep.violation(R, key, "the decoded polynomials collected into `%s` are as short as the trimmed plaintexts and are "
                                  "read at a computed index without being resized to the polynomial degree: a packed result whose "
                                  "high coefficients are zero panics with an out-of-bounds index instead of decoding to 0" %
                                  outer["pat"]["name"], facts.loc(p, dbl[0]))
    rep.floor(R, "decode_polynomial call sites in the application helpers", n, floor)
    return n
