"""R-METAFLOW — symbolic metadata bookkeeping of ciphertexts / plaintexts (C03 scale, C02/C05 correction
factor and level, C06 agreement of the API forms at the metadata level).

Every Ciphertext/Plaintext object carries four metadata fields: scale, correction_factor (cf),
is_ntt_form (ntt) and parms_id (level).  The engine evaluates a function symbolically over the initial
metadata of its parameters (`scale(P1)`, `cf(P2)`, ...): setters store canonical symbolic expressions,
accessors read them, clones copy them, callees are applied through their own summaries.  At the
function's normal returns the final metadata of each `&mut` parameter and of the returned object is a
symbolic expression over the operands' initial metadata (joined over paths: unequal => unknown `?`).

Judgements [N]:
  (forms)  the in-place, destination and returning forms of one operation produce the same symbolic
           metadata on their result (scheme by scheme, on the scheme projection);
  (out)    the result metadata of a form never depends on the INITIAL metadata of a pure out-parameter
           (`destination`): that is the caller's garbage, not an operand;
  (table)  rows for the operations the properties name: product of scales for CKKS multiply / square /
           multiply_plain, scale divided by the dropped prime for rescale, scale unchanged for the
           drop switch, cf(a)*cf(b) mod t, cf(a)*inv_q_last mod t, level = next level.
"""
from facts import walk, callee, target_key, root_local, strip, local_of
from flow import Flow
from r_guard import is_tracked_ty, strip_ty

FIELDS = ("scale", "cf", "ntt", "level")
GETTERS = {"scale": "scale", "correction_factor": "cf", "is_ntt_form": "ntt", "parms_id": "level"}
SETTERS = {"set_scale": "scale", "set_correction_factor": "cf", "set_is_ntt_form": "ntt", "set_parms_id": "level"}
META_TYPES = ("text::Ciphertext", "text::Plaintext")
TRANSPARENT = {"clone", "unwrap", "as_ref", "borrow", "to_owned", "deref", "expect", "into", "as_mut"}
UNK = ("?",)


def is_meta_ty(t):
    return strip_ty(t) in META_TYPES


def canon_mul(a, b):
    fs = []
    for x in (a, b):
        if isinstance(x, tuple) and x and x[0] == "mul":
            fs.extend(x[1])
        else:
            fs.append(x)
    return ("mul", tuple(sorted(fs, key=repr)))


def subst(sym, mapping):
    """Replace ('sym', field, 'Pj') leaves by mapping[(field, 'Pj')]."""
    if not isinstance(sym, tuple):
        return sym
    if sym and sym[0] == "sym":
        return mapping.get((sym[1], sym[2]), sym)
    if sym and sym[0] == "ploc":
        return mapping.get(("ploc", sym[1]), sym)
    if sym and sym[0] == "mul":
        out = None
        for x in sym[1]:
            y = subst(x, mapping)
            out = y if out is None else canon_mul(out, y)
        return out
    return tuple(subst(x, mapping) if isinstance(x, tuple) else x for x in sym)


def mentions(sym, pred):
    if not isinstance(sym, tuple):
        return False
    if pred(sym):
        return True
    return any(mentions(x, pred) for x in sym if isinstance(x, tuple))


def show(sym):
    if not isinstance(sym, tuple) or not sym:
        return str(sym)
    h = sym[0]
    if h == "sym":
        return "%s(%s)" % (sym[1], sym[2])
    if h == "lit":
        return str(sym[1])
    if h == "mul":
        return " * ".join(show(x) for x in sym[1])
    if h == "div":
        return "%s / %s" % (show(sym[1]), show(sym[2]))
    if h == "?":
        return "?"
    if h == "fresh":
        return "default-%s" % sym[1]
    if h == "call":
        return "%s(%s)" % (sym[1], ", ".join(show(x) for x in sym[2:]))
    if h == "get":
        return "%s.%s" % (show(sym[2]), sym[1])
    if h in ("loc", "ploc"):
        return sym[1]
    if h == "bin":
        return "(%s %s %s)" % (show(sym[2]), sym[1], show(sym[3]))
    return "%s(%s)" % (h, ", ".join(show(x) for x in sym[1:]))


class MetaSummary:
    def __init__(self):
        self.out = {}       # param index -> {field: sym}   (final metadata of &mut tracked params)
        self.ret = None     # {field: sym} of the returned object, if the return type is tracked
        self.normal = True


class MetaEngine:
    def __init__(self, facts, out_names=("destination", "result", "dest", "output")):
        self.facts = facts
        self.memo = {}
        self.stack = []
        self.provisional = {}
        self.recursed = set()
        self.out_names = out_names
        self.probe_names = ()        # callee names whose evaluated arguments are recorded per calling function
        self.probes = {}             # fpath -> {id(node): (node, [arg syms])}

    def param_symbols(self, it):
        syms = {}
        for j, p in enumerate(it["params"]):
            if p["pat"].get("k") == "PBind" and is_meta_ty(p.get("ty", "")):
                syms[j] = p["pat"]["name"]
        return syms

    def summary(self, fpath):
        if fpath in self.memo:
            return self.memo[fpath]
        if fpath in self.stack:
            # recursion: use the provisional summary of the enclosing computation (first round: the recursive call is
            # assumed not to return, i.e. only the non-recursive paths define the summary; second round: that summary)
            self.recursed.add(fpath)
            return self.provisional.get(fpath, "diverge")
        if len(self.stack) > 12:
            return None
        body = self.facts.hir.get(fpath)
        it = self.facts.items.get(fpath)
        if body is None or it is None:
            return None
        self.stack.append(fpath)
        try:
            s = self._analyse(fpath, it, body)
            if fpath in self.recursed:
                self.provisional[fpath] = s
                s2 = self._analyse(fpath, it, body)
                # keep only what is stable under one unrolling
                for j in list(s2.out):
                    if j in s.out:
                        s2.out[j] = {f: (s2.out[j][f] if s2.out[j][f] == s.out[j][f] else UNK) for f in FIELDS}
                if s2.ret is not None and s.ret is not None:
                    s2.ret = {f: (s2.ret[f] if s2.ret[f] == s.ret[f] else UNK) for f in FIELDS}
                s = s2
                self.provisional.pop(fpath, None)
        finally:
            self.stack.pop()
        self.memo[fpath] = s
        return s

    def _analyse(self, fpath, it, body):
        facts = self.facts
        eng = self
        a0, o0 = {}, {}
        for j, p in enumerate(it["params"]):
            if p["pat"].get("k") == "PBind" and is_meta_ty(p.get("ty", "")):
                oid = "P%d" % j
                a0[p["pat"]["lid"]] = oid
                o0[oid] = {f: ("sym", f, oid) for f in FIELDS}
        init = {"a": a0, "o": o0, "v": {}}
        counter = [0]
        # non-metadata parameters (parms_id, scale, ...): symbolic leaves that a caller's summary application replaces
        # by the value of the actual argument
        plain_params = {p["pat"]["lid"] for p in it["params"]
                        if p["pat"].get("k") == "PBind" and not is_meta_ty(p.get("ty", ""))}

        def join(x, y):
            a = {l: x["a"][l] for l in x["a"] if y["a"].get(l) == x["a"][l]}
            o = {}
            for oid in set(x["o"]) & set(y["o"]):
                o[oid] = {f: (x["o"][oid][f] if x["o"][oid][f] == y["o"][oid][f] else UNK) for f in FIELDS}
            v = {l: x["v"][l] for l in x["v"] if y["v"].get(l) == x["v"][l]}
            return {"a": a, "o": o, "v": v}

        def obj_of(e, st):
            """object id of an expression denoting a tracked object (through refs, clones are NOT followed)"""
            e = strip(e)
            for _ in range(10):
                if e.get("k") == "MCall" and e.get("name") in ("as_ref", "as_mut", "borrow", "borrow_mut", "unwrap"):
                    e = strip(e["recv"])
                elif e.get("k") == "Index":
                    e = strip(e["e"])
                else:
                    break
            lo = local_of(e)
            if lo:
                return st["a"].get(lo[0])
            return None

        def ev(e, st):
            e = strip(e)
            k = e.get("k")
            if k == "Lit":
                return ("lit", e.get("v"))
            if k == "Path":
                if e.get("res") == "local":
                    if e["lid"] in st["v"]:
                        return st["v"][e["lid"]]
                    oid = st["a"].get(e["lid"])
                    if oid:
                        return ("obj", oid)
                    if e["lid"] in plain_params:
                        return ("ploc", e["name"])
                    return ("loc", e["name"])
                return ("const", e.get("def", "?").rsplit("::", 1)[-1])
            if k == "Cast":
                return ev(e["e"], st)
            if k == "Bin":
                x, y = ev(e["a"], st), ev(e["b"], st)
                if e["op"] == "*":
                    return canon_mul(x, y)
                if e["op"] == "/":
                    return ("div", x, y)
                return ("bin", e["op"], x, y)
            if k == "Un":
                return ("un", e["op"], ev(e["e"], st))
            if k == "Field":
                return ("field", e["name"], ev(e["e"], st))
            if k == "MCall":
                name = e.get("name")
                if name in GETTERS and not e["args"]:
                    oid = obj_of(e["recv"], st)
                    if oid and oid in st["o"]:
                        return st["o"][oid][GETTERS[name]]
                if name in TRANSPARENT and not e["args"]:
                    return ev(e["recv"], st)
                return ("call", name, ev(e["recv"], st)) + tuple(ev(a, st) for a in e["args"])
            if k == "Call":
                f = callee(e)
                nm = f["name"] if f else e.get("ctor", "?").rsplit("::", 1)[-1]
                return ("call", nm) + tuple(ev(a, st) for a in e["args"])
            if k == "Block" and e.get("expr") is not None and (not e.get("stmts") or e.get("projected")):
                return ev(e["expr"], st)
            if k == "Block" and e.get("expr") is not None and all(
                    s_.get("k") == "Let" and s_["pat"].get("k") == "PBind" and "init" in s_ and
                    not is_meta_ty(facts.strs[s_["pat"]["t"]]) for s_ in e["stmts"]):
                # a value block with plain local lets: { let q = ..; (a / q, b) }
                st2 = {"a": st["a"], "o": st["o"], "v": dict(st["v"])}
                for s_ in e["stmts"]:
                    st2["v"][s_["pat"]["lid"]] = ev(s_["init"], st2)
                return ev(e["expr"], st2)
            if k == "Tup":
                return ("tup",) + tuple(ev(x, st) for x in e["es"])
            if k == "If" and e.get("el") is not None:
                a, b = ev(e["th"], st), ev(e["el"], st)
                return a if a == b else UNK
            if k == "Match":
                vals = [ev(arm["body"], st) for arm in e["arms"] if facts.ty(arm["body"]) != "!"]
                if vals and all(v == vals[0] for v in vals):
                    return vals[0]
                return UNK
            return UNK

        def new_obj(st, fields):
            counter[0] += 1
            oid = "N%d" % counter[0]
            o = dict(st["o"])
            o[oid] = dict(fields)
            return oid, {"a": st["a"], "o": o, "v": st["v"]}

        def fields_of_expr(e, st):
            """metadata of the object value produced by expression e (clone of a tracked object, constructor, callee)"""
            e0 = strip(e)
            if e0.get("k") == "MCall" and e0.get("name") in ("clone", "to_owned"):
                oid = obj_of(e0["recv"], st)
                if oid and oid in st["o"]:
                    return dict(st["o"][oid])
            if e0.get("k") in ("Call", "MCall"):
                f = callee(e0)
                if f and f["name"] in ("new", "default") and is_meta_ty(facts.ty(e0)):
                    return {fl: ("fresh", fl) for fl in FIELDS}
                if f and f.get("local"):
                    tk = target_key(f)
                    s = eng.summary(tk) if tk in facts.hir else None
                    if s is not None and s != "diverge" and s.ret is not None:
                        args = ([e0["recv"]] if e0["k"] == "MCall" else []) + e0["args"]
                        mapping = call_mapping(tk, args, st)
                        return {fl: subst(s.ret[fl], mapping) for fl in FIELDS}
            oid = obj_of(e0, st)
            if oid and oid in st["o"]:
                return dict(st["o"][oid])
            return {fl: UNK for fl in FIELDS}

        def call_mapping(tk, args, st):
            mapping = {}
            cit = facts.items[tk]
            for j, a in enumerate(args):
                if j < len(cit["params"]) and is_meta_ty(cit["params"][j].get("ty", "")):
                    oid = obj_of(a, st)
                    # a temporary clone passed by reference: `&x.clone()`
                    flds = None
                    if oid and oid in st["o"]:
                        flds = st["o"][oid]
                    else:
                        flds = fields_of_expr(a, st)
                    for fl in FIELDS:
                        mapping[(fl, "P%d" % j)] = flds[fl]
                elif j < len(cit["params"]) and cit["params"][j]["pat"].get("k") == "PBind":
                    mapping[("ploc", cit["params"][j]["pat"]["name"])] = ev(a, st)
            return mapping

        def set_field(st, oid, field, val):
            o = dict(st["o"])
            d = dict(o.get(oid, {f: UNK for f in FIELDS}))
            d[field] = val
            o[oid] = d
            return {"a": st["a"], "o": o, "v": st["v"]}

        def unwrapped(pat):
            """`Some(x)` / `Ok(x)` (let-else, if-let, match arm): the binding x of a transparent wrapper pattern"""
            if pat.get("k") in ("PStruct", "PTupleStruct") and pat.get("path", "").rsplit("::", 1)[-1] in ("Some", "Ok"):
                subs = [q for q in walk(pat) if q.get("k") == "PBind"]
                if len(subs) == 1:
                    return subs[0]
            return None

        def transfer(n, st):
            k = n.get("k")
            if k in ("Let", "LetE") and n.get("pat") and unwrapped(n["pat"]) is not None and "init" in n:
                n = {"k": "Let", "pat": unwrapped(n["pat"]), "init": n["init"]}
                k = "Let"
            if k == "ArmPat" and unwrapped(n["pat"]) is not None:
                n = {"k": "Let", "pat": unwrapped(n["pat"]), "init": n["scrut"]}
                k = "Let"
            if k == "Let" and n["pat"].get("k") == "PTuple" and "init" in n:
                val = ev(n["init"], st)
                v = dict(st["v"])
                for i, q in enumerate(n["pat"]["ps"]):
                    if q.get("k") == "PBind":
                        v[q["lid"]] = val[i + 1] if isinstance(val, tuple) and val and val[0] == "tup" and i + 1 < len(val) else UNK
                return {"a": st["a"], "o": st["o"], "v": v}
            if k == "Let":
                pat = n["pat"]
                if pat.get("k") == "PBind" and "init" in n:
                    t = facts.strs[pat["t"]]
                    if is_meta_ty(t):
                        if t.startswith("&"):
                            oid = obj_of(n["init"], st)
                            a = dict(st["a"])
                            if oid:
                                a[pat["lid"]] = oid
                            else:
                                a.pop(pat["lid"], None)
                            return {"a": a, "o": st["o"], "v": st["v"]}
                        flds = fields_of_expr(n["init"], st)
                        oid, st = new_obj(st, flds)
                        a = dict(st["a"])
                        a[pat["lid"]] = oid
                        return {"a": a, "o": st["o"], "v": st["v"]}
                    v = dict(st["v"])
                    v[pat["lid"]] = ev(n["init"], st)
                    return {"a": st["a"], "o": st["o"], "v": v}
                return st
            if k == "Assign":
                lhs = n["lhs"]
                rl = root_local(lhs)
                if rl and is_meta_ty(facts.ty(lhs)):
                    # *dest = expr  /  x = expr : the object behind the place takes the value's metadata
                    flds = fields_of_expr(n["rhs"], st)
                    oid = st["a"].get(rl[0])
                    if oid is None:
                        oid, st = new_obj(st, flds)
                        a = dict(st["a"])
                        a[rl[0]] = oid
                        return {"a": a, "o": st["o"], "v": st["v"]}
                    o = dict(st["o"])
                    o[oid] = dict(flds)
                    return {"a": st["a"], "o": o, "v": st["v"]}
                if rl and local_of(lhs) and rl[0] in st["v"] or (rl and local_of(lhs)):
                    v = dict(st["v"])
                    v[rl[0]] = ev(n["rhs"], st)
                    return {"a": st["a"], "o": st["o"], "v": v}
                return st
            if k == "AssignOp":
                rl = root_local(n["lhs"])
                if rl and local_of(n["lhs"]):
                    v = dict(st["v"])
                    cur = v.get(rl[0], ("loc", rl[1]))
                    r = ev(n["rhs"], st)
                    op = n.get("op", "").rstrip("=")
                    v[rl[0]] = canon_mul(cur, r) if op == "*" else (("div", cur, r) if op == "/" else ("bin", op, cur, r))
                    return {"a": st["a"], "o": st["o"], "v": v}
                return st
            if k in ("MCall", "Call"):
                f = callee(n)
                name = f["name"] if f else n.get("name", "")
                args = ([n["recv"]] if k == "MCall" else []) + n["args"]
                if name in eng.probe_names:
                    eng.probes.setdefault(fpath, {})[id(n)] = (n, [ev(a, st) for a in args])
                if k == "MCall":
                    oid = obj_of(n["recv"], st)
                    if oid and name in SETTERS and n["args"]:
                        return set_field(st, oid, SETTERS[name], ev(n["args"][0], st))
                    if oid and name == "resize" and is_meta_ty(facts.ty_adj(n["recv"])) and len(n["args"]) >= 2 \
                            and strip_ty(facts.ty_adj(n["recv"])) == "text::Ciphertext":
                        return set_field(st, oid, "level", ev(n["args"][1], st))
                if f and f.get("local"):
                    tk = target_key(f)
                    if tk in facts.hir and any(is_meta_ty(p.get("ty", "")) for p in facts.items[tk]["params"]):
                        s = eng.summary(tk)
                        if s == "diverge":
                            return None
                        if s is None:
                            # recursion / unknown: metadata of &mut tracked args becomes unknown
                            for j, a in enumerate(args):
                                if j < len(facts.items[tk]["params"]) and \
                                        facts.items[tk]["params"][j].get("ty", "").startswith("&mut ") and \
                                        is_meta_ty(facts.items[tk]["params"][j].get("ty", "")):
                                    oid = obj_of(a, st)
                                    if oid:
                                        for fl in FIELDS:
                                            st = set_field(st, oid, fl, UNK)
                            return st
                        if not s.normal:
                            return None
                        mapping = call_mapping(tk, args, st)
                        for j, flds in s.out.items():
                            if j < len(args):
                                oid = obj_of(args[j], st)
                                if oid:
                                    o = dict(st["o"])
                                    o[oid] = {fl: subst(flds[fl], mapping) for fl in FIELDS}
                                    st = {"a": st["a"], "o": o, "v": st["v"]}
                        return st
                return st
            if k == "ForBind" or k == "ArmPat":
                return st
            return st

        fl = Flow(facts, join, transfer, closure_mode="maybe")
        fl.run(body, init)
        s = MetaSummary()
        rets = fl.rets
        if not rets:
            s.normal = False
            return s
        for j, p in enumerate(it["params"]):
            if p["pat"].get("k") == "PBind" and is_meta_ty(p.get("ty", "")) and p.get("ty", "").startswith("&mut "):
                oid = "P%d" % j
                fin = None
                for st, _ in rets:
                    cur = st["o"].get(oid, {f: UNK for f in FIELDS})
                    fin = dict(cur) if fin is None else {f: (fin[f] if fin[f] == cur[f] else UNK) for f in FIELDS}
                s.out[j] = fin
        if is_meta_ty(it.get("ret", "")) and not it.get("ret", "").startswith("&"):
            fin = None
            for st, node in rets:
                val = node.get("e") if node.get("k") == "Ret" else (node.get("expr") if node.get("k") == "Block" else node)
                cur = fields_of_expr(val, st) if val is not None else {f: UNK for f in FIELDS}
                fin = dict(cur) if fin is None else {f: (fin[f] if fin[f] == cur[f] else UNK) for f in FIELDS}
            s.ret = fin
        return s


def result_of(facts, eng, p):
    """(result metadata {field: sym}, mapping operand name -> Pj, out-param symbols) of a public form."""
    it = facts.items[p]
    s = eng.summary(p)
    if s is None or not s.normal:
        return None, {}, set()
    names = {}
    outsyms = set()
    for j, pp in enumerate(it["params"]):
        if pp["pat"].get("k") == "PBind" and is_meta_ty(pp.get("ty", "")):
            names["P%d" % j] = pp["pat"]["name"]
            if pp.get("ty", "").startswith("&mut ") and pp["pat"]["name"] in eng.out_names:
                outsyms.add("P%d" % j)
    res = None
    if s.ret is not None:
        res = s.ret
    else:
        # destination param if any, else the first &mut tracked param
        cand = [j for j in s.out if "P%d" % j in outsyms] or sorted(s.out)
        if cand:
            res = s.out[cand[0]]
    return res, names, outsyms


def rename(sym, names, order):
    """Rename Pj leaves to positional operand symbols A, B, ... following `order` (list of Pj in operand order)."""
    m = {}
    for i, pj in enumerate(order):
        for f in FIELDS:
            m[(f, pj)] = ("sym", f, "op%d" % i)
    return subst(sym, m)


def operand_order(facts, eng, p):
    it = facts.items[p]
    order = []
    for j, pp in enumerate(it["params"]):
        if pp["pat"].get("k") == "PBind" and is_meta_ty(pp.get("ty", "")):
            if pp.get("ty", "").startswith("&mut ") and pp["pat"]["name"] in eng.out_names:
                continue
            order.append("P%d" % j)
    return order


def check_forms(facts_by_scheme, rep, families, rule="R-METAFLOW(forms)"):
    """families: {stem: {name: path}}.  facts_by_scheme: {scheme: (facts-like, MetaEngine)}."""
    rep.rule(rule, "per scheme projection, the three API forms of an operation leave the same symbolic metadata (scale, "
             "correction factor, representation flag, level) on their result, as expressions over the operands' metadata")
    rep.rule("R-METAFLOW(out)", "the result metadata of a form does not depend on the initial metadata of a pure "
             "out-parameter (destination)")
    n = 0
    for scheme, (pf, eng) in facts_by_scheme.items():
        for stem in sorted(families):
            members = families[stem]
            res = {}
            for name, p in sorted(members.items()):
                r, names, outsyms = result_of(pf, eng, p)
                rep.fn(p)
                if r is None:
                    continue
                order = operand_order(pf, eng, p)
                # (out)
                for f in FIELDS:
                    bad = [o for o in outsyms if mentions(r[f], lambda s: s[0] == "sym" and s[2] == o)]
                    key = "%s/%s/%s/%s" % (scheme, stem, name, f)
                    if bad:
                        rep.violation("R-METAFLOW(out)", key,
                                      "under %s, the %s recorded on the result of %s is computed from the INITIAL %s of the "
                                      "out-parameter `%s` (%s): the caller's stale destination leaks into the result, so "
                                      "this form disagrees with its siblings" %
                                      (scheme, f, p, f, names.get(bad[0], bad[0]), show(r[f])), pf.loc(p))
                res[name] = {f: rename(r[f], names, order) for f in FIELDS}
            if len(res) < 2:
                continue
            n += 1
            ref_name = sorted(res)[0]
            for f in FIELDS:
                vals = {nm: res[nm][f] for nm in res}
                known = {nm: v for nm, v in vals.items() if not mentions(v, lambda s: s == UNK)}
                key = "%s/%s/%s" % (scheme, stem, f)
                distinct = {repr(v) for v in known.values()}
                if len(distinct) > 1:
                    desc = "; ".join("%s: %s" % (nm, show(v)) for nm, v in sorted(known.items()))
                    rep.violation(rule, key, "under %s the forms of `%s` record different %s on their result — %s" %
                                  (scheme, stem, f, desc), pf.loc(members[ref_name]))
                elif len(known) < len(vals):
                    rep.unresolved(rule, key, "%s not resolved symbolically for %s" %
                                   (f, ", ".join(sorted(set(vals) - set(known)))), pf.loc(members[ref_name]))
                else:
                    rep.ok(rule, key, "all %d forms record %s = %s" % (len(vals), f, show(next(iter(known.values())))),
                           pf.loc(members[ref_name]), nontrivial=(f in ("scale", "cf")),
                           sample={"scheme": scheme, "family": stem, "field": f, "value": show(next(iter(known.values())))})
    return n


def _is(sym, head, *pred):
    return isinstance(sym, tuple) and sym and sym[0] == head


def check_table(pf, eng, rep, scheme, rows, rule="R-METAFLOW(table)"):
    """rows: (entry path, field, predicate(sym, ops) -> bool, expectation text)."""
    for p, field, pred, text in rows:
        if p not in pf.items:
            rep.violation(rule, "anchor/%s" % p, "anchor-missing: %s" % p)
            continue
        r, names, outsyms = result_of(pf, eng, p)
        rep.fn(p)
        key = "%s/%s/%s" % (scheme, p, field)
        if r is None:
            rep.ok(rule, key, "entry never returns normally under %s" % scheme, pf.loc(p), nontrivial=False)
            continue
        order = operand_order(pf, eng, p)
        sym = rename(r[field], names, order)
        if mentions(sym, lambda s: s == UNK):
            rep.violation(rule, key, "under %s, %s records %s = %s on its result: the paths of the operation disagree "
                          "or the value is not a function of the operands' metadata; expected %s" %
                          (scheme, p, field, show(sym), text), pf.loc(p))
        elif pred(sym):
            rep.ok(rule, key, "%s = %s (%s)" % (field, show(sym), text), pf.loc(p),
                   sample={"entry": p, "scheme": scheme, "field": field, "value": show(sym)})
        else:
            rep.violation(rule, key, "under %s, %s records %s = %s on its result; expected %s" %
                          (scheme, p, field, show(sym), text), pf.loc(p))


def S(field, i):
    return ("sym", field, "op%d" % i)


def is_product(sym, *factors):
    want = None
    for f in factors:
        want = f if want is None else canon_mul(want, f)
    return sym == want


def is_call(sym, name, *must_contain):
    if not (isinstance(sym, tuple) and sym and sym[0] == "call" and sym[1] == name):
        return False
    return all(any(a == m for a in sym[2:]) for m in must_contain)


def _canon_ctx(c):
    """context-data expression -> canonical ('ctxof', level sym) / the expression itself"""
    if isinstance(c, tuple) and c and c[0] == "call" and c[1] == "get_context_data" and len(c) >= 3:
        return ("ctxof", c[-1])
    return c


def _canon_level(l):
    if isinstance(l, tuple) and l and l[0] == "call" and l[1] == "parms_id" and len(l) >= 3:
        return _canon_ctx(l[2])
    return ("ctxof", l)


def check_scale_guard_level(pf, eng, rep, scheme, fn_filter, rule="R-GUARD(scale-level)"):
    """The context data handed to is_scale_within_bounds denotes the level the RESULT will carry: a scale that fits the
    operand's level but not the result's must be refused."""
    rep.rule(rule, "every is_scale_within_bounds test uses the context data of the level recorded on the operation's result")
    eng.probe_names = ("is_scale_within_bounds",)
    n = 0
    for p in sorted(pf.hir):
        if not fn_filter(p):
            continue
        if not any((callee(x) or {}).get("name") == "is_scale_within_bounds" for x in walk(pf.hir[p])):
            continue
        eng.memo.pop(p, None)
        s = eng.summary(p)
        if s is None or s == "diverge" or not s.normal:
            continue
        res, names, outsyms = result_of(pf, eng, p)
        if res is None:
            continue
        lvl = res["level"]
        for k, (node, args) in enumerate(sorted(eng.probes.get(p, {}).values(), key=lambda t: (t[0].get("l", 0), t[0].get("c", 0)))):
            n += 1
            rep.fn(p)
            key = "%s/%s#%d" % (scheme, p, k)
            g = args[-1]
            if mentions(lvl, lambda z: z == UNK) or mentions(g, lambda z: z == UNK):
                rep.unresolved(rule, key, "level %s / guard context %s not resolved" % (show(lvl), show(g)), pf.loc(p, node))
            elif __import__("re").fullmatch(r"[A-Za-z_][A-Za-z0-9_]*", show(g) or ""):
                rep.unresolved(rule, key, "the guard's context `%s` is a parameter of this helper: the level is decided at its callers" %
                               show(g), pf.loc(p, node))
            elif _canon_ctx(g) == _canon_level(lvl):
                rep.ok(rule, key, "the scale is tested against the level of the result (%s)" % show(lvl), pf.loc(p, node),
                       sample={"function": p, "result_level": show(lvl), "guard_context": show(g)})
            else:
                rep.violation(rule, key, "under %s, %s tests the scale against %s but its result is recorded at level %s: a scale "
                              "that fits the tested level and not the result's is computed on instead of being refused" %
                              (scheme, p, show(g), show(lvl)), pf.loc(p, node))
            # the scale that is tested must be the scale the result carries
            tested = args[0] if len(args) >= 2 else None
            rscale = res.get("scale") if isinstance(res, dict) else None
            if tested is not None and rscale is not None:
                skey = key + "/scale"
                if mentions(tested, lambda z: z == UNK) or mentions(rscale, lambda z: z == UNK):
                    rep.unresolved(rule, skey, "tested scale %s / recorded scale %s not resolved" % (show(tested), show(rscale)),
                                   pf.loc(p, node))
                elif show(tested) == show(rscale):
                    rep.ok(rule, skey, "the tested scale is the scale recorded on the result (%s)" % show(rscale), pf.loc(p, node),
                           nontrivial=False)
                else:
                    rep.violation(rule, skey, "under %s, %s tests the bound on the scale %s but records %s on its result: a product whose "
                                  "scale no longer fits the modulus passes the test of the operand's old scale and is computed instead "
                                  "of refused" % (scheme, p, show(tested), show(rscale)), pf.loc(p, node))
    return n


def check_resize_guards(facts, rep, files=("src/evaluator.rs",), rule="R-METAFLOW(resize)"):
    """R-METAFLOW(resize) [N]: the destination of an operation is brought to the result's size on every path.  A `destination.resize(
    .., size)` that is skipped unless `destination.size() < size` (or `>`) leaves a destination that held a LARGER (smaller)
    object at its old size: only the result's components are overwritten, the stale ones stay and the object keeps its old
    `size` — the three-operand form then disagrees with the _new / _inplace forms for a reused destination."""
    from facts import walk, strip, local_of, root_local, Tree
    rep.rule(rule, "a resize of an output ciphertext / plaintext is not guarded by a one-sided comparison of its current size")
    n = 0
    for p in sorted(facts.hir):
        it = facts.items[p]
        if it["file"] not in files or "::tests::" in p:
            continue
        body = facts.hir[p]
        outs = {prm["pat"]["lid"]: prm["pat"]["name"] for prm in it["params"] if prm["pat"].get("k") == "PBind" and
                prm.get("ty", "").startswith("&mut ") and ("Ciphertext" in prm.get("ty", "") or "Plaintext" in prm.get("ty", ""))}
        if not outs:
            continue
        tree = Tree(body)
        k = 0
        for x in walk(body):
            if not (x.get("k") == "MCall" and x.get("name") == "resize" and (local_of(x["recv"]) or (None,))[0] in outs):
                continue
            dl = local_of(x["recv"])
            for a in tree.ancestors(x):
                if a.get("k") != "If" or not any(y is x for y in walk(a["th"])):
                    continue
                onesided = None
                for c in walk(a["c"]):
                    if c.get("k") == "Bin" and c.get("op") in ("<", ">", "<=", ">="):
                        for me in (c["a"], c["b"]):
                            m = strip(me)
                            if m.get("k") == "MCall" and m.get("name") in ("size", "coeff_count", "len") and \
                                    (root_local(m["recv"]) or (None,))[0] == dl[0]:
                                onesided = c
                if onesided is None:
                    continue
                n += 1
                rep.fn(p)
                rep.violation(rule, "%s/%s/resize#%d" % (p, dl[1], k), "`%s.resize(..)` runs only when its current size compares `%s` with "
                              "the result's: a reused destination on the other side of the comparison keeps its old size and its "
                              "stale components, so this form returns a different object than the _new / _inplace forms" %
                              (dl[1], onesided.get("op")), facts.loc(p, x))
                k += 1
    return n
