"""R-OUTCOVER [N] — a caller-supplied plaintext that is resized (not freshly allocated) is completely defined by the call.

`Plaintext::resize` keeps the old elements of a reused destination (Vec::resize zero-fills only the elements it adds).
An encoder that resizes its `&mut Plaintext` destination and then stores residues at computed positions therefore
defines the whole polynomial only if its stores cover every position — or if the buffer is zero-filled first.

For every store `data[idx] = ..` into the destination's data, `idx` is read as a polynomial  sum c_v * v  over the loop
variables v in [0, hi_v) (r_slotmod.Sym).  The stores cover the buffer densely iff, ordering the variables by their
coefficients, c_1 = 1, c_{k+1} = c_k * hi_k and c_last * hi_last = the resize length, as polynomial identities.
 * all identities hold                                  -> covered
 * a whole-buffer `fill(0)` (or per-component `fill`) precedes the stores          -> covered
 * the chain breaks at a variable whose bound is the LENGTH OF AN INPUT SLICE parameter (the caller may pass a shorter
   list) and nothing zero-fills the buffer                 -> violation: positions len..stride of every component keep the
   previous contents of a reused destination and are transformed with the rest (the encoding of a short list into a
   reused plaintext is not the encoding of that list)
 * anything else (bounds equal only through an invariant, e.g. 2 * slots = N)         -> unresolved, never an alarm
"""
from facts import walk, callee, strip, local_of, root_local, Tree
from r_slotmod import Sym, padd, pmul, pconst, pshow, atoms_of

R = "R-OUTCOVER"


def _is_zero(e):
    e = strip(e)
    return e.get("k") == "Lit" and str(e.get("v", "")).split("_")[0] in ("0", "0.0")


def run(facts, rep, files=("src/ckks_encoder.rs", "src/batch_encoder.rs"), floor=0):
    rep.rule(R, "stores into a resized caller-supplied plaintext cover it densely (polynomial identities between index "
             "coefficients, loop bounds and the resize length) or follow a zero fill; a loop bounded by the length of an input "
             "slice without a zero fill leaves stale coefficients")
    n = 0
    for p in sorted(facts.hir):
        it = facts.items[p]
        if it["file"] not in files or "::tests::" in p:
            continue
        dests = [prm["pat"] for prm in it["params"] if prm["pat"].get("k") == "PBind" and
                 prm.get("ty", "").replace(" ", "") in ("&muttext::Plaintext",)]
        if not dests:
            continue
        body = facts.hir[p]
        slice_params = {prm["pat"]["lid"] for prm in it["params"] if prm["pat"].get("k") == "PBind" and
                        (prm.get("ty", "").startswith("&[") or "Vec<" in prm.get("ty", ""))}
        for d in dests:
            dl = d["lid"]
            resizes = [x for x in walk(body) if x.get("k") == "MCall" and x.get("name") == "resize" and x["args"] and
                       (local_of(x["recv"]) or (None,))[0] == dl]
            if not resizes:
                continue
            sym = Sym(facts, body)
            tree = Tree(body)
            order = {id(x): i for i, x in enumerate(walk(body))}
            rs = sym.poly(resizes[0]["args"][0])
            # aliases of the destination's data
            alias = {dl}
            for x in walk(body):
                if x.get("k") == "Let" and x["pat"].get("k") == "PBind" and "init" in x:
                    i0 = strip(x["init"])
                    if i0.get("k") == "MCall" and i0.get("name") in ("data_mut", "as_mut_slice") and \
                            (root_local(i0["recv"]) or (None,))[0] in alias:
                        alias.add(x["pat"]["lid"])
            stores = [x for x in walk(body) if x.get("k") == "Assign" and strip(x["lhs"]).get("k") == "Index" and
                      (root_local(strip(x["lhs"])["e"]) or (None,))[0] in alias and order[id(x)] > order[id(resizes[0])]]
            if not stores:
                continue
            n += 1
            rep.fn(p)
            key = "%s/%s/cover" % (p, d["name"])
            # a whole-buffer zero fill between the resize and the first store, not nested in a branch or loop
            first = min(order[id(s)] for s in stores)
            filled = False
            for x in walk(body):
                if x.get("k") == "MCall" and x.get("name") == "fill" and x["args"] and _is_zero(x["args"][0]) and \
                        (root_local(x["recv"]) or (None,))[0] in alias and order[id(resizes[0])] < order[id(x)] < first and \
                        not any(a.get("k") in ("If", "For", "While", "Loop", "Match", "Closure") for a in tree.ancestors(x)):
                    rc = strip(x["recv"])
                    if not (rc.get("k") == "Index"):          # a sub-range fill is not a whole-buffer fill
                        filled = True
            if filled:
                rep.ok(R, key, "`%s` is zero-filled after the resize and before the %d indexed store(s)" % (d["name"], len(stores)),
                       facts.loc(p, resizes[0]), sample={"function": p, "stores": len(stores)})
                continue
            verdicts = []
            for s in stores:
                idx = sym.poly(strip(s["lhs"])["i"])
                if not isinstance(idx, dict) or not isinstance(rs, dict):
                    verdicts.append(("unres", s, "index or resize length is not polynomial"))
                    continue
                # split idx into loop-variable terms
                terms = []
                okform = True
                for m, c in idx.items():
                    lv = [a for a in m if a in sym.ranges]
                    if len(lv) != 1:
                        okform = False
                        break
                    rest = list(m)
                    rest.remove(lv[0])
                    terms.append((lv[0], {tuple(rest): c}))
                if not okform or not terms:
                    verdicts.append(("unres", s, "index is not a sum of (coefficient * loop variable) terms"))
                    continue
                coef = {}
                for v, cpoly in terms:
                    coef[v] = padd(coef.get(v, {}), cpoly)
                if any(sym.ranges[v][0] for v in coef):
                    verdicts.append(("unres", s, "a loop does not start at 0"))
                    continue
                # chain: start at stride 1
                need = pconst(1)
                left = dict(coef)
                broke = None
                while left:
                    nxt = [v for v, c in left.items() if not padd(c, need, -1)]
                    if not nxt:
                        broke = ("coef", need)
                        break
                    v = nxt[0]
                    need = pmul(left.pop(v), sym.ranges[v][1])
                    last_v = v
                if broke is None and not padd(need, rs, -1):
                    verdicts.append(("ok", s, ""))
                    continue
                # where does the chain break?  find the variable whose bound should have been the next coefficient
                culprit = None
                if broke is not None:
                    # `need` = c_k * hi_k of the last consumed variable does not equal any remaining coefficient
                    culprit = last_v if "last_v" in dir() else None
                else:
                    culprit = last_v
                hi = sym.ranges[culprit][1] if culprit else None
                by_param = False
                if hi is not None:
                    for a in atoms_of(hi):
                        if a.startswith("len("):
                            inner = a[4:-1]
                            by_param = by_param or any(inner.endswith("#%d" % l) or ("#%d." % l) in inner or inner.startswith(
                                "%s#%d" % (nm, l)) for l in slice_params for nm in [q["pat"]["name"] for q in it["params"]
                                                                                    if q["pat"].get("lid") == l])
                verdicts.append(("viol" if by_param else "unres", s,
                                 "loop `%s` runs to %s where dense coverage needs %s" %
                                 (culprit.split("#")[0] if culprit else "?", pshow(hi) if hi is not None else "?",
                                  "the next stride / the buffer length")))
            bad = [v for v in verdicts if v[0] == "viol"]
            unres = [v for v in verdicts if v[0] == "unres"]
            if bad and unres:
                rep.unresolved(R, key, "coverage of `%s` not decided: some stores are bounded by an input's length (%s) but others are "
                               "not read (%s) — they may complete the coverage" % (d["name"], bad[0][2], unres[0][2]), facts.loc(p, bad[0][1]))
            elif bad:
                rep.violation(R, key, "`%s` is resized (old elements kept) and then stored into only at positions bounded by the "
                              "length of an input slice (%s); nothing zero-fills it first: positions beyond the input's length keep "
                              "the previous contents of a reused destination in every RNS component and are encoded with the rest" %
                              (d["name"], bad[0][2]), facts.loc(p, bad[0][1]))
            elif unres:
                rep.unresolved(R, key, "coverage of `%s` not decided: %s" % (d["name"], unres[0][2]), facts.loc(p, unres[0][1]))
            else:
                rep.ok(R, key, "the %d indexed store(s) cover `%s` densely up to the resize length %s" %
                       (len(stores), d["name"], pshow(rs)), facts.loc(p, stores[0]), sample={"function": p, "stores": len(stores)})
    rep.floor(R, "resized destinations with indexed stores", n, floor)
    return n
