"""R-GUARD — refusal dominance (interprocedural, path-sensitive over the structured HIR).

For a function F the engine computes a *summary* relative to F's parameters:
  * ret_facts   — guard facts that hold on EVERY normally-returning path (panics and Err/false
                  refusal returns are not normal returns);
  * effects     — the first uses of an operand's data (a `&mut self` method on the operand, or
                  handing its residue buffer to an arithmetic routine), each with the set of guard
                  classes that had been established for that operand on the way there.
A guard fact (class, operands) is established on the continuing side of a two-way branch whose other
side refuses (panic!/assert!/unreachable!/`return Err`), when the branch condition — followed through
local definitions and predicate helpers — calls the class's accessor(s) on the operand(s).
Operands are tracked by *value identity* through clones, re-borrows, `*dst = src.clone()` and calls.
Callees are applied through their own summaries (memoised; recursion cut).  Everything is decided on
the typed HIR of the current tree; callees are resolved by DefId, helpers are found through the
call graph, not by name.
"""
from facts import walk, callee, target_key, Defs, root_local, strip
from flow import Flow

# class -> list of alternatives; an alternative is a list of (accessor name, role) with role x / y / *
CLASSES = {
    "valid": [[("is_valid_for", "x")], [("is_metadata_valid_for", "x"), ("is_data_valid_for", "x")]],
    # a seed-compressed object carries the flag word 2^64-1 in its data, which is >= every modulus, so data
    # validity (is_valid_for / is_data_valid_for) refuses it as well (text.rs CIPHERTEXT_SEED_FLAG, valcheck.rs)
    "noseed": [[("contains_seed", "x")], [("is_valid_for", "x")], [("is_data_valid_for", "x")]],
    "same_level": [[("parms_id", "x"), ("parms_id", "y")], [("chain_index", "x"), ("chain_index", "y")],
                   [("coeff_modulus_size", "x"), ("coeff_modulus_size", "y")]],
    "same_scale": [[("scale", "x"), ("scale", "y")]],
    "same_repr": [[("is_ntt_form", "x"), ("is_ntt_form", "y")]],
    "repr": [[("is_ntt_form", "x")]],
    "scale_bound": [[("scale", "x"), ("total_coeff_modulus_bit_count", "*")],
                    [("scale", "x"), ("plain_modulus", "*")]],
    # a refusing branch whose condition is computed from parameter x and from the modulus size
    "mag_bound": [[("param", "x"), ("total_coeff_modulus_bit_count", "*")]],
    # a refusing branch that compares parameter x directly with the literal zero (sign test)
    "positive": [[("cmp0", "x")]],
    "not_upward": [[("parms_id", "x"), ("chain_index", "*")]],
    "not_last": [[("parms_id", "x"), ("last_parms_id", "*")], [("parms_id", "x"), ("next_context_data", "*")]],
}
import re
ZERO_LIT = re.compile(r"^0+(\.0*)?(_?(f64|f32|u64|usize|i64|u32|i32|u8|isize))?$")
GUARD_ACCESSORS = {a for alts in CLASSES.values() for alt in alts for a, _ in alt}

TRACKED = ("text::Ciphertext", "text::Plaintext", "key::PublicKey", "key::SecretKey", "key::KSwitchKeys",
           "key::RelinKeys", "key::GaloisKeys")
IDENTITY_METHODS = {"clone", "to_vec", "to_owned", "as_ref", "as_mut", "borrow", "borrow_mut", "iter", "iter_mut",
                    "unwrap", "expect", "as_slice", "as_mut_slice", "deref", "deref_mut", "chunks", "chunks_mut",
                    "get", "get_mut", "first", "last", "as_kswitch_keys", "skip", "take", "enumerate", "zip"}


def strip_ty(t):
    t = t.strip()
    while t.startswith("&"):
        t = t[1:].lstrip()
        if t.startswith("'"):
            t = t.split(" ", 1)[1] if " " in t else t
        if t.startswith("mut "):
            t = t[4:]
    return t


def is_tracked_ty(t):
    s = strip_ty(t)
    if s in TRACKED:
        return True
    # slices / vectors / options of tracked values
    for w in ("[", "std::vec::Vec<", "std::option::Option<"):
        if s.startswith(w):
            inner = s[len(w):]
            return any(inner.startswith(x) or inner.startswith("&" + x) for x in TRACKED)
    return False


def is_data_ty(t):
    s = strip_ty(t)
    return s.startswith("[u64]") or s.startswith("std::vec::Vec<u64") or "[u64]" in s or \
        s.startswith("std::slice::") or s.startswith("core::slice::")


class Summary:
    def __init__(self):
        self.ret_facts = frozenset()
        self.effects = []         # dicts: param, held, desc, loc, chain
        self.ret_vid = None       # ('P', j) when the returned value is (derived from) parameter j
        self.out_vids = {}        # j -> vid held by &mut parameter j at return when it changed
        self.normal_return = True
        self.n_guards = 0


class GuardEngine:
    def __init__(self, facts, refusal_values=("Err",), out_param_names=("destination", "result", "dest", "output"),
                 track_scalars=False):
        self.track_scalars = track_scalars
        self.facts = facts
        self.memo = {}
        self.stack = []
        self.reads_memo = {}
        self.refusal_values = set(refusal_values)
        self.out_names = out_param_names
        self.stats = {"functions": 0, "guards": 0, "effects": 0, "calls": 0}

    # ------------------------------------------------------------------ predicate helpers
    def reads(self, fpath, depth=0):
        """param index -> accessor names the function (transitively) calls on that parameter."""
        if fpath in self.reads_memo:
            return self.reads_memo[fpath]
        self.reads_memo[fpath] = {}
        it = self.facts.items.get(fpath)
        body = self.facts.hir.get(fpath)
        out = {}
        if it is None or body is None or depth > 5:
            return out
        plids = {}
        for j, p in enumerate(it["params"]):
            if p["pat"].get("k") == "PBind":
                plids[p["pat"]["lid"]] = j
        for x in walk(body):
            k = x.get("k")
            if k == "MCall":
                rl = root_local(x["recv"])
                if rl and rl[0] in plids:
                    out.setdefault(plids[rl[0]], set()).add(x["name"])
            if k in ("Call", "MCall"):
                f = callee(x)
                if f and f.get("local"):
                    tk = target_key(f)
                    if tk in self.facts.hir and tk != fpath:
                        sub = self.reads(tk, depth + 1)
                        args = ([x["recv"]] if k == "MCall" else []) + x["args"]
                        for ai, a in enumerate(args):
                            rl = root_local(a)
                            if rl and rl[0] in plids and ai in sub:
                                out.setdefault(plids[rl[0]], set()).update(sub[ai])
        self.reads_memo[fpath] = out
        return out

    # ------------------------------------------------------------------ value identity
    def vid_of(self, e, ids):
        for _ in range(40):
            if not isinstance(e, dict):
                return None
            k = e.get("k")
            if k in ("Ref", "Cast", "Field", "Index", "Un"):
                e = e["e"]
            elif k == "MCall":
                name = e.get("name")
                rt = self.facts.ty(e)
                if name in IDENTITY_METHODS or is_tracked_ty(rt) and name in ("clone",) or \
                        ((is_data_ty(rt) or is_tracked_ty(rt)) and is_tracked_ty_or_data(self.facts.ty_adj(e["recv"]))):
                    e = e["recv"]
                else:
                    return None
            elif k == "Call":
                f = callee(e)
                if f and f["name"] in ("clone", "from", "into") and e["args"]:
                    e = e["args"][0]
                else:
                    return None
            elif k == "Path":
                if e.get("res") == "local":
                    return ids.get(e["lid"])
                return None
            elif k == "Block" and not e.get("stmts") and e.get("expr"):
                e = e["expr"]
            elif k == "Try":
                e = e["e"]
            else:
                return None
        return None

    # ------------------------------------------------------------------ refusal recognition
    def is_refusal_value(self, v):
        if v is None:
            return False
        v = strip(v)
        k = v.get("k")
        if k == "Call" and v.get("ctor", "").endswith("::Err") and "Err" in self.refusal_values:
            return True
        if k == "Lit" and v.get("v") == "false" and "false" in self.refusal_values:
            return True
        if k == "Path" and v.get("def", "").endswith("::None") and "None" in self.refusal_values:
            return True
        return False

    def refuses(self, node):
        if node is None or self.facts.ty(node) != "!":
            return False
        for x in walk(node, into_closures=False):
            k = x.get("k")
            if k == "Ret" and not self.is_refusal_value(x.get("e")):
                return False
            if k in ("Break", "Continue"):
                return False
        return True

    def _scalar_helper(self, d):
        it = self.facts.items.get(d) or {}
        prms = it.get("params", [])
        return bool(prms) and all(p["pat"].get("k") == "PBind" and p["pat"].get("name") != "self" and
                                  not is_tracked_ty(p.get("ty", "")) and not is_data_ty(p.get("ty", "")) for p in prms)

    def _scalar_or_check_helper(self, d):
        return self._scalar_helper(d) or self._check_helper(d)

    def _check_helper(self, d):
        it = self.facts.items.get(d) or {}
        prms = [p for p in it.get("params", []) if not (p["pat"].get("k") == "PBind" and p["pat"].get("name") == "self")]
        body = self.facts.hir.get(d)
        if not prms or body is None or it.get("ret", "()") not in ("()", "", None):
            return False
        if not all(p["pat"].get("k") == "PBind" and not is_tracked_ty(p.get("ty", "")) and not is_data_ty(p.get("ty", ""))
                   for p in prms):
            return False
        return any(self.facts.ty(x) == "!" or (x.get("k") == "Macro" and x.get("name") in ("panic", "assert", "assert_eq"))
                   for x in walk(body))

    # ------------------------------------------------------------------ summaries
    def summary(self, fpath):
        if fpath in self.memo:
            return self.memo[fpath]
        if fpath in self.stack or len(self.stack) > 12:
            return Summary()       # recursion / depth cut: no facts, no effects (optimistic)
        body = self.facts.hir.get(fpath)
        it = self.facts.items.get(fpath)
        if body is None or it is None:
            return Summary()
        if hasattr(self.facts, "_inline"):
            # Helpers read in place (built from THIS view's body, uncached, so scheme projections are respected):
            #  - scalar-only private helpers (`ensure_scale(scale, bits)`, `admissible_bit_count(..)`): their guards speak about
            #    values the caller computed (a modulus bit count handed down as a plain number)  [scalar-tracking engines]
            #  - a private unit-returning checker that receives only values DERIVED from the operands
            #    (`check_not_higher_level(x.parms_id(), target)`): its refusing branch speaks about the caller's operands
            pred = self._scalar_or_check_helper if self.track_scalars else self._check_helper
            hit = False
            for x in walk(body):
                f = callee(x) if x.get("k") in ("Call", "MCall") else None
                if f and f.get("local"):
                    d = f.get("inst") if f.get("inst") in self.facts.hir else f.get("def")
                    if d != fpath and self.facts.inlinable(fpath, d) and pred(d):
                        hit = True
                        break
            if hit:
                self.facts._inl_counter = self.facts.__dict__.get("_inl_counter", 0)
                body = self.facts._inline(body, fpath, 1, (fpath,), pred)
        self.stack.append(fpath)
        try:
            s = self._analyse(fpath, it, body)
        finally:
            self.stack.pop()
        self.memo[fpath] = s
        self.stats["functions"] += 1
        return s

    def _analyse(self, fpath, it, body):
        eng = self
        facts = self.facts
        defs = Defs(body, facts)
        ids0 = {}
        plid = {}
        for j, p in enumerate(it["params"]):
            if p["pat"].get("k") == "PBind":
                plid[j] = p["pat"]["lid"]
                t = p.get("ty", "")
                if is_tracked_ty(t) or is_data_ty(t) or (eng.track_scalars and p["pat"]["name"] != "self"):
                    if t.startswith("&mut ") and p["pat"]["name"] in eng.out_names:
                        ids0[p["pat"]["lid"]] = ("O", j)     # pure out-parameter: overwritten, not an operand
                    else:
                        ids0[p["pat"]["lid"]] = ("P", j)
        summ = Summary()
        effects = []
        # positions that are refusal *values* in return position (tail `Err(..)` / `false`)
        refusal_tail = set()

        def tails(n):
            if not isinstance(n, dict):
                return
            k = n.get("k")
            if k == "Block":
                if n.get("expr"):
                    tails(n["expr"])
            elif k == "If":
                tails(n["th"])
                if n.get("el"):
                    tails(n["el"])
            elif k == "Match":
                for a in n["arms"]:
                    tails(a["body"])
            else:
                if eng.is_refusal_value(n):
                    refusal_tail.add(id(strip(n)))
        tails(body)

        def get_ids(st):
            return dict(st[0])

        def mk(ids, fs):
            return (frozenset(ids.items()), fs)

        def join(a, b):
            ia, ib = dict(a[0]), dict(b[0])
            out = {}
            for l in set(ia) | set(ib):
                va, vb = ia.get(l), ib.get(l)
                if va == vb:
                    out[l] = va
                else:
                    out[l] = "U"
            return mk(out, a[1] & b[1])

        def held(fs, v):
            return frozenset(c for c, vs in fs if v in vs)

        def add_facts(st, cond):
            ids = get_ids(st)
            mentions = set()
            for x in defs.closure(cond):
                k = x.get("k")
                if eng.track_scalars and k == "Path" and x.get("res") == "local":
                    v = ids.get(x["lid"])
                    if v is not None:
                        mentions.add(("param", v))
                if k == "Bin" and x.get("op") in ("<", "<=", ">", ">=", "==", "!="):
                    for a, b in ((x["a"], x["b"]), (x["b"], x["a"])):
                        sb = strip(b)
                        if sb.get("k") == "Lit" and ZERO_LIT.match(sb.get("v", "")):
                            v = eng.vid_of(a, ids)
                            if v is not None:
                                mentions.add(("cmp0", v))
                if k == "MCall":
                    v = eng.vid_of(x["recv"], ids)
                    mentions.add((x["name"], v))
                    mentions.add((x["name"], None))
                if k in ("Call", "MCall"):
                    f = callee(x)
                    if f is not None:
                        mentions.add((f["name"], None))
                        if f.get("local"):
                            tk = target_key(f)
                            sub = eng.reads(tk) if tk in facts.hir else {}
                            args = ([x["recv"]] if k == "MCall" else []) + x["args"]
                            for ai, a in enumerate(args):
                                v = eng.vid_of(a, ids)
                                for nm in sub.get(ai, ()):
                                    mentions.add((nm, v))
                                    mentions.add((nm, None))
            vids = {v for _, v in mentions if v is not None and v != "U"}
            new = set()
            for cls, alts in CLASSES.items():
                for alt in alts:
                    roles = {r for _, r in alt if r != "*"}
                    if roles == {"x"}:
                        for v in vids:
                            if all((a, v if r == "x" else None) in mentions for a, r in alt):
                                new.add((cls, (v,)))
                    elif roles == {"x", "y"}:
                        for v1 in vids:
                            for v2 in vids:
                                if v1 != v2 and repr(v1) < repr(v2):
                                    if all((a, v1 if r == "x" else (v2 if r == "y" else None)) in mentions for a, r in alt):
                                        new.add((cls, (v1, v2)))
            if new:
                summ.n_guards += 1
                eng.stats["guards"] += 1
                return (st[0], st[1] | frozenset(new))
            return st

        def atoms(c, sense):
            """Sub-conditions whose truth value is known on the side where `c` evaluates to `sense`."""
            k = c.get("k")
            if k == "Bin" and c.get("op") == "||":
                return atoms(c["a"], False) + atoms(c["b"], False) if not sense else []
            if k == "Bin" and c.get("op") == "&&":
                return atoms(c["a"], True) + atoms(c["b"], True) if sense else []
            if k == "Un" and c.get("op") == "!":
                return atoms(c["e"], not sense)
            if k == "Block" and not c.get("stmts") and c.get("expr"):
                return atoms(c["expr"], sense)
            return [c]

        def guard(n, st, sense_or_arm, kind):
            if kind == "if":
                sibling = n.get("el") if sense_or_arm else n["th"]
                if sibling is not None and eng.refuses(sibling):
                    ats = atoms(n["c"], bool(sense_or_arm))
                    if not ats:
                        return st
                    return add_facts(st, {"k": "Tup", "es": ats})
                return st
            if kind == "match":
                arm = sense_or_arm
                if any(eng.refuses(a["body"]) for a in n["arms"] if a is not arm):
                    return add_facts(st, n["e"])
                return st
            return st

        def record_effect(st, v, desc, node, chain=()):
            if v is None or v == "U" or v[0] != "P":
                return
            h = held(st[1], v)
            for e in effects:
                if e["param"] == v[1] and e["held"] <= h:
                    return       # a weaker-or-equal effect is already recorded
            effects.append({"param": v[1], "held": h, "desc": desc, "loc": facts.loc(fpath, node),
                            "chain": (fpath,) + tuple(chain)})
            eng.stats["effects"] += 1

        def transfer(n, st):
            k = n.get("k")
            if id(n) in refusal_tail:
                return None
            if k == "Let":
                pat = n["pat"]
                if pat.get("k") == "PBind" and "init" in n:
                    ids = get_ids(st)
                    v = eng.vid_of(n["init"], ids)
                    if v is None and is_tracked_ty(facts.strs[pat["t"]]):
                        v = call_result_vid(n["init"], ids)
                    if v is None and eng.track_scalars:
                        vs = {ids.get(x["lid"]) for x in walk(n["init"])
                              if x.get("k") == "Path" and x.get("res") == "local" and ids.get(x["lid"]) is not None}
                        vs = {x for x in vs if isinstance(x, tuple) and x[0] == "P"}
                        if len(vs) == 1:
                            v = vs.pop()
                    if v is not None:
                        ids[pat["lid"]] = v
                        return mk(ids, st[1])
                    if pat["lid"] in ids:
                        del ids[pat["lid"]]
                        return mk(ids, st[1])
                return st
            if k == "ForBind":
                ids = get_ids(st)
                v = eng.vid_of(n["iter"], ids)
                if v is not None:
                    for x in walk(n["pat"]):
                        if x.get("k") == "PBind":
                            ids[x["lid"]] = v
                    return mk(ids, st[1])
                return st
            if k == "ArmPat":
                ids = get_ids(st)
                v = eng.vid_of(n["scrut"], ids)
                if v is not None:
                    for x in walk(n["pat"]):
                        if x.get("k") == "PBind":
                            ids[x["lid"]] = v
                    return mk(ids, st[1])
                return st
            if k == "Assign":
                rl = root_local(n["lhs"])
                lhs = strip(n["lhs"])
                if rl and lhs.get("k") == "Path":
                    ids = get_ids(st)
                    v = eng.vid_of(n["rhs"], ids)
                    if v is None and is_tracked_ty(facts.ty(n["rhs"])):
                        v = call_result_vid(n["rhs"], ids) or ("F", n.get("id", 0))
                    if v is not None:
                        ids[rl[0]] = v
                    elif rl[0] in ids and is_tracked_ty(facts.ty(n["lhs"])):
                        ids[rl[0]] = ("F", n.get("id", 0))
                    return mk(ids, st[1])
                return st
            if k == "Macro" and n.get("name", "").startswith("assert"):
                ats = []
                if n.get("name") == "assert" and n["args"]:
                    ats = atoms(n["args"][0], True)
                elif n.get("name") in ("assert_eq", "assert_ne"):
                    ats = n["args"][:2]
                return add_facts(st, {"k": "Tup", "es": ats}) if ats else st
            if k in ("Call", "MCall"):
                return do_call(n, st)
            if k == "Ret":
                return st
            return st

        def call_result_vid(e, ids):
            e = strip(e)
            if e.get("k") in ("Call", "MCall"):
                f = callee(e)
                if f and f.get("local"):
                    tk = target_key(f)
                    if tk in facts.hir:
                        s = eng.summary(tk)
                        if s.ret_vid is not None:
                            args = ([e["recv"]] if e["k"] == "MCall" else []) + e["args"]
                            j = s.ret_vid[1]
                            if j < len(args):
                                return eng.vid_of(args[j], ids)
            return None

        def do_call(n, st):
            k = n["k"]
            f = callee(n)
            args = ([n["recv"]] if k == "MCall" else []) + n["args"]
            ids = get_ids(st)
            eng.stats["calls"] += 1
            name = f["name"] if f else n.get("name", "")
            if name in GUARD_ACCESSORS:
                return st
            tk = target_key(f) if f else None
            local_body = f is not None and f.get("local") and tk in facts.hir
            fs = st[1]
            if local_body:
                cit = facts.items[tk]
                tracked_param = any(is_tracked_ty(p.get("ty", "")) for p in cit["params"])
                if tracked_param:
                    s = eng.summary(tk)
                    vmap = {}
                    for j, a in enumerate(args):
                        vmap[j] = eng.vid_of(a, ids)
                    # effects inside the callee, lifted
                    for e in s.effects:
                        v = vmap.get(e["param"])
                        if v is not None and v != "U" and v[0] == "P":
                            h = e["held"] | held(fs, v)
                            dup = False
                            for e2 in effects:
                                if e2["param"] == v[1] and e2["held"] <= h:
                                    dup = True
                            if not dup:
                                effects.append({"param": v[1], "held": h, "desc": e["desc"], "loc": e["loc"],
                                                "chain": (fpath,) + tuple(e["chain"])})
                    # facts established by the callee on all its normal returns
                    new = set()
                    for cls, vs in s.ret_facts:
                        tv = tuple(vmap.get(v[1]) if (isinstance(v, tuple) and v[0] == "P") else None for v in vs)
                        if all(x is not None and x != "U" for x in tv):
                            if len(tv) == 2 and repr(tv[0]) > repr(tv[1]):
                                tv = (tv[1], tv[0])
                            new.add((cls, tv))
                    # value flow through &mut parameters
                    changed = False
                    for j, ov in s.out_vids.items():
                        if j < len(args):
                            rl = root_local(args[j])
                            if rl:
                                nv = vmap.get(ov[1]) if (isinstance(ov, tuple) and ov[0] == "P") else ("F", n.get("id", 0))
                                if nv is not None:
                                    ids[rl[0]] = nv
                                    changed = True
                    if not s.normal_return:
                        return None
                    return mk(ids, fs | frozenset(new)) if (new or changed) else st
            # leaf: effect when operand data is handed over, or a &mut self method on a tracked receiver
            if k == "MCall":
                rv = eng.vid_of(n["recv"], ids)
                rt = facts.ty_adj(n["recv"])
                if rv is not None and rt.startswith("&mut ") and is_tracked_ty(rt) and name not in IDENTITY_METHODS \
                        and not (is_data_ty(facts.ty(n)) and name.endswith("_mut")):
                    record_effect(st, rv, "write through .%s()" % name, n)
            if not (k == "MCall" and is_tracked_ty(facts.ty_adj(n["recv"]))):
                arith = f is not None and f.get("local") and (
                    f["def"].startswith("util::") or (f.get("self") or "").lstrip("&").startswith("util::") or
                    (tk or "").startswith("util::"))
                for a in args:
                    ta = facts.ty_adj(a)
                    if is_data_ty(ta) or is_data_ty(facts.ty(a)):
                        v = eng.vid_of(a, ids)
                        if v is None or name in IDENTITY_METHODS or name in ("len", "is_empty"):
                            continue
                        if ta.startswith("&mut ") or facts.ty(a).startswith("&mut "):
                            record_effect(st, v, "operand data written by %s" % (f["def"] if f else name), n)
                        elif arith:
                            record_effect(st, v, "operand data handed to %s" % f["def"], n)
            return st

        fl = Flow(facts, join, transfer, guard=guard, closure_mode="maybe")
        init = mk(ids0, frozenset())
        fl.run(body, init)
        rets = [s for s, node in fl.rets
                if not (node.get("k") == "Ret" and eng.is_refusal_value(node.get("e")))]
        summ.effects = effects
        if not rets:
            summ.normal_return = False
            summ.ret_facts = frozenset()
            return summ
        common = None
        for s in rets:
            pf = frozenset((c, vs) for c, vs in s[1] if all(isinstance(v, tuple) and v[0] == "P" for v in vs))
            common = pf if common is None else (common & pf)
        summ.ret_facts = common or frozenset()
        # value flow out of &mut params / return value
        for j, l in plid.items():
            t = it["params"][j].get("ty", "")
            if t.startswith("&mut ") and is_tracked_ty(t):
                vs = {dict(s[0]).get(l) for s in rets}
                if len(vs) == 1:
                    v = vs.pop()
                    if v == ("O", j):
                        summ.out_vids[j] = ("F", 0)
                    elif v != ("P", j) and v is not None:
                        summ.out_vids[j] = v
                else:
                    summ.out_vids[j] = ("F", 0)
        if is_tracked_ty(it.get("ret", "")):
            rv = set()
            for s, node in fl.rets:
                val = node.get("e") if node.get("k") == "Ret" else (node.get("expr") if node.get("k") == "Block" else node)
                rv.add(eng.vid_of(val, dict(s[0])) if val else None)
            if len(rv) == 1:
                v = rv.pop()
                if isinstance(v, tuple) and v[0] == "P":
                    summ.ret_vid = v
        return summ


def is_tracked_ty_or_data(t):
    return is_tracked_ty(t) or is_data_ty(t)


def operand_params(facts, fpath, out_names=("destination", "result", "dest", "output")):
    """(index, name, type) of the parameters that are operands: tracked-type parameters that are not
    pure out-parameters (a `&mut` parameter named destination/result is overwritten, not read)."""
    it = facts.items[fpath]
    out = []
    for j, p in enumerate(it["params"]):
        pat = p["pat"]
        if pat.get("k") != "PBind":
            continue
        t = p.get("ty", "")
        if not is_tracked_ty(t):
            continue
        if t.startswith("&mut ") and pat["name"] in out_names:
            continue
        out.append((j, pat["name"], t))
    return out


REQUIRED_PRE_EFFECT = {
    "text::Ciphertext": ("valid", "noseed"),
    "text::Plaintext": ("valid",),
    # key material handed to key switching is an operand too: its residues are multiplied into the result
    "key::KSwitchKeys": ("valid",),
    "key::RelinKeys": ("valid",),
    "key::GaloisKeys": ("valid",),
}


def check_validity(facts, rep, eng, entries, rule="R-GUARD(valid)"):
    """Pre-effect mode (operand validity, C06): for each entry point and each Ciphertext/Plaintext operand, no
    write to the operand and no arithmetic on its residues happens before a validity guard has seen the operand
    as passed in."""
    rep.rule(rule, "every first use of an operand's data (write through the operand, or its residues handed to a "
             "util:: arithmetic routine) is dominated, on every path from the public entry point, by a refusing "
             "branch whose condition evaluates ValCheck::is_valid_for (or metadata+data validity) and, for "
             "ciphertexts, contains_seed (or data validity) on that same operand value; operands are tracked "
             "through clones, `*dst = src.clone()` and callee summaries")
    n_pairs = n_eff = 0
    for p in sorted(entries):
        s = eng.summary(p)
        rep.fn(p)
        for j, name, t in operand_params(facts, p):
            need = REQUIRED_PRE_EFFECT.get(strip_ty(t))
            if not need:
                continue
            n_pairs += 1
            effs = [e for e in s.effects if e["param"] == j]
            if not effs:
                rep.ok(rule, "%s/%s" % (p, name), "operand `%s` is never written nor computed on by this entry "
                       "point (identity / copy path)" % name, facts.loc(p), nontrivial=False)
                continue
            n_eff += 1
            bad = [(e, sorted(set(need) - e["held"])) for e in effs if not set(need) <= e["held"]]
            if not bad:
                e = effs[0]
                rep.ok(rule, "%s/%s" % (p, name), "first use of `%s` (%s at %s) is preceded by guards {%s} on every path"
                       % (name, e["desc"], e["loc"], ", ".join(sorted(e["held"]))), facts.loc(p),
                       sample={"entry": p, "operand": name, "effect": e["desc"], "at": e["loc"],
                               "via": list(e["chain"]), "guards": sorted(e["held"])})
            for e, missing in bad:
                for m in missing:
                    rep.violation(rule, "%s/%s/%s" % (p, name, m),
                                  "operand `%s` of %s is used before a `%s` guard: %s at %s (path: %s) — an operand "
                                  "that is %s is computed on instead of refused" %
                                  (name, p, m, e["desc"], e["loc"], " > ".join(e["chain"]),
                                   "invalid for the context" if m == "valid" else "still seed-compressed"),
                                  e["loc"], sample={"via": list(e["chain"])})
    rep.stats["paths"] += eng.stats["effects"]
    rep.stats["call_sites"] += eng.stats["calls"]
    return n_pairs, n_eff


def check_return_facts(facts, rep, eng, rows, rule):
    """Pre-return mode: rows = [(entry, class, (param names...), why)] — no normally-returning path of the entry
    may lack the guard fact."""
    for p, cls, names, why in rows:
        it = facts.items.get(p)
        if it is None:
            rep.violation(rule, "anchor/%s" % p, "anchor-missing: entry point %s not found" % p)
            continue
        s = eng.summary(p)
        rep.fn(p)
        idx = []
        for nm in names:
            for j, pp in enumerate(it["params"]):
                if pp["pat"].get("k") == "PBind" and pp["pat"]["name"] == nm:
                    idx.append(("P", j))
        key = "%s/%s(%s)" % (p, cls, ",".join(names))
        if len(idx) != len(names):
            rep.violation(rule, "anchor/" + key, "anchor-missing: parameter(s) %s of %s not found" % (names, p), facts.loc(p))
            continue
        want = tuple(sorted(idx, key=repr)) if len(idx) == 2 else tuple(idx)
        if not s.normal_return:
            rep.ok(rule, key, "entry never returns normally", facts.loc(p), nontrivial=False)
        elif (cls, want) in s.ret_facts:
            rep.ok(rule, key, "every normally-returning path passes a refusing branch on %s of (%s): %s" %
                   (cls, ", ".join(names), why), facts.loc(p), sample={"entry": p, "class": cls, "operands": list(names)})
        else:
            rep.violation(rule, key, "%s can return normally without any refusing branch on `%s` of (%s): %s" %
                          (p, cls, ", ".join(names), why), facts.loc(p))


def check_key_material(facts, rep, rule="R-GUARD(keys)"):
    """R-GUARD(keys) [N]: the routine that multiplies key-switching key material into a ciphertext refuses keys whose DATA is not
    valid for the context.  In every function that takes a `&KSwitchKeys` and reads the residues of its keys
    (`.as_ciphertext()` on an element of the selected key vector), a loop over that key vector must contain a refusing branch
    whose condition evaluates `is_valid_for` — or both `is_metadata_valid_for` and `is_data_valid_for` — on the loop element.
    Shape-only checks (metadata, buffer length) let a key with an out-of-range residue, or one that is still
    seed-compressed (its data holds the seed flag word), be multiplied in instead of refused."""
    rep.rule(rule, "the consumer of key-switching key material validates the data of every key of the selected vector "
             "(is_valid_for, or metadata + data validity) in a refusing branch")
    from facts import pat_bindings
    n = 0
    for p in sorted(facts.hir):
        it = facts.items[p]
        if "::tests::" in p or not any(strip_ty(prm.get("ty", "")) == "key::KSwitchKeys" for prm in it["params"]):
            continue
        body = facts.hir[p]
        uses = [x for x in walk(body) if x.get("k") == "MCall" and x.get("name") == "as_ciphertext"]
        if not uses:
            continue
        n += 1
        rep.fn(p)
        key = "%s/key-data" % p
        found = None
        weak = None
        for lp in walk(body):
            if lp.get("k") != "For":
                continue
            elems = {l for l, _ in pat_bindings(lp["pat"])}
            for y in walk(lp["body"]):
                if y.get("k") != "If" or not (facts.ty(y["th"]) == "!" or any(z.get("k") == "Ret" for z in walk(y["th"]))):
                    continue
                names = {z["name"] for z in walk(y["c"]) if z.get("k") == "MCall" and
                         (root_local(z["recv"]) or (None,))[0] in elems}
                if "is_valid_for" in names or ("is_metadata_valid_for" in names and "is_data_valid_for" in names):
                    found = y
                elif names & {"is_metadata_valid_for", "is_buffer_valid"}:
                    weak = y
        if found is None:
            # iterator form: `if key_vector.iter().any(|key| !key.is_valid_for(..)) { panic }`
            for y in walk(body):
                if y.get("k") != "If" or not (facts.ty(y["th"]) == "!" or any(z.get("k") == "Ret" for z in walk(y["th"]))):
                    continue
                for cl in walk(y["c"]):
                    if cl.get("k") != "Closure":
                        continue
                    elems = set()
                    for prm in cl.get("params", []):
                        for l, _ in pat_bindings(prm.get("pat", prm)):
                            elems.add(l)
                    names = {z["name"] for z in walk(cl.get("body") or {}) if z.get("k") == "MCall" and
                             (root_local(z["recv"]) or (None,))[0] in elems}
                    if "is_valid_for" in names or ("is_metadata_valid_for" in names and "is_data_valid_for" in names):
                        found = y
                    elif names & {"is_metadata_valid_for", "is_buffer_valid"}:
                        weak = weak or y
        if found is not None:
            rep.ok(rule, key, "every key of the selected vector passes a refusing data-validity check", facts.loc(p, found),
                   sample={"function": p})
        elif weak is not None:
            rep.violation(rule, key, "the keys of the selected vector are checked for shape only (metadata / buffer length): a key "
                          "with an out-of-range residue, or one still seed-compressed, is multiplied into the ciphertext instead of "
                          "being refused", facts.loc(p, weak))
        else:
            rep.violation(rule, key, "key material is read without any refusing validity check on the keys of the selected vector",
                          facts.loc(p, uses[0]))
    rep.floor(rule, "consumers of key-switching key material", n, 1)
    return n
