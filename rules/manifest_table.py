"""Single source of truth for MANIFEST.json (bin/mkmanifest regenerates the file from this)."""

NOTES = ("Technique family: static analysis only. Every check extracts the program from /repo's current working "
         "tree with rustc's own front end (no execution of library code, no solver) and evaluates repository-"
         "specific rules; each claimed property is claimed PARTIALLY: the structural clauses named in "
         "level_claimed.text are decided on all paths, the value-level clauses listed in level_note are not. "
         "See DESIGN.md.")

_TB = ("Trusted: rustc nightly front end (HIR/MIR, types, trait resolution), the hcx export, the rule tables. ")

CLAIMED = {
    "C07": {
        "text": "Decides structural necessary conditions of `the reported budget equals its definition`: on the BFV and BGV "
                "projections invariant_noise_budget runs the pipeline of the definition (phase by the secret-key dot product, "
                "scaling by the plain modulus for BFV only, CRT composition, centred infinity norm against the total modulus "
                "of the ciphertext's own level, in this order), returns bits(q_level) - bits(norm) - 1 clamped at 0 where the "
                "modulus bit count is that of the level's TOTAL modulus (the sum of per-prime bit counts is a recognised wrong "
                "form), poly_infty_norm centres against half_round_up(modulus) and keeps the maximum, the computation runs on "
                "coefficient-form data, and error / ternary samples carry one value in every RNS component. R-BUDGET(reach): for every scheme the budget supports, each ciphertext representation accepted by decrypt is accepted by the budget query (per-projection, per-flag normal-return summaries). R-POWERS: the loop extending the cache of secret-key powers computes each new power from the region immediately before it and the region at offset 0, as a polynomial identity in the old size. The scaling by t may be written with a precomputed per-prime operand (multiply_operand_inplace over the components of the phase buffer): its MultiplyU64ModOperand::new operand must then be classified a residue (R-RESIDUE classifier); plain_modulus.value() itself is refused.",
        "note": _TB + "Not decided: that the reported number equals the exact budget, the fresh-encryption bound, the growth "
                "under negation / addition, exact decryption below the threshold — value-level facts. Formula forms outside "
                "the small recognised table are reported as unresolved, not as violations.",
        "technique": "scheme-projected call-sequence typestate of the phase buffer + symbolic formula polynomial with a table of recognised forms + representation typestate",
        "design_ref": "DESIGN.md §9.5",
    },
    "C19": {
        "text": "Decides structural necessary conditions of extraction, trace and packing: extract_lwe keeps coefficient "
                "`term` of every RNS component of c0 and shifts c1 by exactly 2N - term (0 for term 0); assemble_lwe stores "
                "residue i at index i*N; on the BFV, CKKS and BGV projections of extraction, field trace, division by N and "
                "packing no step mixes coefficient-form and NTT-form data, the negacyclic shift and butterfly merge run in "
                "coefficient form, the automorphism runs in the representation its scheme requires and results leave with "
                "data matching their flag; the trace and packing loops advance. The negacyclic shift is applied to coefficient-form data under every flag assumption (R-REPSTATE domain). R-LWEPAIR(meta): every metadata field assemble_lwe copies from an LWE ciphertext (parms_id, scale, correction factor) is compared across all inputs of pack_lwe_ciphertexts in a refusing check. R-LWEPAIR(shift): the butterfly's shift amount is (ring degree) >> (layer + 1), its base resolving to poly_modulus_degree and not to a count of inputs. R-LWEPAIR(element): the Galois element of butterfly layer j is (1 << (j + 1)) + 1, a shift of the literal 1, not a quantity derived from the ring degree.",
        "note": _TB + "Not decided: where coefficients land as a function of the runtime index, count and trace parameter "
                "(the stride, the factor N/2^l, the zeros), coverage of the automorphism key set, the CKKS error bound. The "
                "butterfly merge of pack_lwe_ciphertexts works on raw-pointer views of one vector's elements, which the "
                "typestate does not track individually (a documented miss in the mutant catalogue).",
        "technique": "symbolic index polynomials of the gather/scatter pair + scheme-projected representation typestate + loop-progress rule",
        "design_ref": "DESIGN.md §9.5",
    },
    "C10": {
        "text": "Decides one structural necessary condition of the clauses about division by the last prime (rounding "
                "identical in coefficient and NTT form, the BGV variant): in the four kernels, for every base order and "
                "size, no residue of the dropped prime enters the arithmetic modulo another prime unreduced (it is reduced "
                "under that prime, copied under a comparison of the two moduli, or operated on under its own prime), and "
                "every in-place operation of src/util/rns.rs on residue slot s uses the precomputed operand, modulus and "
                "NTT table of prime s (slot and index expressions compared as symbolic polynomials). R-SHAPE(baselen): the number of primes handed to the BEHZ base B equals the counter of the sizing rule (symbolic length of the prime list). R-RESDOM(half): every centring threshold / rounding offset defined as a shifted modulus value in the RNS tool is exactly half of it. R-RESDOM(negskip) as under C01. R-RESDOM(parity): where a modulus is a constant (m_tilde = Modulus::new(1 << 32), evaluated from its constructor) every comparison against its half has the inclusiveness its parity requires (`>=` for an even modulus: the residue M/2 is negative in the centred range [-M/2, M/2)). R-RESDOM / R-RESDOM(operand) read slices named through split_at_mut halves and sub-slice lets as ranges of the underlying buffer (de-aliasing view).",
        "note": _TB + "Not decided: every integer specification itself (CRT bijectivity, conversion error bounds, "
                "Montgomery / floor / Shenoy-Kumaresan exactness, round-to-nearest, value modulo t, scale-and-round) — "
                "value-level facts outside static shape analysis; the BEHZ converters iterate with zip adaptors and "
                "expose no slot arithmetic to the rule.",
        "technique": "symbolic slot / prime-index polynomials + syntactic dominance by reductions and modulus comparisons over typed HIR",
        "design_ref": "DESIGN.md §9.2 (R-RESDOM), §9.5",
    },
    "C08": {
        "text": "Decides a necessary condition of exactness for all public primitives of util::basic, "
                "util::uintsmallmod and util::number_theory: every non-constant output depends (data or control) on "
                "the contents of every value operand at every normal return, in/out operands are not killed before "
                "they are read, and no out-parameter is read before it is written. An output that ignores an operand "
                "on a path whose condition does not fix that operand cannot equal the named operation. Also: no in-place word loop reads a position an earlier iteration of the same loop has overwritten (store/load index polynomials and direction of travel), and no left shift is performed in a narrower integer type than its cast target. Every operand of add_u64_mod / sub_u64_mod / negate_u64_mod is a residue or a residue-buffer element (R-RESIDUE: provenance followed through lets, `if` values and, for parameters, every call site in the crate); a quotient, plain arithmetic or a float cast as operand is refused. Sinks also include MultiplyU64ModOperand::new (operand below the modulus) and parameters that a *_mod primitive returns unchanged on some path (derived: exponentiate_u64_mod). R-DEFFORM(quotient): the precomputed quotient of a multiplication operand is assigned from an exact 128-by-64 division, not assembled from the rounded Barrett ratio. R-CONTRA(carry) over the whole crate.",
        "note": _TB + "Not decided: exactness itself (Barrett estimates, carries, quotient digits) — a solver or "
                "enumeration question, which is a different technique family. Callees are modelled by weak updates "
                "with a short table of strong kills; loops are assumed to run at least once for the written-before-read clause.",
        "technique": "forward data+control dependency analysis over typed HIR (operand relevance, strong kills, read-before-write) + symbolic store/load ordering + type-level shift-width contradiction",
        "design_ref": "DESIGN.md §3 R-DEPEND, §4 C08",
    },
    "C09": {
        "text": "Decides the range clauses for every modulus below 2^61 by abstract interpretation of the transform core's "
                "source over k*q intervals: the forward and inverse butterfly invariants are inductive below 8q from "
                "canonical and documented lazy inputs, no addition can wrap 2^64 and no subtraction can underflow, the "
                "non-lazy forms end in [0,q) and the lazy forms inside their documented ranges; the NTT wrappers reach "
                "the transform of their direction and laziness; the random start of the primitive-root search is confined "
                "to a minimum over a start-independent set (who-may-call + scan shape), so the root is deterministic. Also: the ntt/intt _p/_ps wrappers hand every component to the transform exactly once (the running offset advances by exactly the slice width). The candidate root and every other operand of the modular primitives of the root search is a residue (R-RESIDUE with identity-return sinks: exponentiate_u64_mod hands its operand back for exponent 1). R-ADMIT(degree): no refusing branch of NTTTables::new is certain from the degree alone for a supported degree (three-valued evaluation of every refusing condition for each power with HE_POLY_MOD_DEGREE_MIN <= 2^p <= HE_POLY_MOD_DEGREE_MAX).",
        "note": _TB + "External fact used: multiply_u64operand_mod_lazy returns a value below 2q (its documented contract, "
                "covered structurally by C08). Not decided: that the transform is the evaluation map in bit-reversed "
                "order, invertibility, the convolution property.",
        "technique": "interval abstract interpretation (multiples of a symbolic modulus) of source + who-may-call + symbolic induction of wrapper offsets",
        "design_ref": "DESIGN.md §3 R-RANGE, §4 C09",
    },
    "C11": {
        "text": "Decides the inverse-pair structure of the batch encoder: encode scatters and decode gathers through "
                "the same index-map field with the loop variable as index; the tail beyond the input is zero-filled "
                "through the same map; encode ends with the inverse and decode begins with the forward non-lazy "
                "negacyclic transform of the same tables; coefficient encoding reduces modulo t; and every index "
                "guarded by a comparison with the operand length (Galois permutation) is implied in-bounds. Also: GaloisTool::apply stores to its out-buffer for every index of the ring degree. The rotation-step decomposition (naf) covers negative steps: no `v > 0` halving loop over a signed parameter that was never made non-negative (R-CONTRA(signloop)). R-PAIR(generator): the multipliers of the step-to-element walk are GALOIS_GENERATOR or a constant that is its inverse modulo 2 * HE_POLY_MOD_DEGREE_MAX (evaluated from the constant definitions). R-RESIDUE(encode): every coefficient BatchEncoder::encode_polynomial stores is the result of a reducing routine, or the caller's word under the guard `word < modulus.value()` (a bit-count guard admits t <= v < 2^bits(t)).",
        "note": _TB + "Not decided: that batching is a ring isomorphism, the slot order, the rotation correspondence "
                "(facts about roots of unity and the index map's contents).",
        "technique": "structural pair agreement on typed HIR (scatter/gather, transform pairs) + guard/use contradiction + iteration-space coverage of the out-buffer",
        "design_ref": "DESIGN.md §3 R-CONTRA, §4 C11",
    },
    "C12": {
        "text": "Decides, for the five CKKS encoding entry points: every float->integer cast selected by a magnitude "
                "tier guard depends (flow-sensitively) only on inputs the guard depends on; no wrapping arithmetic on an "
                "unbounded signed/floating input feeds a modular reduction; every entry point refuses, on every "
                "normally-returning path, through a sign test of the scale and through branches computed from the "
                "scale and from the value(s) against the modulus size. Also: the admissibility bit count carries the sign-bit allowance its formula needs and every float-to-integer cast fits its type under the branch guard. R-OUTCOVER: a caller-supplied plaintext that is resized (old contents kept) is completely defined by the call: indexed stores cover it densely (polynomial identities between strides, loop bounds and the resize length) or follow a zero fill; a loop bounded by the length of an input slice without a fill is refused. R-CONTRA(wrapcast): no wrapped unsigned difference of multi-precision words is reinterpreted as a signed integer of the same width. R-ENCADMIT(modulus): inside a loop over the RNS components every modular primitive is given the component's own prime (the modulus list indexed by the component variable, never by a literal). R-ROUND: every f64 -> {u,i}{64,128} cast in the CKKS encoders (magnitude estimates through log2 excluded) takes a value whose definition passes through round / floor / ceil / trunc, or `|x| + 0.5` with the absolute value inside the offset.",
        "note": _TB + "Not decided: rounding, double-precision error of the embedding transform, FFT correctness, "
                "slot order, consistency of RNS components as values.",
        "technique": "flow-sensitive dependency comparison of guards and casts + guard dominance with scalar operands + bit-count formula / cast-width table",
        "design_ref": "DESIGN.md §3 R-GUARDDEP/R-CONTRA/R-GUARD, §4 C12",
    },
    "C13": {
        "text": "Decides the structure of the validation ladder (HeContext::validate: early returns carry a non-Success "
                "error, nothing but `return` follows an error store, every ErrorType variant is produced, unwraps are "
                "dominated by their tests, parameters_set is matches!(error, Success)); that each mathematical "
                "precondition reaches the ladder through a refusing guard (all-pairs coprimality refusal in RNSBase::new; "
                "refusal propagation validate <- create_ntt_tables <- NTTTables::new <- try_minimal_primitive_root <- "
                "try_primitive_root with the up-front 2N | q-1 refusal); identifier reproducibility (compute_parms_id reads "
                "every hashed field, writers of hashed fields recompute on every path, nothing nondeterministic reachable). Also: the words of the parms_id hash input are stored at pairwise distinct positions for every chain length. Chain construction (R-CHAIN): partially evaluating HeContext::new under each value of the parameters' boolean flag getters never folds the branch around the expansion loop to never-taken; create_next_context_data builds the one-shorter prefix (single pop of the copied moduli), refuses before linking, links both ways from the map entry of the previous id and registers the level under its own id; the expansion loop advances cursor and last id after the zero test; chain indices count down by one per level to 0. R-CONSTDEF(form): a scalar constant copied with a literal index out of a buffer that validate converts in place to RNS form is read before the conversion. R-CONTRA(carry): the carry / borrow returned by a single-word add / sub whose result goes into a word of a multi-word buffer is not discarded. R-STDTABLE: every literal arm of the six he_standard_params_<bits>_<tc|tq> tables is compared with the HomomorphicEncryption.org standard's bound for that degree (oracle table kept in the checker); a larger value is a violation.",
        "note": _TB + "Not decided: that accepted parameters satisfy the mathematics as values, collision freedom of the "
                "hash, primality of generated moduli, panic freedom of the whole constructor tree, equality of "
                "precomputed constants with their definitions.",
        "technique": "forward error-state dataflow + dominance of unwraps + refusal-propagation chain over resolved callees + symbolic distinctness of hash-input positions",
        "design_ref": "DESIGN.md §3 R-LADDER, §4 C13",
    },
    "C14": {
        "text": "Decides, for every serialization triple (trait impls and inherent full / selected-terms / polynomial "
                "formats, containers and RNS-plaintext wrappers) and per scheme projection: the writer's and the reader's "
                "wire grammars are equal as trees (typed leaves in order, loop nesting, conditionals); the size function's "
                "fixed byte count equals the writer's per conditional branch and has a variable term wherever the writer "
                "loops; readers of possibly seed-compressed objects expand the seed before returning. The size function is evaluated as a symbolic sum (lets, +=, loops, conditionals, fold) and private helpers are expanded in place on all three sides. R-SLOTS: a position-addressed key table (Vec<Vec<PublicKey>>, premise re-read from the code) is rebuilt only through position-preserving iterator adaptors. R-WIRE(width): writer, reader and size function of a group take get_u64_limit of the same quantities (name-free signatures).",
        "note": _TB + "Not decided: equality of restored objects as values, numerical loop bounds, the closed-form "
                "variable part of the size functions, reconstruction in an independently built context.",
        "technique": "wire-grammar extraction from typed HIR with scheme projection; tree comparison of writer/reader/size + symbolic size sums",
        "design_ref": "DESIGN.md §3 R-WIRE, §4 C14",
    },
    "C15": {
        "text": "Decides, for every call site in the serialization API's call tree (all functions of the local "
                "*Serializable* trait impls and inherent serialize*/deserialize* functions plus their callees, "
                "discovered by type): no short-count write/read primitive without retry, no unwrap/expect on an "
                "io::Result, every io::Result propagated. These call-site properties are exactly what 'short writes "
                "tolerated, faults reported, early end of stream returns an error, no panic' require, and they hold "
                "for all writers/readers and all truncation offsets because they hold on every path. Results consumed through iterator adaptors are followed: flat_map / filter_map / flatten over Results drop the error. read_to_end / read_to_string count as short-read primitives unless the count or the buffer's length is compared.",
        "note": _TB + "Not decided: behaviour on corrupted (not merely truncated) input; byte-level content. "
                "Panic sites that depend on fully-read values are inventoried, not proved unreachable.",
        "technique": "call-site error-discipline analysis over typed HIR (resolved callees, consumption of io::Result values) (incl. iterator adaptors)",
        "design_ref": "DESIGN.md §3 R-IOERR, §4 C15",
    },
    "C01": {
        "text": "Decides structural necessary conditions of encrypt/decrypt correctness: under their literal flags the "
                "encryption entry points reach the worker of their own kind (secret-key vs public-key) and at least one; "
                "on each scheme projection every encrypt*/decrypt* entry has a normally-returning path (a dispatch arm "
                "exists) with flags propagated as constants; on the whole encryption/decryption call tree, per scheme and "
                "representation assumption, no arithmetic mixes coefficient and NTT form, the level-dependent mod-switch "
                "of public-key encryption uses the routine of the ciphertext's representation, results leave with data "
                "matching their flag; the stored seed is written and expanded at the same address and length; the metadata "
                "recorded on a fresh encryption is the one the scheme implies (CKKS: the plaintext's own level and scale, "
                "BFV/BGV: the first level; representation flag; correction factor 1) in every encrypt form. In scaling_variant / encryptor / rlwe every operand of add_u64_mod / sub_u64_mod / negate_u64_mod is a residue or a residue-buffer element (R-RESIDUE: provenance followed through lets, `if` values and, for parameters, every call site in the crate); a quotient, plain arithmetic or a float cast as operand is refused. MultiplyU64ModOperand::new's operand is a sink of R-RESIDUE as well (the precomputed quotient fits a word only below the modulus). R-RESDOM(negskip): no negation of a residue operand is control-dependent on a `scalar != 1` identity shortcut.",
        "note": _TB + "Not decided: that decryption returns the plaintext, any noise bound, CKKS encoding error.",
        "technique": "constant propagation of dispatch flags + scheme projection + representation typestate + symbolic metadata + address agreement",
        "design_ref": "DESIGN.md §4 C01",
    },
    "C02": {
        "text": "Decides structural necessary conditions of exact BFV/BGV evaluation: at every polysmallmod::*_ps call "
                "the polynomial count is the buffer's own (never another operand's size, through clone chains); every "
                "_ps/_p wrapper delegates to its own operation class with stride equal to the slice width and the NTT "
                "wrappers reach the transform of their direction/laziness; the BGV correction factor recorded by "
                "multiply, square and mod-switch is the modular product the operation implies (symbolic metadata); on "
                "the BFV and BGV projections no public evaluator operation mixes coefficient-form and NTT-form operands, "
                "applies a transform / RNS routine outside its domain, or returns lazy or wrongly flagged data; in the key-switch "
                "back end every stage touching an RNS slot of the scratch product uses the same prime index at every "
                "level (symbolic unification of slot and index expressions); in the add/sub back ends every transfer of the "
                "second operand into the result is selected by the subtract flag, with different routines per mode. Also: the pairwise product tree of multiply_many stays in bounds for odd counts and keeps its intermediate products. R-TENSOR: in the ciphertext-by-ciphertext products the slice indices of every dyadic product add up to the output component and the largest index into each operand is min(i, that operand's own size - 1) (symbolic maxima over the summation loop). R-FAMILY(negacyclic): base-level monomial multiplications delegate to negacyclic_shift with their exponent, or rotate right by it and negate the wrapped prefix. R-TENSOR(loops): every `for i in 0..X` that reads `Y.poly(i)` of a ciphertext operand has X resolving to Y.size().",
        "note": _TB + "Not decided: exactness of the BEHZ steps, noise growth, the arithmetic of "
                "balance_correction_factors, equality with the ring product.",
        "technique": "symbolic buffer dimensions at call sites + operation-class delegation + symbolic metadata + representation typestate + slot/prime index unification + mode-flag control dependence + counter-loop bound / dead-store contradiction",
        "design_ref": "DESIGN.md §3 R-SHAPE/R-FAMILY/R-METAFLOW/R-REPSTATE, §4 C02",
    },
    "C03": {
        "text": "Decides the three refusal clauses on the CKKS projection of the program (SchemeType dispatch "
                "specialised to CKKS): for every form of add/sub/multiply/square/add_plain/sub_plain/multiply_plain, no "
                "normally-returning path lacks a refusing branch on the levels of both ciphertexts, on the scales of "
                "both operands, or on the resulting scale against the modulus size (interprocedural guard dominance); the scale recorded by "
                "multiply / square / multiply_plain / rescale is the product or quotient the operation implies (symbolic "
                "metadata); the shared key-switch and add/sub back ends satisfy the slot/prime and mode-flag rules of C02. Also: every is_scale_within_bounds test uses the context data of the level recorded on the result. R-TENSOR: in the ciphertext-by-ciphertext product of CKKS the slice indices of every dyadic product add up to the output component and the largest index into each operand is min(i, that operand's own size - 1) (symbolic maxima over the summation loop). The scale tested by is_scale_within_bounds is the scale recorded on the result.",
        "note": _TB + "Not decided: the numerical error bound, the tolerance used when comparing scales, and the "
                "floating-point value of the recorded scale (only its symbolic form over the operands' scales).",
        "technique": "scheme-projected guard-dominance dataflow + symbolic metadata over typed HIR with callee summaries + guard-argument / result-level agreement",
        "design_ref": "DESIGN.md §3 R-GUARD, §4 C03",
    },
    "C04": {
        "text": "Decides the ordering clause of the automorphism application: symbolic buffer contents through "
                "apply_galois_inplace show that, on both representation arms, the key switch receives G(c1) while "
                "poly(0) holds G(c0) and poly(1) is zero; rotate_internal applies the element whose key it tested and "
                "composes NAF components on the same ciphertext and key set; conjugation uses step 0; the Galois "
                "permutation's length-guarded index is implied in-bounds by its guard. Also: every stage touching an RNS slot of the key-switch scratch product uses the same prime index; no sign test is applied to a value that can only be an absolute value (rotation-step decomposition). A halving digit loop guarded by `v > 0` over a signed parameter is entered only after the value was made non-negative or negative values were refused (R-CONTRA(signloop)). R-CONTRA(onesided): an equality test on a signed NAF digit against a non-negative bound goes through the digit's absolute value. R-PAIR(generator) as under C11.",
        "note": _TB + "Not decided: that X -> X^g permutes slots as documented, generator/NAF arithmetic, key-switch "
                "noise, plaintext preservation under the new key.",
        "technique": "symbolic reaching-definitions over structured HIR + structural pair agreement + guard/use contradiction + slot/prime index unification + reaching-definition sign contradiction",
        "design_ref": "DESIGN.md §3 R-CONTRA, §4 C04",
    },
    "C05": {
        "text": "Decides the termination clause outright for the loop shape involved: every while/loop in "
                "evaluator.rs/context.rs/app/lwe.rs (whole crate in the thorough tier) has an exit condition that "
                "reads something the loop writes (or an explicit exit), and each level-walking loop hands the walked "
                "object to a callee that, on every normally-returning path, moves it to next_context_data (so the "
                "finite chain is walked strictly downward or the call refuses). Refusals: no normally-returning path of "
                "the to-target forms lacks the upward test, none of the to-next/rescale forms lacks the last-level "
                "test, and on the BFV and BGV projections the rescale entry points never return normally. Also: in the kernels that drop the last prime no residue of the dropped prime enters another prime's arithmetic unreduced, and per-prime operands are taken at the slot's own index. A level walk written as a counted loop must measure its hop count from the walked object's own level (chain_index of the context data of its parms_id), not from the first/key/last level. R-GUARD(scale-level), down-chain routines: every is_scale_within_bounds test of a CKKS mod-switch / rescale routine uses the context data of the level recorded on the result, and tests the scale the result carries.",
        "note": _TB + "Not decided: preservation of the decrypted message, rounding bounds, BGV correction-factor "
                "arithmetic. Interior mutability / external state in a loop condition yields `unresolved`, never an alarm.",
        "technique": "loop-variant analysis on typed HIR (read/write sets, Freeze types) + interprocedural must-pass-through + symbolic slot/prime discipline",
        "design_ref": "DESIGN.md §3 R-LOOP, §4 C05",
    },
    "C06": {
        "text": "Decides the refusal clause for invalid / seed-compressed operands: for all public operations of "
                "Evaluator, Encryptor, Decryptor and the decoders, every Ciphertext/Plaintext operand passes a "
                "validity guard on every path before its first write or first arithmetic use (pre-effect dominance, "
                "interprocedural value-identity tracking through clones and the in-place/destination/returning forms). Also: the validity predicates scan every residue (through file-local helpers) and refuse a BGV correction factor of 0 or >= t. R-GUARD(keys): the routine that multiplies key-switching key material into a ciphertext validates the data of every key of the selected vector in a refusing branch. R-METAFLOW(resize): a resize of an output ciphertext / plaintext is not guarded by a one-sided comparison of its current size.",
        "note": _TB + "Not decided: bit-identity of the three API forms as values; validity of returned objects as a "
                "value property. Out-parameters are recognised by the public naming contract (destination/result).",
        "technique": "guard-dominance dataflow over typed HIR with callee summaries (refusing branches, value identity) + bound-form check",
        "design_ref": "DESIGN.md §3 R-GUARD/R-FORMS, §4 C06",
    },
    "C16": {
        "text": "Decides the provenance clauses of the randomness property: the entropy source is real and never cached "
                "(factory draws from OS entropy, HeContext builds it with new(), from_seed/set_seed have no library "
                "caller, no generator stored in a field or static), the no-generator entry points create their generator "
                "inside the call, every secret sampler is fed by an entropy or caller-supplied generator; with an explicit "
                "generator the stored seed and mask derive from it only; nothing nondeterministic is reachable from the "
                "generator's stream and refill hashes exactly (seed, counter); ternary / binomial samples are drawn once "
                "per coefficient outside the RNS-component loop; the seed is stored and expanded at the same address and "
                "length through from_seed -> uniform. Also: the error polynomial of every encryption worker is drawn from an entropy generator created inside the call. Word draws (next_u32 / next_u64) refill exactly when fewer than a word's bytes are left in the block (symbolic refill condition on the inlined view). R-RNGPROV(bias): sample::uniform stores residues drawn by a range sampler (or under an explicit rejection loop), never a raw random word reduced with `%`.",
        "note": _TB + "Not decided: independence of the stream from read chunking, non-repetition, difference between "
                "seeds, distribution shape, the bound 21.",
        "technique": "generator-kind provenance dataflow + who-may-call + loop-nesting of draw sites + address agreement + noise-generator provenance",
        "design_ref": "DESIGN.md §3 R-RNGPROV, §4 C16",
    },
    "C17": {
        "text": "Decides deadlock freedom and the structural conditions of the standard linearizability argument for "
                "the three lock-protected caches (discovered from the type facts): no lock is re-acquired while one of "
                "its guards is live, in the same body or through any callee (exact MIR guard live ranges); every "
                "whole-value publish through a write guard in a &self function is dominated by a re-check under that "
                "guard; data computed from a read-guard snapshot is appended through a write guard only at an offset "
                "taken from the current value or after an exiting check against the snapshot (no check-then-act "
                "append); no shrinking call through a guard; the shareable types have no interior-mutable field other "
                "than these locks; all shareable types are Send+Sync (compile-pass witnesses; compile_fail witnesses "
                "with twins in the thorough tier). R-LOCK(try): a publication guarded by try_write / try_read / try_lock is not simply skipped when the lock is busy (the failure arm diverges, retries or acquires blocking) and a try-acquisition is never unwrapped. R-LOCK(split): a &self function does not mutate the same lock-protected value under two separate write acquisitions (placeholder, then real value).",
        "note": _TB + "rustc's Send/Sync and borrow checking for the witnesses. Not decided: linearizability as a "
                "property of histories; that a published array is longer than the one it replaces.",
        "technique": "lock live-range dataflow on MIR + dominance of publishes on HIR + type-level Send/Sync witnesses",
        "design_ref": "DESIGN.md §3 R-LOCK, §4 C17",
    },
    "C18": {
        "text": "Decides: (1) per scheme projection the collective decryption reaches the same RNSTool decoder, "
                "representation change and correction-factor fix as the single-key Decryptor (sibling agreement); "
                "(2) the refusal clause: the revelation protocol's finish passes a completeness assertion over the "
                "received slots before every summation and every normal return, and no protocol reads a revelation "
                "round's result except through finish()/finish_take(); (3) a certificate that message handlers store "
                "into slot[sender_id] only, so the final state is independent of delivery order. Also: no field written by receive_X (transitively, through delegation and views) is read by send_X. R-TAPE: no call that receives the common generator is control-dependent on participant_id (branch conditions and loop bounds followed through local definitions), so every party consumes the common tape identically.",
        "note": _TB + "Not decided: that collective keys equal the sum-key objects, plaintext preservation of the "
                "protocols, identical keys across parties as values.",
        "technique": "scheme-projected sibling callee-set agreement + must-pass-through dominance + effect-summary certificate + access-path effect separation",
        "design_ref": "DESIGN.md §3 R-SCHEME/R-GUARD/R-COMMUTE, §4 C18",
    },
    "C20": {
        "text": "Decides for the matmul/conv2d helper structs: no buffer handed to an encoder has the global "
                "counterpart of a block dimension as a length factor (it would exceed the slot count for every shape "
                "the helper splits); the _bfv/_ckks twins of every helper method have identical integer skeletons; "
                "output re-encoding stores each tensor cell exactly where output decoding loads it from. Also: channel-slot conservation of the packed 2-D convolution (slot(weights) + slot(inputs) == slot read by the decoder) as a polynomial identity; and (R-DECODELEN) a vector returned by BatchEncoder::decode_polynomial(_new) — as short as the plaintext decryption trimmed — is resized before any read at a computed index (premise re-read from Decryptor and BatchEncoder on every run). R-CONVIDX(tiles): the fast tile coordinate of the input encoder's emission order is the dimension the output side takes as `index % count`.",
        "note": _TB + "Not decided: equality with the plaintext product/correlation, block-search optimality, the BOLT "
                "helpers' modular slot arithmetic beyond twin agreement.",
        "technique": "symbolic length factors + canonicalised index-expression agreement between sibling methods + cross-function polynomial identity",
        "design_ref": "DESIGN.md §3 R-ENCBOUND/R-INDEXPAIR, §4 C20",
    },
}

_NYB = "rules designed (DESIGN.md §4) but not built yet in this tree; not claimed until the check exists"
NOT_APPLICABLE = {
}
