"""R-SLOTMOD [N, producer/consumer agreement] — slot <-> modulus agreement on RNS-laid-out scratch buffers.

A local buffer allocated as  vec![0; comps * coeff_count * rns_size]  holds `rns_size` residue polynomials per
component; slot s of it holds residues modulo ONE prime of the key chain.  Every site that mutates a slot *under a
modulus* (an in-place polymod operation or transform taking `&X[M]`, an element store whose right-hand side reduces with
`X[M]`) states a belief "slot s is modulo prime M".  All beliefs about the same slot must agree: if the producer loop
fills slot s under prime M1 and a later stage transforms or reduces the same slot under prime M2 != M1, the slot's
residues are interpreted under another prime and the key switch / relinearisation result is wrong at every level where
M1 != M2.

Both sides are symbolic: slot and modulus index expressions are evaluated to integer polynomials over opaque atoms
(`len(parms.coeff_modulus())`, loop variables with their ranges, ...), conditional index expressions
(`if i == decomp {last} else {i}`) are decided under the unifying substitution and the loop ranges.  A disagreement is
reported only when both indices resolve to polynomials whose difference involves nothing but chain-size atoms, loop
variables and constants; everything else is `unresolved` (no alarm).
"""
import re
from facts import walk, callee, strip, local_of, pat_bindings

R = "R-SLOTMOD"


# ------------------------------------------------------------------ integer polynomials over atoms
def pconst(c):
    return {(): c} if c else {}


def patom(a):
    return {(a,): 1}


def padd(p, q, sign=1):
    out = dict(p)
    for m, c in q.items():
        v = out.get(m, 0) + sign * c
        if v:
            out[m] = v
        else:
            out.pop(m, None)
    return out


def pmul(p, q):
    out = {}
    for m1, c1 in p.items():
        for m2, c2 in q.items():
            m = tuple(sorted(m1 + m2))
            v = out.get(m, 0) + c1 * c2
            if v:
                out[m] = v
            else:
                out.pop(m, None)
    return out


def psubst(p, var, q):
    out = {}
    for m, c in p.items():
        term = pconst(c)
        for a in m:
            term = pmul(term, q if a == var else patom(a))
        out = padd(out, term)
    return out


def pshow(p):
    if not p:
        return "0"
    p = {tuple(_short(a) for a in m): c for m, c in p.items()}
    parts = []
    for m, c in sorted(p.items()):
        names = [re.sub(r"#\d+$", "", a) for a in m]
        if not m:
            parts.append(str(c))
        elif c == 1:
            parts.append("*".join(names))
        else:
            parts.append("%d*%s" % (c, "*".join(names)))
    return " + ".join(parts).replace("+ -", "- ")


def _short(a):
    a = re.sub(r"#\d+", "", a)
    if a.startswith("len(") and "coeff_modulus()" in a:
        return "key_chain_len" if "key_context_data" in a or "key_parms" in a else "data_chain_len"
    return a


def atoms_of(p):
    return {a for m in p for a in m}


class Sym:
    """Symbolic integer evaluation inside one function body."""

    def __init__(self, facts, body):
        self.facts = facts
        self.lets = {}        # lid -> init expr for immutable single lets
        self.ranges = {}      # loop var atom -> (lo poly, hi poly)
        self.loopvars = {}    # lid -> atom
        self.opaque = {}      # lid -> atom name: lets deliberately kept as one symbol (see keep_as_atom)
        muts = set()
        for x in walk(body):
            if x.get("k") == "Let" and x["pat"].get("k") == "PBind" and "init" in x:
                if x["pat"].get("mut"):
                    muts.add(x["pat"]["lid"])
                else:
                    self.lets[x["pat"]["lid"]] = x["init"]
        for x in walk(body):
            # for (i, x) in coll.iter().enumerate(): i ranges over 0..coll.len()
            if x.get("k") == "For" and x["pat"].get("k") == "PTuple" and x["pat"]["ps"] and x["pat"]["ps"][0].get("k") == "PBind":
                it = strip(x["iter"])
                if it.get("k") == "MCall" and it.get("name") == "enumerate":
                    src = strip(it["recv"])
                    while src.get("k") == "MCall" and src.get("name") in ("iter", "iter_mut", "into_iter", "by_ref"):
                        src = strip(src["recv"])
                    q = x["pat"]["ps"][0]
                    atom = "%s#%d" % (q["name"], q["lid"])
                    self.loopvars[q["lid"]] = atom
                    self.ranges[atom] = ({}, patom("len(%s)" % self.canon(src)))
            if x.get("k") == "For" and x["pat"].get("k") == "PBind":
                it = strip(x["iter"])
                if it.get("k") == "Call" and "RangeInclusive" in ((callee(it) or {}).get("def") or "") and len(it.get("args", [])) == 2:
                    # a..=b  ==  a..b+1
                    lo, hi = self.poly(it["args"][0]), self.poly(it["args"][1])
                    atom = "%s#%d" % (x["pat"]["name"], x["pat"]["lid"])
                    self.loopvars[x["pat"]["lid"]] = atom
                    if isinstance(lo, dict) and isinstance(hi, dict):
                        self.ranges[atom] = (lo, padd(hi, pconst(1)))
                if it.get("k") == "Struct" and it.get("path", "").endswith("ops::Range"):
                    d = {f["name"]: f["e"] for f in it["fields"]}
                    lo, hi = self.poly(d.get("start")), self.poly(d.get("end"))
                    atom = "%s#%d" % (x["pat"]["name"], x["pat"]["lid"])
                    self.loopvars[x["pat"]["lid"]] = atom
                    if isinstance(lo, dict) and isinstance(hi, dict):
                        self.ranges[atom] = (lo, hi)

    def keep_as_atom(self, pred, name):
        """treat every immutable let whose initialiser polynomial satisfies `pred` as the single atom `name`"""
        for lid, init in self.lets.items():
            p = self.poly(init)
            if isinstance(p, dict) and pred(p):
                self.opaque[lid] = name

    # canonical text of an accessor chain with immutable locals expanded
    def canon(self, e):
        e = strip(e)
        k = e.get("k")
        if k == "Path":
            if e.get("res") == "local":
                if e["lid"] in self.lets:
                    return self.canon(self.lets[e["lid"]])
                return "%s#%d" % (e["name"], e["lid"])
            return e.get("def", "?")
        if k == "MCall":
            return "%s.%s(%s)" % (self.canon(e["recv"]), e["name"], ",".join(self.canon(a) for a in e["args"]))
        if k == "Call":
            f = callee(e)
            return "%s(%s)" % (f["def"] if f else "?", ",".join(self.canon(a) for a in e["args"]))
        if k == "Field":
            return self.canon(e["e"]) + "." + e["name"]
        if k == "Index":
            return "%s[%s]" % (self.canon(e["e"]), self.canon(e["i"]))
        if k == "Lit":
            return str(e.get("v"))
        if k == "Cast":
            return self.canon(e["e"])
        if k == "Try":
            return self.canon(e["e"]) + "?"
        if k == "Bin":
            return "(%s %s %s)" % (self.canon(e["a"]), e["op"], self.canon(e["b"]))
        return "<%s@%s>" % (k, e.get("id"))

    def poly(self, e, subst=None):
        """-> polynomial (dict), ('cond', cond expr, th expr, el expr) tree, or None"""
        subst = subst or {}
        if e is None:
            return None
        e = strip(e)
        k = e.get("k")
        if k == "Lit":
            v = re.sub(r"_?(usize|u64|u32|i64|i32|u8)$", "", str(e.get("v", "")))
            return pconst(int(v)) if re.fullmatch(r"\d+", v) else None
        if k == "Cast":
            return self.poly(e["e"], subst)
        if k == "Block":
            return self.poly(e.get("expr"), subst) if e.get("expr") else None
        if k == "Path" and e.get("res") == "local":
            lid = e["lid"]
            if lid in self.loopvars:
                a = self.loopvars[lid]
                return subst.get(a, patom(a))
            if lid in self.lets:
                if lid in self.opaque:
                    return patom(self.opaque[lid])
                return self.poly(self.lets[lid], subst)
            return patom("%s#%d" % (e["name"], lid))
        if k == "Bin" and e["op"] in ("+", "-", "*"):
            a, b = self.poly(e["a"], subst), self.poly(e["b"], subst)
            if not isinstance(a, dict) or not isinstance(b, dict):
                return None
            return padd(a, b) if e["op"] == "+" else padd(a, b, -1) if e["op"] == "-" else pmul(a, b)
        if k == "Bin" and e["op"] in ("/", "%", ">>", "<<") and not subst:
            return patom(self.canon(e))         # an opaque integer: equal text, equal value
        if k == "If" and e.get("el"):
            t = self.truth(e["c"], subst)
            if t is True:
                return self.poly(e["th"], subst)
            if t is False:
                return self.poly(e["el"], subst)
            return ("cond", self.canon(e["c"]), self.poly(e["th"], subst), self.poly(e["el"], subst))
        if k == "MCall" and e.get("name") == "len" and not e["args"]:
            return patom("len(%s)" % self.canon(e["recv"]))
        if k in ("MCall", "Field", "Call"):
            return patom(self.canon(e))
        return None

    # ---------------------------------------------------------- sign reasoning under loop ranges
    def bound(self, p, upper):
        """replace loop variables by their extreme values to bound p from above (upper) or below"""
        for _ in range(4):
            lv = [a for a in atoms_of(p) if a in self.ranges]
            if not lv:
                break
            a = lv[0]
            coef = 0
            for m, c in p.items():
                if a in m:
                    if m.count(a) != 1 or len(m) != 1:
                        return None
                    coef = c
            lo, hi = self.ranges[a]
            top = padd(hi, pconst(1), -1)
            p = psubst(p, a, top if (coef > 0) == upper else lo)
        return p

    def nonneg(self, p):
        q = self.bound(p, False)
        return q is not None and all(c >= 0 for c in q.values())

    def negative(self, p):
        q = self.bound(p, True)
        return q is not None and self.nonneg_raw(padd(pmul(q, pconst(-1)), pconst(1), -1))

    @staticmethod
    def nonneg_raw(q):
        return all(c >= 0 for c in q.values())

    def truth(self, c, subst):
        c = strip(c)
        if c.get("k") != "Bin" or c["op"] not in ("==", "!=", "<", "<=", ">", ">="):
            return None
        a, b = self.poly(c["a"], subst), self.poly(c["b"], subst)
        if not isinstance(a, dict) or not isinstance(b, dict):
            return None
        d = padd(a, b, -1)
        op = c["op"]
        lt, gt = self.negative(d), self.negative(pmul(d, pconst(-1)))
        eq = not d
        if op in ("==", "!="):
            r = True if eq else False if (lt or gt) else None
            return r if op == "==" or r is None else not r
        if op in ("<", ">="):
            r = True if lt else False if self.nonneg(d) else None
            return r if op == "<" or r is None else not r
        r = True if gt else False if self.nonneg(pmul(d, pconst(-1))) else None      # '>' , '<='
        return r if op == ">" or r is None else not r


# ------------------------------------------------------------------ slices of laid-out buffers
def _alloc_factors(sym, init):
    init = strip(init)
    f = callee(init)
    if init.get("k") == "Call" and f and f["def"].endswith("vec::from_elem") and len(init["args"]) == 2:
        fs = []

        def flat(e):
            e = strip(e)
            if e.get("k") == "Bin" and e["op"] == "*":
                flat(e["a"])
                flat(e["b"])
            else:
                fs.append(sym.poly(e))
        flat(init["args"][1])
        if len(fs) >= 2 and all(isinstance(x, dict) for x in fs):
            return fs
    return None


class Slices:
    def __init__(self, facts, body, sym):
        self.sym = sym
        self.facts = facts
        self.buffers = {}          # lid -> (name, alloc factors)
        self.slice_lets = {}       # lid -> init expr  (locals bound to slices)
        self.split_lets = {}       # lid -> (base expr, offset expr or None)  (halves of split_at_mut)
        for x in walk(body):
            if x.get("k") == "Let" and x["pat"].get("k") == "PBind" and "init" in x:
                fs = _alloc_factors(sym, x["init"])
                if fs and len(fs) == 3:
                    self.buffers[x["pat"]["lid"]] = (x["pat"]["name"], fs)
                else:
                    self.slice_lets[x["pat"]["lid"]] = x["init"]
            if x.get("k") == "Let" and x["pat"].get("k") == "PTuple" and "init" in x and len(x["pat"]["ps"]) == 2:
                # let (head, tail) = slice.split_at_mut(k)
                c = strip(x["init"])
                if c.get("k") == "MCall" and c.get("name") in ("split_at_mut", "split_at") and c["args"]:
                    h, t = x["pat"]["ps"]
                    if h.get("k") == "PBind":
                        self.split_lets[h["lid"]] = (c["recv"], None)
                    if t.get("k") == "PBind":
                        self.split_lets[t["lid"]] = (c["recv"], c["args"][0])

    def slice_of(self, e, depth=0):
        """-> (buffer lid, [offset exprs]) or None"""
        if depth > 8 or not isinstance(e, dict):
            return None
        e = strip(e)
        k = e.get("k")
        if k == "Path" and e.get("res") == "local":
            if e["lid"] in self.buffers:
                return e["lid"], []
            if e["lid"] in self.slice_lets:
                return self.slice_of(self.slice_lets[e["lid"]], depth + 1)
            if e["lid"] in self.split_lets:
                base_e, off = self.split_lets[e["lid"]]
                base = self.slice_of(base_e, depth + 1)
                if base:
                    return base[0], base[1] + ([off] if off is not None else [])
            return None
        if k == "Block":
            return self.slice_of(e.get("expr"), depth + 1) if e.get("expr") else None
        if k == "Inl":
            return self.slice_of(e.get("body"), depth + 1)      # the buffer a helper returns
        if k == "Index":
            idx = strip(e["i"])
            if idx.get("k") == "Struct" and "ops::Range" in idx.get("path", ""):
                d = {f["name"]: f["e"] for f in idx["fields"]}
                base = self.slice_of(e["e"], depth + 1)
                if base and "start" in d:
                    return base[0], base[1] + [d["start"]]
            return None
        if k == "Call":
            f = callee(e)
            if f and f["name"] in ("from_raw_parts", "from_raw_parts_mut") and len(e["args"]) == 2:
                ptr = strip(e["args"][0])
                if ptr.get("k") == "MCall" and ptr.get("name") in ("add", "offset") and ptr["args"]:
                    inner = strip(ptr["recv"])
                    if inner.get("k") == "MCall" and inner.get("name") in ("as_mut_ptr", "as_ptr"):
                        base = self.slice_of(inner["recv"], depth + 1)
                        if base:
                            return base[0], base[1] + [ptr["args"][0]]
            return None
        return None

    def slot(self, buf, offs, subst=None):
        """slot polynomial of an offset list for a buffer laid out [comp][slot][coeff], or None"""
        _, fs = self.buffers[buf]
        terms = []
        for o in offs:
            p = self.sym.poly(o, subst)
            if not isinstance(p, dict):
                return None
            terms.append(p)
        total = {}
        for p in terms:
            total = padd(total, p)
        if not total:
            return None
        # coeff stride: the allocation factor (single atom) that divides every monomial of the offset
        cands = []
        for f in fs:
            if len(f) == 1 and list(f.values()) == [1] and len(next(iter(f))) == 1:
                a = next(iter(f))[0]
                if all(a in m for m in total):
                    cands.append((a, f))
        if len(cands) != 1:
            return None
        cc, ccf = cands[0]
        q = {}
        for m, c in total.items():
            mm = list(m)
            mm.remove(cc)
            q[tuple(mm)] = c
        # component stride: an offset term that carries another allocation factor (the slot count R) addresses a
        # component, not a slot; the slot is the sum of the remaining terms divided by the coefficient stride.
        others = [f for f in fs if f is not ccf]
        slot = {}
        for o in offs:
            for sign, factors in self._terms(o):
                polys = [self.sym.poly(f, subst) for f in factors]
                if any(not isinstance(pp, dict) for pp in polys):
                    return None
                if any(pp in others for pp in polys):
                    continue
                prod = pconst(sign)
                for pp in polys:
                    prod = pmul(prod, pp)
                if not all(cc in m for m in prod):
                    return None
                for m, c in prod.items():
                    mm = list(m)
                    mm.remove(cc)
                    slot = padd(slot, {tuple(mm): c})
        return slot

    def _terms(self, e, sign=1):
        """flatten an offset expression into signed products of factor expressions (locals bound to sums expanded)"""
        e = strip(e)
        k = e.get("k")
        if k == "Path" and e.get("res") == "local" and e["lid"] in self.sym.lets:
            return self._terms(self.sym.lets[e["lid"]], sign)
        if k == "Block" and e.get("expr"):
            return self._terms(e["expr"], sign)
        if k == "Bin" and e["op"] == "+":
            return self._terms(e["a"], sign) + self._terms(e["b"], sign)
        if k == "Bin" and e["op"] == "-":
            return self._terms(e["a"], sign) + self._terms(e["b"], -sign)
        fs = []

        def flat(x):
            x = strip(x)
            if x.get("k") == "Bin" and x["op"] == "*":
                flat(x["a"])
                flat(x["b"])
            else:
                fs.append(x)
        flat(e)
        return [(sign, fs)]


def _mod_indices(facts, e):
    """index expressions M of every `X[M]` in e where X is a vector of Modulus / NTTTables"""
    out = []
    for x in walk(e):
        if x.get("k") == "Index":
            t = facts.ty(x["e"]) + " " + facts.ty_adj(x["e"])
            if ("Modulus" in t or "NTTTables" in t) and strip(x["i"]).get("k") != "Struct":
                out.append((x["i"], "table" if "NTTTables" in t else "modulus"))
    return out


def collect_sites(facts, p, body, sym, sl):
    sites = []
    # bindings of `for pat in <...slice.iter_mut()/chunks_mut()...>`
    elem_of = {}
    for x in walk(body):
        if x.get("k") == "For":
            srcs = []
            for y in walk(x["iter"]):
                if y.get("k") == "MCall" and y.get("name") in ("iter_mut", "chunks_mut", "chunks_exact_mut"):
                    s = sl.slice_of(y["recv"])
                    if s:
                        srcs.append(s)
            if len(srcs) == 1:
                for q in walk(x["pat"]):
                    if q.get("k") == "PBind" and facts.ty(q).startswith("&mut"):
                        elem_of[q["lid"]] = srcs[0]
    for x in walk(body):
        k = x.get("k")
        if k in ("Call", "MCall"):
            f = callee(x)
            if not f or not f.get("local"):
                continue
            it = facts.items.get(f["def"])
            if not it:
                continue
            args = ([x["recv"]] if k == "MCall" else []) + x["args"]
            params = it.get("params", [])
            if len(params) != len(args):
                continue
            mods = []
            for a in args:
                a0 = a
                if a0.get("k") == "Ref" and strip(a0).get("k") == "Index":
                    mods += _mod_indices(facts, a0)
            if not mods:
                continue
            for a, prm in zip(args, params):
                if not prm.get("ty", "").startswith("&mut"):
                    continue
                s = sl.slice_of(a)
                if s and s[1]:
                    for M, kind in mods:
                        sites.append({"buf": s[0], "offs": s[1], "M": M, "node": x, "what": "%s(.., %s)" % (f["name"], kind)})
        elif k == "Assign":
            lhs = x["lhs"]
            s = None
            lo = local_of(lhs)
            if lo and lo[0] in elem_of:
                s = elem_of[lo[0]]
            elif strip(lhs).get("k") == "Index" and strip(strip(lhs)["i"]).get("k") != "Struct":
                s = sl.slice_of(strip(lhs)["e"])
            if s and s[1]:
                for M, kind in _mod_indices(facts, x["rhs"]):
                    sites.append({"buf": s[0], "offs": s[1], "M": M, "node": x, "what": "element store reduced with %s" % kind})
    return sites


def _single_var(p, sym):
    if len(p) == 1:
        (m, c), = p.items()
        if c == 1 and len(m) == 1 and m[0] in sym.ranges:
            return m[0]
    return None


def _contained(sym, s, var):
    lo, hi = sym.ranges[var]
    return sym.nonneg(padd(s, lo, -1)) and sym.negative(padd(s, hi, -1))


def _decidable_atom(a, sym):
    return a in sym.ranges or (a.startswith("len(") and "coeff_modulus()" in a)


def run(facts, rep, fn_filter, floor_sites=0, floor_pairs=0):
    rep.rule(R, "every stage that mutates slot s of an RNS-laid-out scratch buffer under a modulus / NTT table index does "
             "so with the same prime index as every other stage touching that slot (indices compared symbolically "
             "under the unifying substitution and loop ranges)")
    nsites = npairs = 0
    for p in sorted(facts.hir):
        if not fn_filter(p):
            continue
        body = facts.inlined(p, pred=facts.extracted_helper)      # an extracted producer / consumer stage is read in place
        sym = Sym(facts, body)
        sl = Slices(facts, body, sym)
        if not sl.buffers:
            continue
        sites = collect_sites(facts, p, body, sym, sl)
        if not sites:
            continue
        rep.fn(p)
        nsites += len(sites)
        for s in sites:
            s["slot"] = sl.slot(s["buf"], s["offs"])
        for i in range(len(sites)):
            for j in range(i + 1, len(sites)):
                A, B = sites[i], sites[j]
                if A["buf"] != B["buf"] or A["slot"] is None or B["slot"] is None:
                    continue
                subst = None
                if A["slot"] == B["slot"]:
                    subst = {}
                else:
                    va, vb = _single_var(A["slot"], sym), _single_var(B["slot"], sym)
                    if va and _contained(sym, B["slot"], va):
                        subst = {va: B["slot"]}
                    elif vb and _contained(sym, A["slot"], vb):
                        subst = {vb: A["slot"]}
                if subst is None:
                    continue
                npairs += 1
                ma, mb = sym.poly(A["M"], subst), sym.poly(B["M"], subst)
                bname = sl.buffers[A["buf"]][0]
                slot_s = pshow(B["slot"] if subst and list(subst.values())[0] == B["slot"] else A["slot"])
                slot_s = re.sub(r"len\(.*?get_context_data.*?coeff_modulus\(\)\)", "data_chain_len", slot_s)
                key = "%s/%s/%s~%s" % (p, bname, _ord(sites, A), _ord(sites, B))
                where = "%s (line %s) vs %s (line %s)" % (A["what"], A["node"].get("l"), B["what"], B["node"].get("l"))
                if ma == mb and ma is not None:
                    rep.ok(R, key, "slot %s of `%s`: %s agree on prime index %s" % (slot_s, bname, where, _show(ma)),
                           facts.loc(p, B["node"]), nontrivial=bool(subst),
                           sample={"function": p, "buffer": bname, "slot": slot_s, "index": _show(ma)})
                elif isinstance(ma, dict) and isinstance(mb, dict):
                    d = padd(ma, mb, -1)
                    if all(_decidable_atom(a, sym) for a in atoms_of(d)):
                        rep.violation(R, key, "slot %s of `%s` is written under prime index %s by %s but under prime index %s by "
                                      "%s: the two stages interpret the same residues modulo different primes whenever "
                                      "%s != %s (e.g. below the first level of the chain)" %
                                      (slot_s, bname, pshow(ma), "%s (line %s)" % (A["what"], A["node"].get("l")), pshow(mb),
                                       "%s (line %s)" % (B["what"], B["node"].get("l")), pshow(ma), pshow(mb)),
                                      facts.loc(p, A["node"]))
                    else:
                        rep.unresolved(R, key, "prime indices %s and %s differ by terms the rule cannot relate" %
                                       (pshow(ma), pshow(mb)), facts.loc(p, A["node"]))
                else:
                    rep.unresolved(R, key, "prime index of %s not resolved to a polynomial" % where, facts.loc(p, A["node"]))
    rep.floor(R, "mutating sites on laid-out buffers", nsites, floor_sites)
    rep.floor(R, "slot-unified site pairs", npairs, floor_pairs)
    return nsites, npairs


def _ord(sites, s):
    """stable ordinal of a site among the sites with the same description (keys carry no line numbers)"""
    same = [t for t in sites if t["what"] == s["what"] and t["buf"] == s["buf"]]
    return "%s#%d" % (re.sub(r"[^a-z_]+", "_", s["what"]).strip("_"), same.index(s))


def _show(v):
    if isinstance(v, dict):
        return pshow(v)
    if isinstance(v, tuple):
        return "if %s {%s} else {%s}" % (re.sub(r"#\d+", "", v[1]), _show(v[2]), _show(v[3]))
    return "?"
