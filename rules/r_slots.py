"""R-SLOTS [N] — rebuilding an index-addressed key table keeps every key in its slot.

KSwitchKeys stores its key-switching keys in `keys: Vec<Vec<PublicKey>>`, addressed BY POSITION: Galois keys live at slot
`get_index(galois_elt)`, relinearization keys at `get_index(key_power)`, and empty vectors mark absent keys (premise
re-read from the code: some function indexes the table with a computed index).  Any code that rebuilds the table from an
existing one — seed expansion, cloning with a transformation, (de)serialization helpers — must therefore be position
preserving: in the iterator chain from the old table to the `collect()` that produces the new one only adaptors that keep
length and order are admissible (map, enumerate, zip, cloned, inspect ...).  `filter`, `filter_map`, `flat_map`, `flatten`,
`skip*`, `take*`, `step_by`, `chain`, `rev`, `dedup*` re-index the populated keys: `has_key` answers change and the
evaluator silently uses another automorphism's key.
"""
from facts import walk, callee, strip, local_of, root_local

R = "R-SLOTS"
TABLE_TY = "Vec<std::vec::Vec<key::PublicKey>>"
KEEP = {"iter", "into_iter", "iter_mut", "map", "cloned", "copied", "enumerate", "zip", "inspect", "by_ref", "collect", "peekable",
        "as_slice", "as_ref", "as_mut", "to_vec", "clone", "keys", "keys_mut", "data", "data_mut", "unwrap", "expect", "into_par_iter"}
MOVE = {"filter", "filter_map", "flat_map", "flatten", "skip", "skip_while", "take", "take_while", "step_by", "chain", "rev",
        "dedup", "dedup_by", "dedup_by_key", "retain", "drain", "map_while", "scan", "sort", "sort_by", "sort_by_key", "reverse",
        "remove", "swap_remove", "truncate"}


def _is_table(facts, e):
    t = facts.ty(e).replace("&mut ", "").replace("&", "").strip()
    return t.endswith(TABLE_TY) or "Vec<std::vec::Vec<key::PublicKey>>" in t and t.startswith("std::vec::Vec<")


def run(facts, rep, floor=0):
    rep.rule(R, "every iterator chain that rebuilds a Vec<Vec<PublicKey>> key table from an existing one uses only "
             "position-preserving adaptors")
    # premise: the table is addressed by a computed index somewhere
    premise = False
    for p, body in facts.hir.items():
        for x in walk(body):
            if x.get("k") == "Index" and strip(x["i"]).get("k") != "Lit" and _is_table(facts, x["e"]):
                premise = True
                break
        if premise:
            break
    if not premise:
        rep.ok(R, "premise", "no key table is addressed by a computed index: nothing to require", None, nontrivial=False)
        return 0
    n = 0
    for p in sorted(facts.hir):
        if "::tests::" in p or facts.items[p].get("kind") == "test":
            continue
        body = facts.hir[p]
        k_site = 0
        for x in walk(body):
            # a chain ending in a collect() whose value is a key table
            if not (x.get("k") == "MCall" and x.get("name") == "collect" and _is_table(facts, x)):
                continue
            chain = []
            e = x
            while isinstance(e, dict) and e.get("k") == "MCall":
                chain.append(e)
                e = strip(e["recv"])
            src = e
            if not _is_table(facts, src):
                # rooted at something else (e.g. a range building a fresh table): not a rebuild
                continue
            n += 1
            rep.fn(p)
            key = "%s/rebuild#%d" % (p, k_site)
            k_site += 1
            names = [c["name"] for c in reversed(chain)]
            moved = [nm for nm in names if nm in MOVE]
            unknown = [nm for nm in names if nm not in MOVE and nm not in KEEP]
            if moved:
                rep.violation(R, key, "the key table is rebuilt through `.%s()`: the populated keys are re-indexed although the table is "
                              "addressed by position (slot = get_index(element)); lookups then find another element's key or none" %
                              "().".join(names), facts.loc(p, x))
            elif unknown:
                rep.unresolved(R, key, "adaptor(s) %s not classified as position-preserving or not" % unknown, facts.loc(p, x))
            else:
                rep.ok(R, key, "rebuilt through position-preserving adaptors only (%s)" % ", ".join(names), facts.loc(p, x),
                       sample={"function": p, "chain": names})
        # loop-based rebuild: `for slot in old_table { new_table.push(..) }` must push once per slot, unconditionally
        from facts import Tree as _Tree
        tree = None
        for lp in walk(body):
            if lp.get("k") != "For":
                continue
            it_ = strip(lp["iter"])
            while it_.get("k") == "MCall" and it_.get("name") in KEEP and it_.get("name") != "collect":
                it_ = strip(it_["recv"])
            if not _is_table(facts, it_) and not _is_table(facts, lp["iter"]):
                continue
            pushes = [y for y in walk(lp["body"]) if y.get("k") == "MCall" and y.get("name") == "push" and _is_table(facts, y["recv"])]
            if not pushes:
                continue
            tree = tree or _Tree(body)
            n += 1
            rep.fn(p)
            key = "%s/rebuild-loop#%d" % (p, k_site)
            k_site += 1
            cond = False
            for y in pushes:
                for a in tree.ancestors(y):
                    if a is lp:
                        break
                    if a.get("k") in ("If", "Match", "While", "Loop", "Closure"):
                        cond = True
            skips = any(y.get("k") in ("Continue", "Break") for y in walk(lp["body"]))
            if cond or skips or len(pushes) != 1:
                rep.violation(R, key, "the key table is rebuilt by a loop over the old table whose push is conditional (or skipped by "
                              "continue / break, or repeated): populated keys do not keep their slots although the table is addressed "
                              "by position", facts.loc(p, lp))
            else:
                rep.ok(R, key, "one unconditional push per slot of the old table", facts.loc(p, lp), sample={"function": p})
        # in-place re-indexing calls on a table
        for x in walk(body):
            if x.get("k") == "MCall" and x.get("name") in ("retain", "dedup", "dedup_by", "dedup_by_key", "remove", "swap_remove", "sort",
                                                           "sort_by", "sort_by_key", "reverse", "drain") and _is_table(facts, x["recv"]):
                n += 1
                rep.fn(p)
                rep.violation(R, "%s/inplace/%s" % (p, x["name"]), "`.%s()` on a position-addressed key table moves keys to other slots" %
                              x["name"], facts.loc(p, x))
    rep.floor(R, "key-table rebuild sites", n, floor)
    return n
