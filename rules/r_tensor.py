"""R-TENSOR [N] — the component-wise product of two ciphertexts sums over ALL index pairs and indexes each operand within its own size.

ckks_multiply / bgv_multiply compute, for every output component i, the sum of  a[k] * b[i - k]  over the admissible k.
The products are dyadic products of slices `a.data()[s .. s + d]`, `b.data()[t .. t + d]` with s, t multiples of the
component length d.  With e_a = s / d, e_b = t / d as symbolic polynomials over the loop variables (r_slotmod.Sym):

  (sum)    e_a + e_b == i  (the output component the product is accumulated into)                 — polynomial identity;
  (bound)  the largest value e_X takes over the inner loop is  min(i, size(X) - 1)  with the size OF THE OPERAND IT
           INDEXES.  Taken from the other operand's size, the sum drops cross terms whenever this operand is the larger
           one (and reads out of bounds when it is the smaller): products of ciphertexts of different sizes decrypt to
           garbage while equal sizes — all the suite multiplies — are unaffected.
Maxima are obtained by substituting the inner loop variable's extreme value (coefficient +1: upper end, -1: lower end).
"""
from facts import walk, callee, strip, local_of, root_local
from r_slotmod import Sym, padd, pmul, pconst, patom, psubst, pshow, atoms_of

R = "R-TENSOR"


def _div(p, atom):
    """p / atom when every monomial contains atom, else None"""
    out = {}
    for m, c in p.items():
        if atom not in m:
            return None
        mm = list(m)
        mm.remove(atom)
        out[tuple(mm)] = out.get(tuple(mm), 0) + c
    return {m: c for m, c in out.items() if c}


def run(facts, rep, fnames=("ckks_multiply", "bgv_multiply"), floor=0):
    rep.rule(R, "in the ciphertext-by-ciphertext products, the two slice indices of every dyadic product add up to the output "
             "component, and the largest index into each operand is min(i, size of THAT operand - 1)")
    n = 0
    for p in sorted(facts.hir):
        if p.rsplit("::", 1)[-1] not in fnames or "evaluator" not in p:
            continue
        body = facts.inlined(p)
        sym = Sym(facts, body)
        it = facts.items[p]
        ops = {prm["pat"]["lid"]: prm["pat"]["name"] for prm in it["params"]
               if prm["pat"].get("k") == "PBind" and "Ciphertext" in prm.get("ty", "")}
        rep.fn(p)
        for x in walk(body):
            if x.get("k") != "Call" or not (callee(x) or {}).get("name", "").startswith("dyadic_product"):
                continue
            srcs = []
            for a in x["args"]:
                a0 = strip(a)
                if a0.get("k") == "Index":
                    rl = root_local(a0["e"])
                    idx = strip(a0["i"])
                    if rl and rl[0] in ops and idx.get("k") == "Struct" and "ops::Range" in idx.get("path", ""):
                        d = {f["name"]: f["e"] for f in idx["fields"]}
                        if "start" in d and "end" in d:
                            srcs.append((rl, d["start"], d["end"]))
            if len(srcs) != 2 or srcs[0][0][0] == srcs[1][0][0]:
                continue
            n += 1
            key = "%s/product#%d" % (p, n)
            key = "%s/%s*%s" % (p, srcs[0][0][1], srcs[1][0][1])
            es = []
            stride = None
            for rl, st, en in srcs:
                s_p, e_p = sym.poly(st), sym.poly(en)
                if not isinstance(s_p, dict) or not isinstance(e_p, dict):
                    es.append(None)
                    continue
                ln = padd(e_p, s_p, -1)
                if len(ln) == 1 and list(ln.values()) == [1] and len(next(iter(ln))) >= 1:
                    stride = next(iter(ln))
                es.append(s_p)
            if None in es or stride is None:
                rep.unresolved(R, key, "slice bounds are not polynomial", facts.loc(p, x))
                continue
            # divide by the stride monomial (d, or coeff_count * coeff_modulus_size)
            def div_m(poly, mono):
                cur = poly
                for a in mono:
                    cur = _div(cur, a)
                    if cur is None:
                        return None
                return cur
            ea, eb = div_m(es[0], stride), div_m(es[1], stride)
            if ea is None or eb is None:
                rep.unresolved(R, key, "slice starts are not multiples of the component length", facts.loc(p, x))
                continue
            # the enclosing counted loops: outer = output component, inner = the summation variable
            lv = [a for a in atoms_of(padd(ea, eb)) | atoms_of(ea) | atoms_of(eb) if a in sym.ranges]
            tot = padd(ea, eb)
            outer = [a for a in atoms_of(tot) if a in sym.ranges]
            inner = [a for a in (atoms_of(ea) | atoms_of(eb)) if a in sym.ranges and a not in outer]
            if len(outer) != 1 or not (len(tot) == 1 and tot.get((outer[0],)) == 1):
                rep.violation(R, key + "/sum", "the component indices of the two factors add up to %s instead of the output component: "
                              "terms are accumulated into the wrong component" % pshow(tot), facts.loc(p, x))
                continue
            i_atom = outer[0]
            if len(inner) != 1:
                rep.unresolved(R, key, "summation variable not identified", facts.loc(p, x))
                continue
            k_atom = inner[0]
            lo, hi = sym.ranges[k_atom]
            verdicts = []
            for (rl, _, _), e in zip(srcs, (ea, eb)):
                coef = e.get((k_atom,), 0)
                if coef == 1:
                    mx = psubst(e, k_atom, padd(hi, pconst(1), -1))
                elif coef == -1:
                    mx = psubst(e, k_atom, lo)
                else:
                    verdicts.append((rl, "unres", "index is not +-1 in the summation variable"))
                    continue
                mins = [a for a in atoms_of(mx) if ".min(" in a]
                if len(mx) == 1 and len(mins) == 1 and mx.get((mins[0],)) == 1:
                    a = mins[0]
                    own = "%s#%d.size()" % (rl[1], rl[0]) in a
                    other = [o for l, o in ops.items() if l != rl[0] and "%s#%d.size()" % (o, l) in a]
                    if own and not other:
                        verdicts.append((rl, "ok", a))
                    elif other and not own:
                        verdicts.append((rl, "viol", (a, other[0])))
                    else:
                        verdicts.append((rl, "unres", "bound %s mentions both or neither size" % a))
                else:
                    verdicts.append((rl, "unres", "largest index %s is not a single min(..)" % pshow(mx)))
            bad = [v for v in verdicts if v[1] == "viol"]
            unres = [v for v in verdicts if v[1] == "unres"]
            if bad:
                rl, _, (a, other) = bad[0]
                rep.violation(R, key + "/bound", "the largest component index into `%s` is `%s`, bounded by the size of `%s` instead of "
                              "its own: when `%s` has more components than `%s` the cross terms beyond that bound are dropped (and "
                              "when it has fewer the slice is out of range) — products of ciphertexts of different sizes are wrong" %
                              (rl[1], a, other, rl[1], other), facts.loc(p, x))
            elif unres:
                rep.unresolved(R, key + "/bound", "; ".join("%s: %s" % (v[0][1], v[2]) for v in unres), facts.loc(p, x))
            else:
                rep.ok(R, key, "indices add up to the output component and each operand is indexed up to min(i, its own size - 1)",
                       facts.loc(p, x), sample={"function": p, "bounds": [v[2] for v in verdicts]})
    rep.floor(R, "ciphertext-product accumulations", n, floor)
    return n


def run_operand_loops(facts, rep, fnames=("bfv_multiply", "ckks_multiply", "bgv_multiply", "bfv_square", "ckks_square", "bgv_square")):
    """R-TENSOR(loops) [N]: a loop that visits the polynomials of one ciphertext operand (`Y.poly(i)` / `Y.poly_component(i, ..)`
    with i the loop variable of `for i in 0..X`) runs over THAT operand's size: X resolves to `Y.size()`.  Bounded by the other
    operand's size, components beyond it are never processed (dropped terms) or the access runs out of range — only for
    operands of different sizes."""
    RL = "R-TENSOR(loops)"
    rep.rule(RL, "every `for i in 0..X` that reads `Y.poly(i)` of a ciphertext operand has X resolving to Y.size()")
    n = 0
    for p in sorted(facts.hir):
        if p.rsplit("::", 1)[-1] not in fnames or "evaluator" not in p:
            continue
        body = facts.hir[p]
        sym = Sym(facts, body)
        it = facts.items[p]
        ops = {prm["pat"]["lid"]: prm["pat"]["name"] for prm in it["params"]
               if prm["pat"].get("k") == "PBind" and "Ciphertext" in prm.get("ty", "")}
        if len(ops) < 2:
            continue
        rep.fn(p)
        k = 0
        for lp in walk(body):
            if lp.get("k") != "For" or lp["pat"].get("k") != "PBind":
                continue
            a = sym.loopvars.get(lp["pat"]["lid"])
            if a is None or a not in sym.ranges:
                continue
            hi = sym.ranges[a][1]
            seen = set()
            for y in walk(lp["body"]):
                if y.get("k") == "MCall" and y.get("name") in ("poly", "poly_mut", "poly_component", "poly_component_mut") and y["args"]:
                    rl = root_local(y["recv"])
                    lo = local_of(y["args"][0])
                    if rl and rl[0] in ops and lo and lo[0] == lp["pat"]["lid"] and rl[0] not in seen:
                        seen.add(rl[0])
                        n += 1
                        key = "%s/loop#%d/%s" % (p, k, rl[1])
                        k += 1
                        txt = pshow(hi)
                        raw = " ".join(sorted(atoms_of(hi)))
                        single = len(hi) == 1 and list(hi.values()) == [1] and len(next(iter(hi))) == 1
                        own = single and "%s#%d.size()" % (rl[1], rl[0]) in raw
                        other = [o for l, o in ops.items() if l != rl[0] and single and "%s#%d.size()" % (o, l) in raw]
                        if own and not other:
                            rep.ok(RL, key, "`%s.poly(i)` is visited for i below %s" % (rl[1], txt), facts.loc(p, lp), nontrivial=False)
                        elif other and not own:
                            rep.violation(RL, key, "the loop reading `%s.poly(i)` runs to the size of `%s` (%s): when the operands have "
                                          "different sizes, components of `%s` are skipped or read out of range" %
                                          (rl[1], other[0], txt, rl[1]), facts.loc(p, lp))
                        else:
                            rep.unresolved(RL, key, "loop bound %s not recognised as the size of `%s`" % (txt, rl[1]), facts.loc(p, lp))
    return n
