"""R-LWEPAIR [N] — extraction and re-assembly of one coefficient address the same places.

extract_lwe(ct, term) keeps, per RNS component i, coefficient `term` of c0 and the polynomial c1 * X^(-term);
assemble_lwe puts c0's residues back as the CONSTANT coefficient of component i and c1 after the first polynomial.
Structural necessary conditions, decided on symbolic index polynomials (r_slotmod.Sym):
  (gather)   the residue kept for component i is `poly_component(0, i)[term]` with i the enumeration variable and `term`
             the parameter;
  (shift)    c1 is shifted by 0 for term == 0 and by 2N - term otherwise (X^(2N) = 1 in the negacyclic ring; N - term
             would negate c1);
  (scatter)  assemble stores residue i at index i * N (constant coefficient of component i) and copies c1 to
             data[K*N ..] (the second polynomial).
"""
from facts import walk, callee, strip, local_of, root_local, Defs
from r_slotmod import Sym, padd, pmul, pconst, patom, pshow

R = "R-LWEPAIR"


def run(facts, rep):
    rep.rule(R, "extract_lwe gathers coefficient `term` of every component and shifts c1 by 2N - term; assemble_lwe scatters "
             "residue i to index i*N and c1 to the second polynomial")
    ex = "app::lwe::<impl evaluator::Evaluator>::extract_lwe"
    asm = "app::lwe::LWECiphertext::assemble_lwe"
    n = 0
    if rep.anchor(R, ex, ex in facts.hir):
        rep.fn(ex)
        body = facts.hir[ex]
        sym = Sym(facts, body)
        plid = {q["pat"]["name"]: q["pat"]["lid"] for q in facts.items[ex]["params"] if q["pat"].get("k") == "PBind"}
        # (gather)
        ok = False
        for x in walk(body):
            if x.get("k") == "Index":
                b = strip(x["e"])
                if b.get("k") == "MCall" and b.get("name") == "poly_component" and len(b["args"]) == 2:
                    i0, comp = strip(b["args"][0]), local_of(b["args"][1])
                    it = local_of(x["i"])
                    if i0.get("k") == "Lit" and str(i0.get("v", "")).startswith("0") and comp and it and it[0] == plid.get("term"):
                        ok = True
                        node = x
        n += 1
        if ok:
            rep.ok(R, "extract/gather", "keeps poly_component(0, i)[term] for every component i", facts.loc(ex, node))
        else:
            rep.violation(R, "extract/gather", "extract_lwe no longer keeps coefficient `term` of component i of c0 "
                          "(`poly_component(0, i)[term]`)", facts.loc(ex))
        # (shift)
        shift = None
        for x in walk(body):
            if x.get("k") == "Call" and (callee(x) or {}).get("name", "").startswith("negacyclic_shift") and len(x["args"]) >= 2:
                shift = x["args"][1]
                node = x
        n += 1
        if shift is None:
            rep.violation(R, "extract/shift", "extract_lwe no longer shifts c1 negacyclically", facts.loc(ex))
        else:
            v = sym.poly(shift)
            N = None
            for a in (v[3] if isinstance(v, tuple) else v or {}):
                pass
            good = False
            if isinstance(v, tuple) and v[0] == "cond":
                th, el = v[2], v[3]
                if isinstance(th, dict) and isinstance(el, dict):
                    # el == 2*N - term for the single accessor atom N
                    term_atoms = [a for m in el for a in m if a.startswith("term#")]
                    n_atoms = [a for m in el for a in m if "poly_modulus_degree" in a]
                    if len(set(term_atoms)) == 1 and len(set(n_atoms)) == 1:
                        want = padd(pmul(pconst(2), patom(n_atoms[0])), patom(term_atoms[0]), -1)
                        good = (el == want and not th) or (th == want and not el)
            if good:
                rep.ok(R, "extract/shift", "c1 is shifted by 0 / 2N - term", facts.loc(ex, node),
                       sample={"shift": "if term == 0 {0} else {2N - term}"})
            elif isinstance(v, (dict, tuple)):
                rep.violation(R, "extract/shift", "c1 is shifted by an amount other than 2N - term (for term != 0): the extracted "
                              "ciphertext is not c1 * X^(-term); e.g. N - term negates it", facts.loc(ex, node))
            else:
                rep.unresolved(R, "extract/shift", "shift amount is not a polynomial the rule can read", facts.loc(ex, node))
    if rep.anchor(R, asm, asm in facts.hir):
        rep.fn(asm)
        body = facts.hir[asm]
        sym = Sym(facts, body)
        n += 1
        ok = None
        for x in walk(body):
            if x.get("k") == "Assign" and strip(x["lhs"]).get("k") == "Index":
                idx = sym.poly(strip(x["lhs"])["i"])
                if isinstance(idx, dict):
                    mons = list(idx.items())
                    if len(mons) == 1 and mons[0][1] == 1 and len(mons[0][0]) == 2 and \
                            any("poly_modulus_degree" in a for a in mons[0][0]) and any("#" in a and "." not in a for a in mons[0][0]):
                        ok = True
                    else:
                        ok = False
                    node = x
        if ok:
            rep.ok(R, "assemble/scatter", "residue i is stored at index i * N (constant coefficient of component i)",
                   facts.loc(asm, node))
        elif ok is False:
            rep.violation(R, "assemble/scatter", "assemble_lwe stores residue i at an index other than i * poly_modulus_degree: the "
                          "value is not the constant coefficient of component i", facts.loc(asm, node))
        else:
            rep.unresolved(R, "assemble/scatter", "no indexed store of the c0 residues found", facts.loc(asm))
    return n


def run_levels(facts, rep):
    """R-LWEPAIR(levels) [N]: packing k ciphertexts uses l = ceil(log2 k) butterfly layers (table size 2^l, trace parameter
    l).  The defining forms are recognised by a table: the loop `while (1 << l) < k { l += 1 }`, `k.next_power_of_two()
    .trailing_zeros()`, `bit_length(k - 1)`; `bit_length(k)` (= floor(log2 k) + 1) is the same number except when k is a
    power of two, where it is one more — the packed values then land at half the documented stride."""
    R = "R-LWEPAIR(levels)"
    rep.rule(R, "the layer count of pack_lwe_ciphertexts is ceil(log2 count) (recognised defining forms)")
    p = "app::lwe::<impl evaluator::Evaluator>::pack_lwe_ciphertexts"
    if not rep.anchor(R, p, p in facts.hir):
        return 0
    rep.fn(p)
    body = facts.inlined(p)
    # the level local: the one shifted in the size of the table `vec![..; 1 << l]`
    lvl = None
    for x in walk(body):
        if x.get("k") == "Call" and (callee(x) or {}).get("def", "").endswith("vec::from_elem") and len(x["args"]) == 2:
            a = strip(x["args"][1])
            if a.get("k") == "Bin" and a.get("op") == "<<" and local_of(a["b"]):
                lvl = local_of(a["b"])
    if lvl is None:
        rep.unresolved(R, "levels", "no table of size 1 << l found", facts.loc(p))
        return 1
    lets = [x for x in walk(body) if x.get("k") == "Let" and x["pat"].get("k") == "PBind" and x["pat"]["lid"] == lvl[0] and "init" in x]
    form = None
    where = lets[0] if lets else None
    if lets:
        init = strip(lets[0]["init"])
        zero = init.get("k") == "Lit" and str(init.get("v", "")).split("_")[0] == "0"
        if zero:
            for w in walk(body):
                if w.get("k") == "While":
                    c = strip(w["c"])
                    if c.get("k") == "Bin" and c.get("op") == "<":
                        sh = strip(c["a"])
                        if sh.get("k") == "Bin" and sh.get("op") == "<<" and local_of(sh["b"]) and local_of(sh["b"])[0] == lvl[0] \
                                and str(strip(sh["a"]).get("v", "")).split("_")[0] == "1":
                            inc = any(y.get("k") == "AssignOp" and y.get("op", "").startswith("+") and local_of(y["lhs"]) and
                                      local_of(y["lhs"])[0] == lvl[0] and str(strip(y["rhs"]).get("v", "")).split("_")[0] == "1"
                                      for y in walk(w["body"]))
                            if inc:
                                form = "ceil"
                                where = w
        else:
            names = [y.get("name") or (callee(y) or {}).get("name") for y in walk(init) if y.get("k") in ("MCall", "Call")]
            if "next_power_of_two" in names and "trailing_zeros" in names:
                form = "ceil"
            elif any(n in ("get_significant_bit_count", "bit_length") for n in names) or \
                    ("leading_zeros" in names):
                # bit length of k - 1 is ceil(log2 k); of k itself it is floor(log2 k) + 1
                arg_minus_one = any(y.get("k") == "Bin" and y.get("op") == "-" and str(strip(y["b"]).get("v", "")).split("_")[0] == "1"
                                    for y in walk(init))
                form = "ceil" if arg_minus_one else "floor+1"
    if form == "ceil":
        rep.ok(R, "levels", "l is ceil(log2 count)", facts.loc(p, where))
    elif form == "floor+1":
        rep.violation(R, "levels", "the layer count is the bit length of the count, floor(log2 k) + 1: for a power-of-two count it "
                      "is one more than ceil(log2 k), so the values are packed at half the documented stride (and k = N asks "
                      "for a Galois key that does not exist)", facts.loc(p, where))
    else:
        rep.unresolved(R, "levels", "the definition of the layer count is not one of the recognised forms", facts.loc(p, where))
    return 1


def run_packmeta(facts, rep):
    """R-LWEPAIR(meta) [N]: packing refuses inputs that disagree in the metadata under which their data is combined.

    pack_lwe_ciphertexts re-assembles every LWE ciphertext into an RLWE ciphertext carrying the LWE's own parms_id, scale
    and correction factor (LWECiphertext::assemble_lwe -> Ciphertext::from_members), but moves the DATA of one of them through
    a scratch ciphertext cloned from the first (negacyclic_shift_ps(odd.data() -> temp.data_mut())): from there on that data
    travels under the first input's metadata, so the evaluator's own scale check / correction-factor balancing cannot see a
    disagreement.  Hence each metadata field that assemble_lwe copies from the LWE must be compared, in a refusing check
    inside a loop over all inputs, with the common value — as is done for parms_id.  Without it, inputs at different scales
    (CKKS) or correction factors (BGV) are accepted and the packed values are silently wrong."""
    RM = "R-LWEPAIR(meta)"
    rep.rule(RM, "every metadata field assemble_lwe copies from an LWE ciphertext (parms_id, scale, correction_factor) is compared "
             "for all inputs of pack_lwe_ciphertexts in a refusing check")
    META = ("parms_id", "scale", "correction_factor")
    asm = [p for p in facts.hir if p.endswith("LWECiphertext::assemble_lwe")]
    pack = [p for p in facts.hir if p.endswith("::pack_lwe_ciphertexts")]
    if not (rep.anchor(RM, "LWECiphertext::assemble_lwe", bool(asm)) and rep.anchor(RM, "pack_lwe_ciphertexts", bool(pack))):
        return 0
    asm, pack = asm[0], pack[0]
    rep.fn(asm)
    rep.fn(pack)
    copied = []
    for x in walk(facts.hir[asm]):
        if x.get("k") == "Call" and (callee(x) or {}).get("name") == "from_members":
            for a in x["args"]:
                for y in walk(a):
                    if y.get("k") == "MCall" and y.get("name") in META and not y["args"] and y["name"] not in copied:
                        copied.append(y["name"])
    for x in walk(facts.hir[asm]):
        if x.get("k") == "MCall" and x.get("name", "").startswith("set_") and x["args"]:
            for y in walk(x["args"][0]):
                if y.get("k") == "MCall" and y.get("name") in META and y["name"] not in copied:
                    copied.append(y["name"])
    if not copied:
        rep.unresolved(RM, "fields", "no metadata copied by assemble_lwe was recognised", facts.loc(asm))
        return 0
    body = facts.hir[pack]
    it = facts.items[pack]
    lw = [prm["pat"]["lid"] for prm in it["params"] if prm["pat"].get("k") == "PBind" and "LWECiphertext" in prm.get("ty", "")]
    # element bindings of iterator adaptors over the inputs: lwes.iter().all(|l| ..), lwes.windows(2).for_each(|w| ..)
    from facts import pat_bindings as _pb
    clos_elems = set()
    for x in walk(body):
        if x.get("k") == "MCall" and x.get("args"):
            src = root_local(x["recv"])
            if src and src[0] in lw:
                for a in x["args"]:
                    a0 = strip(a)
                    if a0.get("k") == "Closure":
                        for prm in a0.get("params", []):
                            for l, _ in _pb(prm.get("pat", prm)):
                                clos_elems.add(l)
    n = 0
    for fld in copied:
        n += 1
        key = "pack/%s" % fld
        found = None
        for y in walk(body):
            refusing = (y.get("k") == "Macro" and y.get("name") in ("assert_eq", "assert", "assert_ne", "panic")) or \
                       (y.get("k") == "If" and facts.ty(y["th"]) == "!")
            if refusing and clos_elems:
                cond = y if y.get("k") == "Macro" else y["c"]
                if any(z.get("k") == "MCall" and z.get("name") == fld and (root_local(z["recv"]) or (None,))[0] in clos_elems
                       for z in walk(cond)):
                    found = y
        for lp in walk(body):
            if lp.get("k") != "For":
                continue
            src = root_local(lp["iter"])
            if not (src and src[0] in lw):
                continue
            elems = {l for l, _ in __import__("facts").pat_bindings(lp["pat"])}
            for y in walk(lp["body"]):
                refusing = (y.get("k") == "Macro" and y.get("name") in ("assert_eq", "assert", "assert_ne", "panic")) or \
                           (y.get("k") == "If" and facts.ty(y["th"]) == "!")
                if not refusing:
                    continue
                cond = y if y.get("k") == "Macro" else y["c"]
                if any(z.get("k") == "MCall" and z.get("name") == fld and (root_local(z["recv"]) or (None,))[0] in elems
                       for z in walk(cond)):
                    found = y
        if found is not None:
            rep.ok(RM, key, "`%s` of every input is compared in a refusing check" % fld, facts.loc(pack, found),
                   sample={"field": fld})
        else:
            rep.violation(RM, key, "assemble_lwe gives each re-assembled ciphertext its LWE's own `%s`, but pack_lwe_ciphertexts never "
                          "compares it across its inputs; the data of the odd half is moved through a scratch ciphertext cloned from "
                          "the first input, so it is combined under the first input's `%s`: inputs that differ in it are accepted and "
                          "the packed values are wrong" % (fld, fld), facts.loc(pack))
    return n


def run_packshift(facts, rep):
    """R-LWEPAIR(shift) [N]: in layer j of the packing butterfly the odd half is multiplied by X^(N / 2^(j+1)) — N being the
    RING DEGREE.  The amount handed to negacyclic_shift_ps must therefore be `D >> (layer + 1)` (or `D / 2^(layer+1)`) with D
    resolving to the ring degree (poly_modulus_degree) and not to a quantity derived from the number of inputs (the padded
    count 2^l equals N only when more than N/2 ciphertexts are packed — the one case the suite exercises)."""
    RS = "R-LWEPAIR(shift)"
    rep.rule(RS, "the butterfly's shift amount is (ring degree) >> (layer + 1): its left operand resolves to poly_modulus_degree, "
             "not to a count of inputs")
    pack = [p for p in facts.hir if p.endswith("::pack_lwe_ciphertexts")]
    if not rep.anchor(RS, "pack_lwe_ciphertexts", bool(pack)):
        return 0
    p = pack[0]
    rep.fn(p)
    body = facts.inlined(p)
    defs = Defs(body)
    it = facts.items[p]
    lw = {prm["pat"]["lid"] for prm in it["params"] if prm["pat"].get("k") == "PBind" and "LWECiphertext" in prm.get("ty", "")}
    calls = [x for x in walk(body) if x.get("k") == "Call" and (callee(x) or {}).get("name", "").startswith("negacyclic_shift")
             and len(x["args"]) >= 2]
    n = 0
    for k, c in enumerate(calls):
        # only shifts inside a loop (the butterfly), not the extraction shift
        n += 1
        key = "pack/shift#%d" % k
        e = strip(c["args"][1])
        for _ in range(4):
            lo = local_of(e)
            if lo and len(defs.defs.get(lo[0], [])) == 1:
                e = strip(defs.defs[lo[0]][0])
            else:
                break
        if not (e.get("k") == "Bin" and e.get("op") in (">>", "/")):
            rep.unresolved(RS, key, "shift amount is not of the form D >> (layer + 1)", facts.loc(p, c))
            continue
        cl = list(defs.closure(e["a"]))
        degree = any(y.get("k") == "MCall" and y.get("name") in ("poly_modulus_degree", "coeff_count") for y in cl)
        count = any(y.get("k") == "MCall" and y.get("name") == "len" and (root_local(y["recv"]) or (None,))[0] in lw for y in cl)
        if degree and not count:
            rep.ok(RS, key, "shift = (ring degree) >> (layer + 1)", facts.loc(p, c), sample={"call": k})
        elif count or not degree:
            rep.violation(RS, key, "the butterfly shifts the odd half by an amount whose base %s: for fewer than N/2 + 1 inputs the "
                          "padded count is smaller than the ring degree and the second half of every pair lands at the wrong "
                          "coefficients" % ("derives from the number of inputs instead of the ring degree" if count else
                                            "does not resolve to the ring degree"), facts.loc(p, c))
    return n


def run_packelement(facts, rep):
    """R-LWEPAIR(element) [N]: in layer j of the packing butterfly the odd half is mapped by the automorphism X -> X^(2^(j+1) + 1).
    The element handed to apply_galois_inplace inside the butterfly must be `(1 << (layer + 1)) + 1`: a shift of the literal 1.
    An element derived from the ring degree (`N >> (l - layer - 1)) + 1`) coincides with it only when the number of layers l
    equals log2 N, i.e. when more than N/2 ciphertexts are packed."""
    RE = "R-LWEPAIR(element)"
    rep.rule(RE, "the Galois element of butterfly layer j is (1 << (j + 1)) + 1, not a quantity derived from the ring degree")
    pack = [p for p in facts.hir if p.endswith("::pack_lwe_ciphertexts")]
    if not rep.anchor(RE, "pack_lwe_ciphertexts", bool(pack)):
        return 0
    p = pack[0]
    rep.fn(p)
    body = facts.inlined(p)
    defs = Defs(body)
    n = 0
    done = set()
    for lp in walk(body):
        if lp.get("k") not in ("For", "While"):
            continue
        for c in walk(lp["body"]):
            if id(c) in done:
                continue
            if not (c.get("k") in ("MCall", "Inl") and (c.get("name") == "apply_galois_inplace") and (c.get("args") or (c.get("orig") or {}).get("args"))):
                continue
            args = c.get("args") or c["orig"]["args"]
            if len(args) < 2:
                continue
            done.add(id(c))
            n += 1
            key = "pack/element#%d" % (n - 1)
            e = strip(args[1])
            for _ in range(4):
                lo = local_of(e)
                if lo and len(defs.defs.get(lo[0], [])) == 1:
                    e = strip(defs.defs[lo[0]][0])
                else:
                    break
            if not (e.get("k") == "Bin" and e.get("op") == "+"):
                rep.unresolved(RE, key, "element is not of the form X + 1", facts.loc(p, c))
                continue
            parts = [strip(e["a"]), strip(e["b"])]
            base = [q for q in parts if not (q.get("k") == "Lit" and str(q.get("v", "")).split("_")[0] == "1")]
            if len(base) != 1:
                rep.unresolved(RE, key, "element is not of the form X + 1", facts.loc(p, c))
                continue
            b = base[0]
            for _ in range(3):
                if b.get("k") == "Block" and b.get("expr") is not None and not b.get("stmts"):
                    b = strip(b["expr"])
            if b.get("k") == "Bin" and b.get("op") == "<<" and strip(b["a"]).get("k") == "Lit" and \
                    str(strip(b["a"]).get("v", "")).split("_")[0] == "1":
                rep.ok(RE, key, "element = (1 << ..) + 1", facts.loc(p, c), sample={"call": n - 1})
            elif any(y.get("k") == "MCall" and y.get("name") in ("poly_modulus_degree", "coeff_count") for y in defs.closure(b)):
                rep.violation(RE, key, "the butterfly's Galois element is derived from the ring degree instead of being 2^(layer+1) + 1: "
                              "whenever fewer than N/2 + 1 ciphertexts are packed (fewer layers than log2 N) the wrong automorphism "
                              "is applied to the odd half", facts.loc(p, c))
            else:
                rep.unresolved(RE, key, "element's base is not a shift of the literal 1", facts.loc(p, c))
    return n
