"""R-LWEPAIR [N] — extraction and re-assembly of one coefficient address the same places.

extract_lwe(ct, term) keeps, per RNS component i, coefficient `term` of c0 and the polynomial c1 * X^(-term);
assemble_lwe puts c0's residues back as the CONSTANT coefficient of component i and c1 after the first polynomial.
Structural necessary conditions, decided on symbolic index polynomials (r_slotmod.Sym):
  (gather)   the residue kept for component i is `poly_component(0, i)[term]` with i the enumeration variable and `term`
             the parameter;
  (shift)    c1 is shifted by 0 for term == 0 and by 2N - term otherwise (X^(2N) = 1 in the negacyclic ring; N - term
             would negate c1);
  (scatter)  assemble stores residue i at index i * N (constant coefficient of component i) and copies c1 to
             data[K*N ..] (the second polynomial).
"""
from facts import walk, callee, strip, local_of, root_local
from r_slotmod import Sym, padd, pmul, pconst, patom, pshow

R = "R-LWEPAIR"


def run(facts, rep):
    rep.rule(R, "extract_lwe gathers coefficient `term` of every component and shifts c1 by 2N - term; assemble_lwe scatters "
             "residue i to index i*N and c1 to the second polynomial")
    ex = "app::lwe::<impl evaluator::Evaluator>::extract_lwe"
    asm = "app::lwe::LWECiphertext::assemble_lwe"
    n = 0
    if rep.anchor(R, ex, ex in facts.hir):
        rep.fn(ex)
        body = facts.hir[ex]
        sym = Sym(facts, body)
        plid = {q["pat"]["name"]: q["pat"]["lid"] for q in facts.items[ex]["params"] if q["pat"].get("k") == "PBind"}
        # (gather)
        ok = False
        for x in walk(body):
            if x.get("k") == "Index":
                b = strip(x["e"])
                if b.get("k") == "MCall" and b.get("name") == "poly_component" and len(b["args"]) == 2:
                    i0, comp = strip(b["args"][0]), local_of(b["args"][1])
                    it = local_of(x["i"])
                    if i0.get("k") == "Lit" and str(i0.get("v", "")).startswith("0") and comp and it and it[0] == plid.get("term"):
                        ok = True
                        node = x
        n += 1
        if ok:
            rep.ok(R, "extract/gather", "keeps poly_component(0, i)[term] for every component i", facts.loc(ex, node))
        else:
            rep.violation(R, "extract/gather", "extract_lwe no longer keeps coefficient `term` of component i of c0 "
                          "(`poly_component(0, i)[term]`)", facts.loc(ex))
        # (shift)
        shift = None
        for x in walk(body):
            if x.get("k") == "Call" and (callee(x) or {}).get("name", "").startswith("negacyclic_shift") and len(x["args"]) >= 2:
                shift = x["args"][1]
                node = x
        n += 1
        if shift is None:
            rep.violation(R, "extract/shift", "extract_lwe no longer shifts c1 negacyclically", facts.loc(ex))
        else:
            v = sym.poly(shift)
            N = None
            for a in (v[3] if isinstance(v, tuple) else v or {}):
                pass
            good = False
            if isinstance(v, tuple) and v[0] == "cond":
                th, el = v[2], v[3]
                if isinstance(th, dict) and isinstance(el, dict):
                    # el == 2*N - term for the single accessor atom N
                    term_atoms = [a for m in el for a in m if a.startswith("term#")]
                    n_atoms = [a for m in el for a in m if "poly_modulus_degree" in a]
                    if len(set(term_atoms)) == 1 and len(set(n_atoms)) == 1:
                        want = padd(pmul(pconst(2), patom(n_atoms[0])), patom(term_atoms[0]), -1)
                        good = (el == want and not th) or (th == want and not el)
            if good:
                rep.ok(R, "extract/shift", "c1 is shifted by 0 / 2N - term", facts.loc(ex, node),
                       sample={"shift": "if term == 0 {0} else {2N - term}"})
            elif isinstance(v, (dict, tuple)):
                rep.violation(R, "extract/shift", "c1 is shifted by an amount other than 2N - term (for term != 0): the extracted "
                              "ciphertext is not c1 * X^(-term); e.g. N - term negates it", facts.loc(ex, node))
            else:
                rep.unresolved(R, "extract/shift", "shift amount is not a polynomial the rule can read", facts.loc(ex, node))
    if rep.anchor(R, asm, asm in facts.hir):
        rep.fn(asm)
        body = facts.hir[asm]
        sym = Sym(facts, body)
        n += 1
        ok = None
        for x in walk(body):
            if x.get("k") == "Assign" and strip(x["lhs"]).get("k") == "Index":
                idx = sym.poly(strip(x["lhs"])["i"])
                if isinstance(idx, dict):
                    mons = list(idx.items())
                    if len(mons) == 1 and mons[0][1] == 1 and len(mons[0][0]) == 2 and \
                            any("poly_modulus_degree" in a for a in mons[0][0]) and any("#" in a and "." not in a for a in mons[0][0]):
                        ok = True
                    else:
                        ok = False
                    node = x
        if ok:
            rep.ok(R, "assemble/scatter", "residue i is stored at index i * N (constant coefficient of component i)",
                   facts.loc(asm, node))
        elif ok is False:
            rep.violation(R, "assemble/scatter", "assemble_lwe stores residue i at an index other than i * poly_modulus_degree: the "
                          "value is not the constant coefficient of component i", facts.loc(asm, node))
        else:
            rep.unresolved(R, "assemble/scatter", "no indexed store of the c0 residues found", facts.loc(asm))
    return n
