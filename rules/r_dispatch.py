"""R-DISPATCH — which worker a public entry point reaches under its literal flags (property C01).

The public methods of `Encryptor` forward to two private helpers with literal booleans (`is_asymmetric`,
`save_seed`) and `Some/None` generators.  The engine evaluates the helpers under those constants
(branches on known booleans are pruned, `Option` arguments are tracked as Some/None) and collects the
`util::rlwe::encrypt_zero::*` workers that remain reachable.
 [N] a method whose name says `symmetric` reaches only the secret-key workers and every other encryption
     method only the public-key workers — otherwise an encryptor holding just the other key cannot
     encrypt, or encrypts under the wrong key;
 [N] each of them reaches at least one worker (it encrypts at all);
 advisory: `*_with_u_prng` methods reach the generator-taking worker, the others the self-seeding one.
"""
from facts import walk, callee, target_key, strip, local_of
from flow import Flow

WORKERS = {"symmetric", "symmetric_with_c1_prng", "asymmetric", "asymmetric_with_u_prng"}


def _lit_bool(e):
    e = strip(e)
    if e.get("k") == "Lit" and e.get("v") in ("true", "false"):
        return e["v"] == "true"
    return None


def _opt(e, st):
    e = strip(e)
    if e.get("k") == "Path" and e.get("def", "").endswith("::None"):
        return "none"
    if e.get("k") == "Call" and e.get("ctor", "").endswith("::Some"):
        return "some"
    lo = local_of(e)
    if lo:
        return st.get(("opt", lo[0]))
    return None


def reach(facts, fpath, assume, depth=0, seen=None):
    return reach2(facts, fpath, assume, depth)[0]


def reach2(facts, fpath, assume, depth=0):
    """(workers reachable, has a normally-returning path) of fpath when its parameters take the values in `assume`
    ({index: True/False/'some'/'none'})."""
    out = set()
    if depth > 5:
        return out, True
    body = facts.hir.get(fpath)
    it = facts.items.get(fpath)
    if body is None:
        return out, True
    st0 = {}
    for j, p in enumerate(it["params"]):
        if p["pat"].get("k") == "PBind" and j in assume:
            v = assume[j]
            if isinstance(v, bool):
                st0[("b", p["pat"]["lid"])] = v
            else:
                st0[("opt", p["pat"]["lid"])] = v

    def bval(e, st):
        e = strip(e)
        k = e.get("k")
        if k == "Lit":
            return _lit_bool(e)
        if k == "Path" and e.get("res") == "local":
            return st.get(("b", e["lid"]))
        if k == "Un" and e.get("op") == "!":
            v = bval(e["e"], st)
            return None if v is None else (not v)
        if k == "Bin" and e.get("op") in ("&&", "||"):
            a, b = bval(e["a"], st), bval(e["b"], st)
            if e["op"] == "&&":
                if a is False or b is False:
                    return False
                return True if (a is True and b is True) else None
            if a is True or b is True:
                return True
            return False if (a is False and b is False) else None
        if k == "MCall" and e.get("name") in ("is_none", "is_some") and not e["args"]:
            o = _opt(e["recv"], st)
            if o:
                return (o == "none") == (e["name"] == "is_none")
        return None

    def join(a, b):
        return {k: a[k] for k in a if b.get(k) == a[k]}

    def guard(n, st, sense, kind):
        if kind == "if":
            v = bval(n["c"], st)
            if v is not None and v != bool(sense):
                return None
        return st

    def transfer(n, st):
        k = n.get("k")
        if k == "Let" and n["pat"].get("k") == "PBind" and "init" in n:
            v = bval(n["init"], st)
            o = _opt(n["init"], st)
            st = dict(st)
            st.pop(("b", n["pat"]["lid"]), None)
            if v is not None:
                st[("b", n["pat"]["lid"])] = v
            if o is not None:
                st[("opt", n["pat"]["lid"])] = o
            return st
        if k == "Assign":
            lo = local_of(n["lhs"])
            if lo:
                v = bval(n["rhs"], st)
                st = dict(st)
                st.pop(("b", lo[0]), None)
                if v is not None:
                    st[("b", lo[0])] = v
                return st
        if k in ("Call", "MCall"):
            f = callee(n)
            if f:
                if f["def"].startswith("util::rlwe::encrypt_zero::") and f["name"] in WORKERS:
                    out.add(f["name"])
                elif f.get("local") and target_key(f) in facts.hir and facts.items[target_key(f)].get("impl_self", "").endswith("Encryptor"):
                    args = ([n["recv"]] if k == "MCall" else []) + n["args"]
                    asm = {}
                    for j, a in enumerate(args):
                        v = bval(a, st)
                        if v is not None:
                            asm[j] = v
                        else:
                            o = _opt(a, st)
                            if o:
                                asm[j] = o
                    sub, normal = reach2(facts, target_key(f), asm, depth + 1)
                    out.update(sub)
                    if not normal:
                        return None
        return st

    fl = Flow(facts, join, transfer, guard=guard, closure_mode="maybe")
    fl.run(body, st0)
    return out, bool(fl.rets)


def run(facts, rep):
    R = "R-DISPATCH"
    rep.rule(R, "under its literal flags, a `symmetric` entry point of Encryptor reaches only the secret-key workers and "
             "every other encryption entry point only the public-key workers; each reaches at least one")
    n = 0
    for p in sorted(facts.methods_of("encryptor::Encryptor", pub_only=True)):
        nm = facts.items[p]["name"]
        if not nm.startswith("encrypt"):
            continue
        n += 1
        rep.fn(p)
        w = reach(facts, p, {})
        sym = "symmetric" in nm
        want = {"symmetric", "symmetric_with_c1_prng"} if sym else {"asymmetric", "asymmetric_with_u_prng"}
        key = nm
        if not w:
            rep.violation(R, key, "%s reaches no encrypt_zero worker under its flags: it cannot encrypt" % p, facts.loc(p))
        elif not w <= want:
            rep.violation(R, key, "%s is documented as %s encryption but reaches {%s}: an encryptor holding only the %s key "
                          "cannot use it, or it encrypts under the other key" %
                          (p, "secret-key" if sym else "public-key", ", ".join(sorted(w - want)), "secret" if sym else "public"),
                          facts.loc(p))
        else:
            rep.ok(R, key, "reaches {%s}" % ", ".join(sorted(w)), facts.loc(p), sample={"method": nm, "workers": sorted(w)})
            prng = nm.endswith("_with_u_prng")
            taking = {x for x in w if "_with_" in x}
            if prng and not taking:
                rep.advisory(R, key + "/generator", "a *_with_u_prng method does not reach the generator-taking worker", facts.loc(p))
            if not prng and taking:
                rep.advisory(R, key + "/generator", "a method without generator argument reaches the generator-taking worker", facts.loc(p))
    return n
