"""Structured forward dataflow over the re-sugared HIR trees.

The analysis state is any immutable value; `None` means "unreachable".  A client supplies
  join(a, b)            -- least upper bound of two reachable states
  transfer(node, st)    -- effect of evaluating `node` itself after its operands (calls, assigns, ...)
  guard(cond, st, sense)-- (optional) refine the state on the continuing side of a two-way branch one
                           of whose sides diverges (panic / early Err return counts as 'refusal' when
                           `refusal_returns` says so); `sense` is the truth value of `cond` on the
                           continuing side (None for match-based guards)
The engine handles sequencing, short-circuit operators, if / match / while / loop / for, break /
continue / return, `?`, diverging expressions (type `!`) and closures.
Evaluation order follows Rust: receiver, arguments left to right, then the operation.
"""
from facts import walk

MAX_ITERS = 12


class Flow:
    def __init__(self, facts, join, transfer, guard=None, closure_mode="maybe", loops_at_least_once=False,
                 is_refusal_return=None):
        self.facts = facts
        self.join = join
        self.transfer = transfer
        self.guard = guard
        self.closure_mode = closure_mode
        self.once = loops_at_least_once
        self.is_refusal_return = is_refusal_return
        self.rets = []          # (state, node) for every normal return (explicit or tail)
        self.err_rets = []      # (state, node) for `?` early returns
        self.breaks = {}        # loop id -> [state]
        self.conts = {}
        self.visit_hook = None  # optional callable(node, state_before)
        self.exit_hook = None   # optional callable(node, state_before, state_after) for if/match/loops

    # ------------------------------------------------------------------ helpers
    def j(self, a, b):
        if a is None:
            return b
        if b is None:
            return a
        return self.join(a, b)

    def jall(self, xs):
        out = None
        for x in xs:
            out = self.j(out, x)
        return out

    def _exit(self, n, before, after):
        if after is not None and self.exit_hook is not None:
            return self.exit_hook(n, before, after)
        return after

    def diverges(self, n):
        return self.facts.ty(n) == "!"

    # ------------------------------------------------------------------ entry
    def run(self, body, init):
        out = self.ev(body, init)
        if out is not None:
            self.rets.append((out, body))
        return out

    # ------------------------------------------------------------------ evaluation
    def seq(self, nodes, st):
        for n in nodes:
            if st is None:
                return None
            st = self.ev(n, st)
        return st

    def ev(self, n, st):
        if st is None or n is None:
            return st
        if self.visit_hook:
            self.visit_hook(n, st)
        k = n.get("k")
        m = getattr(self, "ev_" + k, None) if k else None
        if m is not None:
            out = m(n, st)
        else:
            out = self.generic(n, st)
        if out is not None and k not in ("Block", "If", "Match", "While", "Loop", "For") and self.diverges(n):
            return None
        return out

    def generic(self, n, st):
        # operands in syntactic order, then the node's own effect
        k = n.get("k")
        if k == "MCall":
            st = self.ev(n["recv"], st)
            st = self.seq(n["args"], st)
        elif k == "Call":
            if "fe" in n:
                st = self.ev(n["fe"], st)
            st = self.seq(n["args"], st)
        elif k == "Macro":
            st = self.seq(n["args"], st)
        elif k in ("Tup", "Array"):
            st = self.seq(n["es"], st)
        elif k == "Struct":
            st = self.seq([f["e"] for f in n["fields"]], st)
            if "base" in n:
                st = self.ev(n["base"], st)
        elif k in ("Un", "Cast", "Ref", "Field", "Repeat"):
            st = self.ev(n["e"], st)
        elif k == "Index":
            st = self.ev(n["e"], st)
            st = self.ev(n["i"], st)
        elif k == "Assign":
            st = self.ev(n["rhs"], st)
            st = self.ev_place(n["lhs"], st)
        elif k == "AssignOp":
            st = self.ev(n["rhs"], st)
            st = self.ev(n["lhs"], st)
        elif k == "LetE":
            st = self.ev(n["init"], st)
        if st is None:
            return None
        return self.transfer(n, st)

    def ev_place(self, n, st):
        # evaluate sub-expressions of an assignment target (indices, receivers) but not the target read
        k = n.get("k")
        if k == "Index":
            st = self.ev_place(n["e"], st)
            return self.ev(n["i"], st)
        if k in ("Field", "Un"):
            return self.ev_place(n["e"], st)
        if k == "Path":
            return st
        return self.ev(n, st)

    def ev_Bin(self, n, st):
        if n.get("op") in ("&&", "||"):
            a = self.ev(n["a"], st)
            b = self.ev(n["b"], a)
            out = self.j(a, b)
        else:
            a = self.ev(n["a"], st)
            out = self.ev(n["b"], a)
        if out is None:
            return None
        return self.transfer(n, out)

    def ev_Block(self, n, st):
        for s in n.get("stmts", []):
            if st is None:
                return None
            sk = s.get("k")
            if sk == "Let":
                if "init" in s:
                    st = self.ev(s["init"], st)
                if st is None:
                    return None
                if "els" in s:
                    e = self.ev(s["els"], st)   # else branch must diverge
                    _ = e
                st = self.transfer(s, st)
            else:
                st = self.ev(s["e"], st)
        if st is None:
            return None
        if n.get("expr"):
            st = self.ev(n["expr"], st)
        return st

    def ev_If(self, n, st):
        c = self.ev(n["c"], st)
        if c is None:
            return None
        st_t, st_e = c, c
        if self.guard:
            st_t = self.guard(n, c, True, "if")
            st_e = self.guard(n, c, False, "if")
        t = self.ev(n["th"], st_t)
        e = self.ev(n["el"], st_e) if n.get("el") else st_e
        return self._exit(n, c, self.j(t, e))

    def ev_Match(self, n, st):
        s = self.ev(n["e"], st)
        if s is None:
            return None
        outs = []
        for arm in n["arms"]:
            a = s
            if self.guard:
                a = self.guard(n, s, arm, "match")
            a = self.transfer({"k": "ArmPat", "pat": arm["pat"], "scrut": n["e"]}, a)
            if arm.get("guard"):
                a = self.ev(arm["guard"], a)
            outs.append(self.ev(arm["body"], a))
        return self._exit(n, s, self.jall(outs))

    def _loop(self, n, st, cond, body, has_cond):
        lid = n.get("loop_id", n.get("id"))
        ids = {n.get("id"), lid}
        for i in ids:
            self.breaks[i] = []
            self.conts[i] = []
        entry = st
        exit_states = []
        head = entry
        for _ in range(MAX_ITERS):
            for i in ids:
                self.breaks[i] = []
                self.conts[i] = []
            exit_states = []
            h = head
            if has_cond:
                h = self.ev(cond, head)
                if h is None:
                    break
                if self.guard:
                    exit_states.append(self.guard(n, h, False, "while"))
                    h = self.guard(n, h, True, "while")
                else:
                    exit_states.append(h)
            b = self.ev(body, h)
            back = self.jall([b] + [s for i in ids for s in self.conts[i]])
            new_head = self.j(entry, back)
            if new_head == head:
                break
            head = new_head
        outs = exit_states + [s for i in ids for s in self.breaks[i]]
        return self._exit(n, entry, self.jall(outs))

    def ev_While(self, n, st):
        return self._loop(n, st, n["c"], n["body"], True)

    def ev_Loop(self, n, st):
        return self._loop(n, st, None, n["body"], False)

    def ev_For(self, n, st):
        st = self.ev(n["iter"], st)
        if st is None:
            return None
        lid = n.get("loop_id", n.get("id"))
        ids = {n.get("id"), lid}
        entry = st
        head = entry
        back = None
        bind = {"k": "ForBind", "pat": n["pat"], "iter": n["iter"], "l": n.get("l")}
        for _ in range(MAX_ITERS):
            for i in ids:
                self.breaks[i] = []
                self.conts[i] = []
            h = self.transfer(bind, head)
            b = self.ev(n["body"], h)
            back = self.jall([b] + [s for i in ids for s in self.conts[i]])
            new_head = self.j(entry, back)
            if new_head == head:
                break
            head = new_head
        outs = [s for i in ids for s in self.breaks[i]]
        base = back if self.once else head
        return self._exit(n, entry, self.jall([base] + outs))

    def ev_Break(self, n, st):
        if n.get("e"):
            st = self.ev(n["e"], st)
        if st is not None:
            self.breaks.setdefault(n.get("target"), []).append(st)
        return None

    def ev_Continue(self, n, st):
        self.conts.setdefault(n.get("target"), []).append(st)
        return None

    def ev_Ret(self, n, st):
        if n.get("e"):
            st = self.ev(n["e"], st)
        if st is not None:
            st = self.transfer(n, st)
            self.rets.append((st, n))
        return None

    def ev_Try(self, n, st):
        st = self.ev(n["e"], st)
        if st is not None:
            self.err_rets.append((st, n))
            st = self.transfer(n, st)
        return st

    def ev_Closure(self, n, st):
        if self.closure_mode == "skip":
            return self.transfer(n, st)
        # the closure body may run zero or more times from here on; approximate by "maybe once, now"
        saved = (self.rets, self.err_rets)
        self.rets, self.err_rets = [], []
        inner = self.ev(n["body"], st)
        inner = self.jall([inner] + [s for s, _ in self.rets])
        self.rets, self.err_rets = saved
        out = self.j(st, inner) if self.closure_mode == "maybe" else (inner if inner is not None else st)
        return self.transfer(n, out) if out is not None else None

    def ev_Inl(self, n, st):
        """an inlined helper call (Facts.inlined): bind the parameters, run the body once; the helper's own returns
        are exits of the inlined block, not of the enclosing function"""
        for s_ in n.get("stmts", []):
            if st is None:
                return None
            st = self.ev(s_["init"], st)
            if st is not None:
                st = self.transfer(s_, st)
        if st is None:
            return None
        saved = (self.rets, self.err_rets)
        self.rets, self.err_rets = [], []
        inner = self.ev(n["body"], st)
        outs = [inner] + [s2 for s2, _ in self.rets] + [s2 for s2, _ in self.err_rets]
        self.rets, self.err_rets = saved
        return self.jall(outs)

    def ev_Path(self, n, st):
        return self.transfer(n, st)

    def ev_Lit(self, n, st):
        return st


def contains_exit(loop_node):
    """Does the loop body contain a break out of this loop, a return, or a `?`."""
    lid = {loop_node.get("id"), loop_node.get("loop_id")}
    body = loop_node["body"]
    for x in walk(body, into_closures=False):
        k = x.get("k")
        if k == "Ret" or k == "Try":
            return True
        if k == "Break" and x.get("target") in lid:
            return True
    return False


def cond_atoms(c, sense):
    """Sub-conditions whose truth value is known on the side where `c` evaluates to `sense`
    (a false disjunction falsifies every disjunct; a true conjunction verifies every conjunct)."""
    k = c.get("k")
    if k == "Bin" and c.get("op") == "||":
        return (cond_atoms(c["a"], False) + cond_atoms(c["b"], False)) if not sense else []
    if k == "Bin" and c.get("op") == "&&":
        return (cond_atoms(c["a"], True) + cond_atoms(c["b"], True)) if sense else []
    if k == "Un" and c.get("op") == "!":
        return cond_atoms(c["e"], not sense)
    if k == "Block" and not c.get("stmts") and c.get("expr"):
        return cond_atoms(c["expr"], sense)
    return [(c, sense)]
