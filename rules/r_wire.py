"""R-WIRE — writer / reader / size-function agreement of every serialization triple (property C14).

From each `serialize` / `deserialize` / `serialized_size` (and the inherent `*_full`, `*_terms`,
`*_polynomial` triples) the engine extracts, per scheme projection (BFV, CKKS, BGV), an abstract wire
grammar:
    Leaf(T)        a value of wire type T written / read by the resolved (de)serializer of T
                   (`write_u64_limited` / `read_u64_limited` are the leaf `lim`)
    Rep[...]       a loop / iterator adaptor over wire items
    Alt(g)[..|..]  a conditional; g = the names the guard reads (contains_seed, is_ntt_form, ...)
Judgements [N]:
  (rw)   writer and reader grammars are equal as trees (leaf types in order, loop nesting, conditionals) —
         otherwise the reader consumes other bytes than the writer produced: no round trip;
  (size) the fixed part of the announced size (bytes of all leaves outside loops, per conditional branch)
         equals the fixed part of what the writer emits, and the size function has a variable term
         wherever the writer has a loop (the variable parts themselves are compared only by the leaf kinds
         they multiply: the closed-form products are not re-derived);
  (seed) every reader of a possibly seed-compressed object expands the seed before returning.
"""
import re
from facts import walk, callee, strip, local_of, Defs
import project

WIDTH = {"u64": 8, "usize": 8, "f64": 8, "u8": 1, "bool": 1, "[u64; 4]": 32, "encryption_parameters::SchemeType": 1,
         "modulus::Modulus": 8}
SCHEMES = ("BFV", "CKKS", "BGV")


def norm_ty(t):
    t = (t or "").strip()
    while t.startswith("&"):
        t = t[1:].lstrip()
        if t.startswith("mut "):
            t = t[4:]
    t = t.replace("[u64; HASH_BLOCK_U64_COUNT]", "[u64; 4]")
    return t


def leaf_kind(facts, n, mode):
    """mode 'w' (writer), 'r' (reader), 's' (size).  Returns leaf descriptor or None."""
    k = n.get("k")
    if k not in ("Call", "MCall"):
        return None
    f = callee(n)
    if f is None:
        return None
    name = f["name"]
    if f.get("local") and not f.get("trait") and name not in ("write_u64_limited", "read_u64_limited"):
        d = f.get("inst") if f.get("inst") in facts.hir else f["def"]
        it = facts.items.get(d)
        if it is not None and not it.get("impl_trait") and d in facts.hir and d not in _members(facts):
            return None          # a private helper: its body is expanded in place (see grammar / size_grammar)
    if mode in ("w", "r") and name in ("write_all", "read_exact") and f["def"].startswith("std::io::"):
        a = node_args(n)
        t = norm_ty(facts.ty(a[-1])) if a else ""
        m = re.match(r"^\[u8; (\d+)\]$", t)
        return ("bytes", int(m.group(1))) if m else ("raw",)
    if mode == "w":
        if name == "write_u64_limited":
            return ("lim",)
        if not name.startswith("serialize") or name.startswith("serialized"):
            return None
        rest = name[len("serialize"):]
    elif mode == "r":
        if name == "read_u64_limited":
            return ("lim",)
        if not name.startswith("deserialize"):
            return None
        rest = name[len("deserialize"):]
    else:
        if name == "size_of":
            targs = f.get("targs") or []
            return ("T", norm_ty(targs[0]) if targs else "?")
        if not name.startswith("serialized") or not name.endswith("size"):
            return None
        rest = name[len("serialized"):-len("size")].rstrip("_")
    st = norm_ty(f.get("self") or "")
    if not st and k == "MCall":
        st = norm_ty(facts.ty(n["recv"]))
    if mode == "r" and not st:
        st = norm_ty(facts.ty(n))
    rest = rest.strip("_")
    if st in ("", "Self"):
        st = "Self"
    return ("T", st + ("." + rest if rest else ""))


def _expand_vec(lk):
    """a leaf of type Vec<X> handled by the generic Vec impl is, on the wire, a length followed by the elements"""
    if lk[0] == "T":
        m = re.match(r"^(?:std::vec::)?Vec<(.*)>$", lk[1])
        if m:
            return [("T", "usize"), ("rep", tuple(_expand_vec(("T", norm_ty(m.group(1))))))]
    return [lk]


def node_args(n):
    return ([n["recv"]] if n.get("k") == "MCall" else []) + n.get("args", [])


def guard_names(e):
    names = set()
    for x in walk(e):
        if x.get("k") == "MCall":
            names.add(x["name"])
        if x.get("k") == "Path" and x.get("res") == "local":
            names.add(x["name"])
    return frozenset(n for n in names if n not in ("self", "unwrap", "len", "iter"))


_DEPTH = [0]
_SCHEME = [None]


def _diverges(facts, blk):
    """does the block end by leaving the enclosing iteration / function (continue, break, return, `!`-typed tail)?"""
    if not isinstance(blk, dict):
        return False
    if blk.get("k") != "Block":
        return blk.get("k") in ("Continue", "Break", "Ret") or facts.ty(blk) == "!"
    tail = blk.get("expr")
    if tail is not None:
        return _diverges(facts, strip(tail))
    st = blk.get("stmts") or []
    if not st:
        return False
    last = st[-1]
    e = strip(last.get("e")) if isinstance(last.get("e"), dict) else {}
    return e.get("k") in ("Continue", "Break", "Ret") or (bool(e) and facts.ty(e) == "!")


def grammar(facts, node, mode):
    """List of grammar items for the subtree (evaluation order)."""
    if node is None or not isinstance(node, dict):
        return []
    k = node.get("k")
    lk = leaf_kind(facts, node, mode)
    if lk is not None:
        inner = []
        for a in ([node.get("recv")] if k == "MCall" else []) + node.get("args", []):
            inner += grammar(facts, a, mode)
        return inner + _expand_vec(lk)
    if k in ("Call", "MCall") and _helper(facts, node) is not None and _DEPTH[0] < 3:
        inner = []
        for a in ([node.get("recv")] if k == "MCall" else []) + node.get("args", []):
            inner += grammar(facts, a, mode)
        hb = _helper(facts, node)
        if _SCHEME[0] not in (None, "-"):
            hb = project.project(facts, hb, _SCHEME[0])
        _DEPTH[0] += 1
        try:
            return inner + grammar(facts, hb, mode)
        finally:
            _DEPTH[0] -= 1
    if k == "MCall" and node.get("name") in ("map", "and_then", "map_err", "ok_or", "ok_or_else", "or_else", "unwrap_or_else") \
            and re.match(r"^(std|core)::(result::Result|option::Option)<", norm_ty(facts.ty(node["recv"]))):
        out = grammar(facts, node["recv"], mode)
        for a in node["args"]:
            a0 = strip(a)
            out += grammar(facts, a0["body"], mode) if a0.get("k") == "Closure" else grammar(facts, a, mode)
        return out
    if k in ("For", "While", "Loop"):
        body = grammar(facts, node.get("body"), mode)
        pre = grammar(facts, node.get("iter"), mode) if k == "For" else grammar(facts, node.get("c"), mode)
        if k == "For" and body:
            it_ = strip(node["iter"])
            while it_.get("k") == "MCall" and it_.get("name") in ("iter", "iter_mut", "into_iter") and not it_["args"]:
                it_ = strip(it_["recv"])
            m = re.match(r"^\[.*; (\d+)\]$", norm_ty(facts.ty(node["iter"]))) or \
                re.match(r"^\[.*; (\d+)\]$", norm_ty(facts.ty(it_))) or re.match(r"^\[.*; (\d+)\]$", norm_ty(facts.ty_adj(it_)))
            if m and int(m.group(1)) <= 16:
                return pre + body * int(m.group(1))      # iteration over a fixed-size array: unrolled
        return pre + ([("rep", tuple(body))] if body else [])
    if k == "Closure":
        body = grammar(facts, node["body"], mode)
        return [("rep", tuple(body))] if body else []
    if k == "If":
        c = grammar(facts, node["c"], mode)
        th = tuple(grammar(facts, node["th"], mode))
        el = tuple(grammar(facts, node.get("el"), mode))
        if not th and not el:
            return c
        if shape(th) == shape(el):
            return c + list(th)                           # both branches put the same items on the wire
        c0 = strip(node["c"])
        if (c0.get("k") == "Bin" and c0.get("op") == "!=") or (c0.get("k") == "Un" and c0.get("op") == "!"):
            th, el = el, th                               # `if a != b {X} else {Y}`  ==  `if a == b {Y} else {X}`
        return c + [("alt", guard_names(node["c"]), (th, el))]
    if k == "Match":
        s = grammar(facts, node["e"], mode)
        arms = [tuple(grammar(facts, a["body"], mode)) for a in node["arms"]]
        if not any(arms):
            return s
        nonempty = [a for a in arms if a]
        if len(set(nonempty)) == 1 and len(nonempty) == len(arms):
            return s + list(nonempty[0])
        return s + [("alt", guard_names(node["e"]), tuple(arms))]
    out = []
    if k == "Block":
        stmts = node.get("stmts", [])
        for si, st in enumerate(stmts):
            e_ = strip(st.get("e")) if st.get("k") in ("Semi", "Expr") and isinstance(st.get("e"), dict) else {}
            if e_.get("k") == "If" and not e_.get("el") and _diverges(facts, e_["th"]) and grammar(facts, e_["th"], mode):
                # `if c { A; continue }  B`  is  `if c { A } else { B }`: the rest of the block is the other alternative
                rest = {"k": "Block", "stmts": stmts[si + 1:], "expr": node.get("expr")}
                synth = {"k": "If", "c": e_["c"], "th": e_["th"], "el": rest, "t": e_.get("t"), "l": e_.get("l")}
                return out + grammar(facts, synth, mode)
            if st.get("k") == "Let":
                out += grammar(facts, st.get("init"), mode)
                out += grammar(facts, st.get("els"), mode)
            else:
                out += grammar(facts, st.get("e"), mode)
        out += grammar(facts, node.get("expr"), mode)
        return out
    if k == "MCall":
        out += grammar(facts, node["recv"], mode)
        for a in node["args"]:
            out += grammar(facts, a, mode)
        return out
    for key in ("e", "a", "b", "fe", "args", "es", "lhs", "rhs", "i", "init", "fields", "base"):
        v = node.get(key)
        if isinstance(v, dict):
            out += grammar(facts, v, mode)
        elif isinstance(v, list):
            for x in v:
                if isinstance(x, dict):
                    out += grammar(facts, x.get("e", x) if "k" not in x else x, mode)
    return out


def shape(items, with_guards=True):
    """Canonical comparable form: drop guards' names unless requested; alts with one empty side keep structure."""
    out = []
    for it in items:
        if it[0] in ("T", "lim", "raw", "bytes"):
            out.append(it)
        elif it[0] == "rep":
            out.append(("rep", shape(it[1], with_guards)))
        elif it[0] == "alt":
            branches = tuple(shape(b, with_guards) for b in it[2])
            out.append(("alt", branches))
    return tuple(out)


def show(items, ind=0):
    s = []
    for it in items:
        if it[0] == "T":
            s.append(it[1])
        elif it[0] == "lim":
            s.append("lim")
        elif it[0] == "raw":
            s.append("raw")
        elif it[0] == "bytes":
            s.append("%dB" % it[1])
        elif it[0] == "rep":
            s.append("Rep[" + show(it[1]) + "]")
        elif it[0] == "alt":
            br = it[2] if len(it) > 2 else it[1]
            s.append("Alt(" + " | ".join(show(b) for b in br) + ")")
    return " ".join(s)


def fixed_bytes(items):
    """(sum of widths of top-level leaves, list of per-alt fixed parts, has_variable) — None width if unknown leaf."""
    total = 0
    unknown = []
    alts = []
    var = False
    for it in items:
        if it[0] == "T":
            w = WIDTH.get(it[1])
            if w is None:
                unknown.append(it[1])
            else:
                total += w
        elif it[0] in ("lim", "raw"):
            var = True
        elif it[0] == "rep":
            var = True
        elif it[0] == "alt":
            br = it[2] if len(it) > 2 else it[1]
            alts.append(tuple(fixed_bytes(b) for b in br))
        elif it[0] == "bytes":
            total += it[1]
    return (total, tuple(sorted(unknown)), tuple(alts), var)


def size_grammar(facts, node, depth=0):
    """Grammar of a size function, by abstract evaluation of its body over symbolic sums: every local holds a list of
    wire items (leaves from serialized_size()/size_of, literal byte counts, Rep for products / loops / iterator sums,
    Alt for conditionals); `x += e` appends, loops wrap what they append in Rep, conditionals in Alt; the result is the
    value of the tail expression (or of the returned local).  Local helper functions are evaluated in place."""

    def lit(e):
        m = re.match(r"^\d+", e.get("v", ""))
        return int(m.group(0)) if m else None

    def term(e, env):
        e = strip(e)
        k = e.get("k")
        lk = leaf_kind(facts, e, "s")
        if lk is not None:
            return _expand_vec(lk)
        if k == "Lit" and lit(e) is not None:
            return [("bytes", lit(e))]
        if k == "Bin" and e["op"] == "+":
            return term(e["a"], env) + term(e["b"], env)
        if k == "Bin" and e["op"] in ("*", "/"):
            return [("rep", tuple(x for x in term(e["a"], env) + term(e["b"], env) if x[0] in ("T", "lim")))]
        if k == "Index":
            return [("lim",)] if "limit" in (local_of(e["e"]) or (0, ""))[1] else [("rep", ())]
        if k == "Path":
            if e.get("res") == "local" and e["lid"] in env:
                return list(env[e["lid"]])
            return [("rep", ())]     # a runtime quantity
        if k == "Try":
            return term(e["e"], env)
        if k in ("Call", "MCall") and _helper(facts, e) is not None and depth < 3:
            hb = _helper(facts, e)
            if _SCHEME[0] not in (None, "-"):
                hb = project.project(facts, hb, _SCHEME[0])
            return size_grammar(facts, hb, depth + 1)
        if k == "MCall":
            name = e.get("name")
            if name == "fold" and len(e["args"]) == 2 and strip(e["args"][1]).get("k") == "Closure":
                cl = strip(e["args"][1])
                env2 = dict(env)
                if cl.get("params") and cl["params"][0].get("k") == "PBind":
                    env2[cl["params"][0]["lid"]] = []          # the accumulator contributes what the body adds to it
                inner = value(cl["body"], env2)
                return term(e["args"][0], env) + ([("rep", tuple(inner))] if inner else [("rep", ())])
            inner = []
            for a in [e["recv"]] + e["args"]:
                inner += [x for x in term(a, env) if x[0] != "rep" or x[1]]
            if name in ("sum", "map", "iter", "zip", "fold"):
                return [("rep", tuple(inner))] if inner else [("rep", ())]
            return inner or [("rep", ())]
        if k == "Call":
            return [("rep", ())]
        if k == "Closure":
            return [("rep", tuple(value(e["body"], dict(env))))]
        if k in ("Block", "If", "Match"):
            return value(e, env)
        if k == "Cast":
            return term(e["e"], env)
        return [("rep", ())]

    def suffix(new, old):
        return tuple(new[len(old):]) if new[:len(old)] == old else tuple(new)

    def merge(env, envs, guard):
        """join branch environments: a local extended differently by the branches gets an Alt of the extensions"""
        for lid in set().union(*[set(x) for x in envs]):
            old = env.get(lid, [])
            sufs = [suffix(x.get(lid, old), old) for x in envs]
            if all(sf == sufs[0] for sf in sufs):
                env[lid] = old + list(sufs[0]) if all(x.get(lid, old)[:len(old)] == old for x in envs) else list(envs[0].get(lid, old))
            elif any(sufs):
                env[lid] = old + [("alt", guard, tuple(sufs))]

    def exec_(e, env):
        e = strip(e)
        k = e.get("k")
        if k == "AssignOp" and e.get("op", "").startswith("+"):
            lo = local_of(e["lhs"])
            if lo:
                env[lo[0]] = env.get(lo[0], []) + term(e["rhs"], env)
        elif k == "Assign":
            lo = local_of(e["lhs"])
            if lo:
                env[lo[0]] = term(e["rhs"], env)
        elif k == "If":
            et, ee = dict(env), dict(env)
            value(e["th"], et)
            if e.get("el"):
                value(e["el"], ee)
            merge(env, [et, ee], guard_names(e["c"]))
        elif k == "Match":
            envs = []
            for a in e["arms"]:
                ea = dict(env)
                value(a["body"], ea)
                envs.append(ea)
            merge(env, envs, guard_names(e["e"]))
        elif k in ("For", "While", "Loop"):
            eb = dict(env)
            value(e["body"], eb)
            for lid in eb:
                old = env.get(lid, [])
                sf = suffix(eb[lid], old)
                if sf and lid in env:
                    env[lid] = old + [("rep", sf)]
        elif k == "Block":
            value(e, env)

    def value(b, env):
        """evaluate a block (or expression) in env; -> items of its value"""
        b = strip(b)
        k = b.get("k")
        if k == "Block":
            for st in b.get("stmts", []):
                if st.get("k") == "Let":
                    if st["pat"].get("k") == "PBind" and "init" in st:
                        env[st["pat"]["lid"]] = term(st["init"], env)
                else:
                    exec_(st.get("e") or {}, env)
            if b.get("expr"):
                return value(b["expr"], env)
            return []
        if k == "If" and b.get("el") and facts.ty(b) not in ("()", "!"):
            th = tuple(value(b["th"], dict(env)))
            el = tuple(value(b["el"], dict(env)))
            return list(th) if th == el else [("alt", guard_names(b["c"]), (th, el))]
        if k == "Match" and facts.ty(b) not in ("()", "!"):
            arms = [tuple(value(a["body"], dict(env))) for a in b["arms"] if facts.ty(a["body"]) != "!"]
            if arms and all(x == arms[0] for x in arms):
                return list(arms[0])
            return [("alt", guard_names(b["e"]), tuple(arms))]
        if k in ("If", "Match", "For", "While", "Loop", "AssignOp", "Assign"):
            exec_(b, env)
            return []
        if k == "Ret":
            return term(b["e"], env) if b.get("e") else []
        return term(b, env)

    items = value(node, {})
    # drop empty runtime placeholders that carry no information next to real items
    return [x for x in items if not (x[0] == "rep" and not x[1])] or items


def _helper(facts, e):
    """body of a crate-local helper function that is not itself one side of a serialization triple"""
    f = callee(e)
    if not f or not f.get("local") or f.get("trait"):
        return None
    d = f.get("inst") if f.get("inst") in facts.hir else f["def"]
    it = facts.items.get(d)
    if d not in facts.hir or it is None or it.get("impl_trait") or d in _members(facts):
        return None
    return facts.hir[d]


_MEMBERS = {}


def _members(facts):
    key = id(facts)
    if key not in _MEMBERS:
        m = set()
        for g in triples(facts).values():
            m.update(g.values())
        _MEMBERS.clear()
        _MEMBERS[key] = m
    return _MEMBERS[key]


def triples(facts):
    """All (label, writer, reader, size) groups."""
    groups = {}
    for p, it in facts.items.items():
        nm = it["name"]
        if it.get("impl_trait") and nm in ("serialize", "deserialize", "serialized_size"):
            names = set()
            key = ("trait", it["impl_trait"], it.get("impl_self"))
            groups.setdefault(key, {})[{"serialize": "w", "deserialize": "r", "serialized_size": "s"}[nm]] = p
        elif "impl_trait" not in it and it.get("impl_self"):
            m = re.match(r"^(serialize|deserialize|serialized)_(\w+?)(_size)?$", nm)
            if m and (m.group(1) != "serialized" or m.group(3)):
                key = ("inherent", it["impl_self"], m.group(2))
                groups.setdefault(key, {})[{"serialize": "w", "deserialize": "r", "serialized": "s"}[m.group(1)]] = p
    return {k: v for k, v in groups.items() if "w" in v and "r" in v}


def run(facts, rep):
    rep.rule("R-WIRE(rw)", "per scheme projection, the writer's and the reader's wire grammars are equal as trees")
    rep.rule("R-WIRE(size)", "the fixed byte count of the size function equals the writer's, per conditional branch, and a "
             "variable term exists wherever the writer loops")
    rep.rule("R-WIRE(seed)", "a reader that can meet a seed-compressed object expands the seed before returning")
    groups = triples(facts)
    n = 0
    for key in sorted(groups, key=repr):
        g = groups[key]
        label = "%s::%s" % (key[2] if key[0] == "trait" else key[1], key[1].rsplit("::", 1)[-1] if key[0] == "trait" else key[2])
        uses_scheme = any("SchemeType" in facts.ty(x["e"]) for p in g.values() for x in walk(facts.hir[p])
                          if x.get("k") == "Match")
        schemes = SCHEMES if uses_scheme else ("-",)
        for sc in schemes:
            n += 1
            for p in g.values():
                rep.fn(p)

            _SCHEME[0] = sc

            def body(p):
                return project.project(facts, facts.hir[p], sc) if sc != "-" else facts.hir[p]
            gw = grammar(facts, body(g["w"]), "w")
            gr = grammar(facts, body(g["r"]), "r")
            sw, sr = shape(gw), shape(gr)
            k = "%s/%s" % (label, sc)
            if sw == sr:
                rep.ok("R-WIRE(rw)", k, "writer == reader: %s" % (show(gw) or "(delegates)"), facts.loc(g["w"]),
                       nontrivial=bool(gw), sample={"triple": label, "scheme": sc, "grammar": show(gw)})
            else:
                rep.violation("R-WIRE(rw)", k, "the writer emits  %s  but the reader consumes  %s : the reader does not "
                              "read back what the writer wrote (no round trip, following objects in the stream are lost)" %
                              (show(gw) or "nothing", show(gr) or "nothing"), facts.loc(g["r"]))
            if "s" in g:
                gs = size_grammar(facts, body(g["s"]))
                fw, fs = fixed_bytes(gw), fixed_bytes(gs)
                if fw[1] or fs[1]:
                    # leaves of composite type: compare as multisets of type names instead of widths
                    cw = sorted(x[1] for x in gw if x[0] == "T" and x[1] not in WIDTH)
                    cs = sorted(x[1] for x in gs if x[0] == "T" and x[1] not in WIDTH)
                    if cw == cs and fw[0] == fs[0] and _alts_eq(fw[2], fs[2]):
                        rep.ok("R-WIRE(size)", k, "size sums the same components as the writer emits: %s" % ", ".join(cw),
                               facts.loc(g["s"]))
                    elif not gs:
                        rep.unresolved("R-WIRE(size)", k, "size function is a closed form / delegation not modelled", facts.loc(g["s"]))
                    else:
                        rep.unresolved("R-WIRE(size)", k, "composite components differ in form: writer {%s} size {%s}" %
                                       (", ".join(cw), ", ".join(cs)), facts.loc(g["s"]))
                elif fw[0] == fs[0] and _alts_eq(fw[2], fs[2]) and (fw[3] == fs[3] or not fw[3]):
                    rep.ok("R-WIRE(size)", k, "fixed part %d byte(s) and conditional parts agree with the writer%s" %
                           (fw[0], "; variable term present" if fs[3] else ""), facts.loc(g["s"]),
                           sample={"triple": label, "scheme": sc, "fixed_bytes": fw[0], "size_grammar": show(gs)})
                elif fw[0] != fs[0] and any(x_[0] == "raw" for x_ in gw):
                    rep.unresolved("R-WIRE(size)", k, "the writer emits a byte block whose length is not a literal (e.g. a const-generic "
                                   "array): its fixed byte count is not known to the rule", facts.loc(g["s"]))
                elif fw[0] != fs[0]:
                    rep.violation("R-WIRE(size)", k, "the size function announces %d fixed byte(s) but the writer emits %d "
                                  "(writer: %s ; size: %s): announced size != bytes written" %
                                  (fs[0], fw[0], show(gw), show(gs)), facts.loc(g["s"]))
                elif fw[3] and not fs[3]:
                    rep.violation("R-WIRE(size)", k, "the writer loops over data but the size function has no variable term",
                                  facts.loc(g["s"]))
                else:
                    rep.violation("R-WIRE(size)", k, "conditional parts of the size function disagree with the writer "
                                  "(writer: %s ; size: %s)" % (show(gw), show(gs)), facts.loc(g["s"]))
            # seed expansion on read
            rb = facts.inlined(g["r"])
            reads_seed = any((callee(x) or {}).get("name") == "contains_seed" for x in walk(rb))
            writes_seed = any((callee(x) or {}).get("name") == "contains_seed" for x in walk(facts.hir[g["w"]]))
            if writes_seed and sc in ("-", "BFV"):
                exp = any((callee(x) or {}).get("name") == "expand_seed" for x in walk(rb))
                if reads_seed and exp:
                    rep.ok("R-WIRE(seed)", label, "reader expands the seed of a seed-compressed object", facts.loc(g["r"]))
                else:
                    rep.violation("R-WIRE(seed)", label, "the writer can emit a seed-compressed object but the reader returns "
                                  "without expanding the seed", facts.loc(g["r"]))
    return n, len(groups)


def _alts_eq(a, b):
    if len(a) != len(b):
        return False
    for x, y in zip(a, b):
        if len(x) != len(y):
            return False
        for p, q in zip(x, y):
            if p[0] != q[0] or not _alts_eq(p[2], q[2]):
                return False
    return True


def run_use(facts, rep):
    """R-WIRE(use) [N]: every value a reader takes off the stream unconditionally (`let x = T::deserialize(stream)?`) is
    used on every path that returns an object.  A field that is written, read back and then dropped on some path is lost
    in the round trip on that path although writer, reader and size function agree on the bytes."""
    from flow import Flow
    R = "R-WIRE(use)"
    rep.rule(R, "every value read from the stream by a `let` is used on every path of the reader that returns Ok")
    n = 0
    for key in sorted(triples(facts), key=repr):
        g = triples(facts)[key]
        p = g["r"]
        body = facts.inlined(p, pred=facts.extracted_helper)
        reads = {}
        for x in walk(body):
            if x.get("k") == "Let" and x["pat"].get("k") == "PBind" and "init" in x and not x["pat"]["name"].startswith("_"):
                i0 = strip(x["init"])
                while i0.get("k") == "Try":
                    i0 = strip(i0["e"])
                if leaf_kind(facts, i0, "r") is not None:
                    reads[x["pat"]["lid"]] = x
        if not reads:
            continue
        n += 1
        rep.fn(p)

        def transfer(nd, st):
            k = nd.get("k")
            if k == "Let" and nd["pat"].get("k") == "PBind" and nd["pat"]["lid"] in reads:
                return st | frozenset([nd["pat"]["lid"]])
            if k == "Path" and nd.get("res") == "local" and nd.get("lid") in st:
                return st - frozenset([nd["lid"]])
            if k == "Call" and nd.get("ctor", "").endswith("::Err"):
                return frozenset()          # a refusing path owes nothing
            return st

        fl = Flow(facts, lambda a, b: a | b, transfer, closure_mode="run")      # combinator closures run on the Ok path
        fl.run(body, frozenset())
        left = set()
        for st, node in fl.rets:
            left |= set(st)
        label = "%s::%s" % (key[2] if key[0] == "trait" else key[1], key[1].rsplit("::", 1)[-1] if key[0] == "trait" else key[2])
        if left:
            for lid in sorted(left):
                x = reads[lid]
                rep.violation(R, "%s/%s" % (label, x["pat"]["name"]), "the reader takes `%s` off the stream (line %s) but on some path "
                              "that returns an object it is never used: the field the writer emitted is dropped on that path, so "
                              "the restored object differs from the original" % (x["pat"]["name"], x.get("l")), facts.loc(p, x))
        else:
            rep.ok(R, label, "all %d value(s) read by `let` are used on every returning path" % len(reads), facts.loc(p),
                   sample={"reader": p, "values": sorted(x["pat"]["name"] for x in reads.values())})
    return n


# ------------------------------------------------------------------------------------------------------------------
def _sig(facts, defs, e, depth=0):
    """name-free structural signature of an expression with single-definition locals expanded"""
    from facts import strip as _strip, local_of as _lo
    if not isinstance(e, dict) or depth > 14:
        return "?"
    e = _strip(e)
    k = e.get("k")
    if k == "Path":
        if e.get("res") == "local":
            ds = defs.defs.get(e["lid"], [])
            if len(ds) == 1 and ds[0] is not e:
                return _sig(facts, defs, ds[0], depth + 1)
            return "$"
        return (e.get("def") or e.get("path") or "?").rsplit("::", 1)[-1]
    if k == "Lit":
        return str(e.get("v", "")).split("_")[0]
    if k in ("Call", "MCall"):
        f = callee(e) or {}
        nm = f.get("name") or e.get("name") or "?"
        args = ([e["recv"]] if k == "MCall" else []) + e.get("args", [])
        return "%s(%s)" % (nm, ",".join(_sig(facts, defs, a, depth + 1) for a in args))
    if k == "Closure":
        return "|%s|" % _sig(facts, defs, e.get("body"), depth + 1)
    if k == "Block":
        return _sig(facts, defs, e.get("expr"), depth + 1) if e.get("expr") is not None else "{}"
    if k == "Index":
        return "%s[]" % _sig(facts, defs, e["e"], depth + 1)
    if k == "Field":
        return "%s.%s" % (_sig(facts, defs, e["e"], depth + 1), e.get("name"))
    if k == "Bin":
        return "(%s%s%s)" % (_sig(facts, defs, e["a"], depth + 1), e.get("op"), _sig(facts, defs, e["b"], depth + 1))
    if k == "Cast":
        return _sig(facts, defs, e["e"], depth + 1)
    if k == "Un":
        return "%s%s" % (e.get("op"), _sig(facts, defs, e["e"], depth + 1))
    return k or "?"


def _width_args(facts, p):
    """signatures of the quantities whose byte width (`get_u64_limit(Q)`) the function uses"""
    from facts import Defs as _Defs
    body = facts.inlined(p) if hasattr(facts, "inlined") else facts.hir[p]      # width helpers are read in place
    defs = _Defs(body)
    out = []
    for x in walk(body):
        if x.get("k") == "Call" and (callee(x) or {}).get("name") == "get_u64_limit" and x.get("args"):
            out.append((_sig(facts, defs, x["args"][0]), x))
        elif x.get("k") == "Inl" and x.get("name") == "get_u64_limit" and (x.get("orig") or {}).get("args"):
            out.append((_sig(facts, defs, x["orig"]["args"][0]), x))
    return out


def run_width(facts, rep):
    """R-WIRE(width) [N]: writer, reader and size function of one object take the byte width of limited-width words from the SAME
    quantity.  `get_u64_limit(Q)` is the number of bytes needed for values up to Q; each member of a (serialize, deserialize,
    serialized_size) group that packs limited-width words calls it.  The name-free signatures of Q (locals expanded, closures
    by their body) must coincide as sets across the members.  If one member wraps the quantity in extra arithmetic
    (`Q - 1`, `Q >> 1`, ...) the widths differ for the values of Q where the wrapped quantity needs one byte less (t a power of
    256): bytes written != bytes consumed, the object and everything after it in the stream are misread."""
    R = "R-WIRE(width)"
    rep.rule(R, "the members of each (writer, reader, size) group take get_u64_limit of the same quantities")
    n = 0
    for key, g in sorted(triples(facts).items(), key=repr):
        label = "%s::%s" % (key[2] if key[0] == "trait" else key[1], key[1].rsplit("::", 1)[-1] if key[0] == "trait" else key[2])
        sigs = {role: _width_args(facts, p) for role, p in g.items()}
        if not any(sigs.values()):
            continue
        n += 1
        for p in g.values():
            rep.fn(p)
        sets = {role: {s for s, _ in v} for role, v in sigs.items() if v}
        k = "%s/width" % label
        if len(sets) < 2:
            rep.unresolved(R, k, "only one member of the group computes a width here (the others delegate)", facts.loc(g["w"]))
            continue
        ref_role = "w" if "w" in sets else sorted(sets)[0]
        ref = sets[ref_role]
        bad = None
        diff_any = False
        for role, s in sets.items():
            if s == ref:
                continue
            diff_any = True
            for a in s - ref:
                for b in ref - s:
                    # one is the other wrapped in arithmetic?
                    if (b in a and a != b) or (a in b and a != b):
                        bad = (role, a, b)
        if not diff_any:
            rep.ok(R, k, "all members take the width of: %s" % "; ".join(sorted(ref)), facts.loc(g["w"]),
                   sample={"group": label, "quantities": sorted(ref)})
        elif bad:
            names = {"w": "writer", "r": "reader", "s": "size function"}
            node = [x for s_, x in sigs[bad[0]] if s_ == bad[1]][0]
            rep.violation(R, k, "the %s takes the byte width of `%s` while the %s takes it of `%s`: for the values where these need a "
                          "different number of bytes (a modulus that is a power of 256) bytes written != bytes announced / consumed, "
                          "and the object and everything after it in the stream are misread" %
                          (names.get(bad[0], bad[0]), bad[1], names.get(ref_role, ref_role), bad[2]), facts.loc(g[bad[0]], node))
        else:
            rep.unresolved(R, k, "the members compute widths from differently written quantities: %s" %
                           "; ".join("%s: %s" % (r_, sorted(s_)) for r_, s_ in sorted(sets.items())), facts.loc(g["w"]))
    rep.floor(R, "groups packing limited-width words", n, 1)
    return n
