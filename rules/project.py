"""Scheme projection: specialise function bodies for one SchemeType variant (BFV / CKKS / BGV).

`match` expressions whose scrutinee has type SchemeType keep only the arm taken for the variant (first
matching arm, wildcard as fallback); `if` conditions that compare a SchemeType value with a variant
constant (==, !=, matches!, is_ckks()/is_bfv()/is_bgv(), combined with && / || / !) are partially
evaluated and the dead branch is removed.  Everything else is shared with the original tree.  Rules
that speak about "the CKKS path" (scale guards, scale bookkeeping) or compare writer/reader per scheme
run on the projection, so their "on every path" quantifier ranges over exactly the paths of that scheme.
"""
SCHEME_TY = "encryption_parameters::SchemeType"
VARIANTS = ("BFV", "CKKS", "BGV")


class _Lazy(dict):
    def __init__(self, base, fn):
        super().__init__()
        self.base = base
        self.fn = fn

    def get(self, k, default=None):
        if dict.__contains__(self, k):
            return dict.__getitem__(self, k)
        if k not in self.base:
            return default
        v = self.fn(self.base[k])
        self[k] = v
        return v

    def __getitem__(self, k):
        v = self.get(k)
        if v is None:
            raise KeyError(k)
        return v

    def __contains__(self, k):
        return k in self.base

    def keys(self):
        return self.base.keys()

    def __iter__(self):
        return iter(self.base)

    def items(self):
        for k in self.base:
            yield k, self.get(k)


class ProjFacts:
    """Facts proxy whose HIR bodies are projected on `scheme`."""

    def __init__(self, facts, scheme):
        self._f = facts
        self.scheme = scheme
        self.hir = _Lazy(facts.hir, lambda b: project(facts, b, scheme))
        self._cg = None
        self.n_projected = 0

    def __getattr__(self, name):
        return getattr(self._f, name)


def _variant_of_path(n):
    if not isinstance(n, dict):
        return None
    d = n.get("def") or n.get("path") or ""
    for v in VARIANTS + ("None",):
        if d.endswith("SchemeType::" + v):
            return v
    return None


def _pat_matches(pat, scheme):
    k = pat.get("k")
    if k == "PPath":
        v = _variant_of_path(pat)
        return v == scheme if v else None
    if k == "POr":
        rs = [_pat_matches(p, scheme) for p in pat["ps"]]
        if any(r is True for r in rs):
            return True
        if all(r is False for r in rs):
            return False
        return None
    if k in ("PWild", "PBind"):
        return True
    if k == "PRef":
        return _pat_matches(pat["sub"], scheme)
    return None


def eval_cond(facts, c, scheme, known=None):
    """Tri-valued partial evaluation of a condition under `scheme`: True / False / None.  `known` maps immutable bool
    locals to the value their initialiser has under the scheme (`let ntt_form = cd.is_bgv() || cd.is_ckks();`)."""
    k = c.get("k")
    if known and k == "Path" and c.get("res") == "local" and c.get("lid") in known:
        return known[c["lid"]]
    if known and k in ("Ref",) or (known and k == "Un" and c.get("op") == "*"):
        return eval_cond(facts, c["e"], scheme, known)
    if k == "Bin":
        op = c["op"]
        if op in ("==", "!="):
            a, b = c["a"], c["b"]
            va, vb = _variant_of_path(_strip(a)), _variant_of_path(_strip(b))
            other = None
            if va and facts.ty(b).lstrip("&") == SCHEME_TY:
                other = va
            elif vb and facts.ty(a).lstrip("&") == SCHEME_TY:
                other = vb
            if other:
                r = (other == scheme)
                return r if op == "==" else (not r)
            return None
        if op == "&&":
            x, y = eval_cond(facts, c["a"], scheme, known), eval_cond(facts, c["b"], scheme, known)
            if x is False or y is False:
                return False
            if x is True and y is True:
                return True
            return None
        if op == "||":
            x, y = eval_cond(facts, c["a"], scheme, known), eval_cond(facts, c["b"], scheme, known)
            if x is True or y is True:
                return True
            if x is False and y is False:
                return False
            return None
        return None
    if k == "Un" and c.get("op") == "!":
        x = eval_cond(facts, c["e"], scheme, known)
        return None if x is None else (not x)
    if k == "MCall" and c.get("name") in ("is_ckks", "is_bfv", "is_bgv") and not c["args"]:
        return c["name"] == "is_" + scheme.lower()
    if k == "Match" and facts.ty(c["e"]).lstrip("&") == SCHEME_TY:
        # matches!(scheme, A | B) expands to match { pats => true, _ => false }
        for arm in c["arms"]:
            m = _pat_matches(arm["pat"], scheme)
            if m is None:
                return None
            if m:
                b = _strip(arm["body"])
                if b.get("k") == "Lit":
                    return b.get("v") == "true"
                return None
        return None
    if k == "Block" and not c.get("stmts") and c.get("expr"):
        return eval_cond(facts, c["expr"], scheme, known)
    return None


def _strip(n):
    while isinstance(n, dict) and (n.get("k") == "Ref" or (n.get("k") == "Un" and n.get("op") == "*") or
                                   (n.get("k") == "Block" and not n.get("stmts") and n.get("expr"))):
        n = n["e"] if n.get("k") != "Block" else n["expr"]
    return n


def _bool_lets(facts, n, scheme):
    """immutable bool locals whose initialiser is decided by the scheme"""
    lets = []
    work = [n]
    while work:
        x = work.pop()
        if isinstance(x, list):
            work.extend(x)
        elif isinstance(x, dict):
            if x.get("k") == "Let" and "init" in x and x.get("pat", {}).get("k") == "PBind" and not x["pat"].get("mut") and \
                    facts.ty(x["pat"]) == "bool":
                lets.append(x)
            for key, v in x.items():
                if isinstance(v, (dict, list)) and key != "f":
                    work.append(v)
    known = {}
    for _ in range(3):
        for x in lets:
            if x["pat"]["lid"] not in known:
                v = eval_cond(facts, x["init"], scheme, known)
                if v is not None:
                    known[x["pat"]["lid"]] = v
    return known


def project(facts, n, scheme, known=None):
    if known is None:
        known = _bool_lets(facts, n, scheme) or {}
    if isinstance(n, list):
        out = [project(facts, x, scheme, known) for x in n]
        if all(a is b for a, b in zip(out, n)):
            return n
        return out
    if not isinstance(n, dict):
        return n
    k = n.get("k")
    if k == "Match" and facts.ty(n["e"]).lstrip("&") == SCHEME_TY:
        guarded = []          # matching arms that carry an `if` guard, in order: they become an if / else-if chain
        for arm in n["arms"]:
            m = _pat_matches(arm["pat"], scheme)
            if m is None:
                break
            if m and arm.get("guard"):
                guarded.append(arm)
                continue
            if m and not arm.get("guard"):
                body = project(facts, arm["body"], scheme, known)
                for g in reversed(guarded):
                    body = {"k": "If", "t": n.get("t"), "l": g.get("l", n.get("l")), "c": project(facts, g["guard"], scheme, known),
                            "th": project(facts, g["body"], scheme, known), "el": body}
                scrut = project(facts, n["e"], scheme, known)
                return {"k": "Block", "t": n.get("t"), "l": n.get("l"), "id": n.get("id"),
                        "stmts": [{"k": "Semi", "e": scrut}], "expr": body, "projected": scheme}
    if k == "If":
        r = eval_cond(facts, n["c"], scheme, known)
        if r is True:
            th = project(facts, n["th"], scheme, known)
            return {"k": "Block", "t": n.get("t"), "l": n.get("l"), "id": n.get("id"),
                    "stmts": [{"k": "Semi", "e": project(facts, n["c"], scheme, known)}], "expr": th, "projected": scheme}
        if r is False:
            el = project(facts, n["el"], scheme, known) if n.get("el") else None
            return {"k": "Block", "t": n.get("t") if el is not None else n.get("t"), "l": n.get("l"), "id": n.get("id"),
                    "stmts": [{"k": "Semi", "e": project(facts, n["c"], scheme, known)}], "expr": el, "projected": scheme}
    changed = False
    out = {}
    for key, v in n.items():
        if isinstance(v, (dict, list)) and key not in ("f",):
            nv = project(facts, v, scheme, known)
            if nv is not v:
                changed = True
            out[key] = nv
        else:
            out[key] = v
    return out if changed else n
