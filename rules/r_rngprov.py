"""R-RNGPROV — random-source provenance and sampler well-formedness (C16; common-tape rows for C18).

Generator kinds (forward dataflow over locals of type BlakeRNG / &mut BlakeRNG):
   entropy   created in this function from HeContext::create_random_generator / BlakeRNGFactory::get_rng*
   seeded    BlakeRNG::from_seed(x)   (x = a seed that is, or is filled from, something else)
   tape      Participant::borrow_common_rng / the common_rng field
   param     a `&mut BlakeRNG` parameter (caller-supplied)
Sinks: secret = sample::ternary, sample::centered_binomial, sample_noise, ShareSampler::sample;
       public = sample::uniform, fill_bytes into a seed that is stored / expanded.

Mandated rows [N]:
 (fresh)   the entropy source is real: the factory's entropy branch draws from OS entropy, HeContext builds
           its factory with BlakeRNGFactory::new(), from_seed/set_seed of the factory have no library caller,
           no BlakeRNG is cached in a field of HeContext / KeyGenerator / Encryptor / Decryptor or in a static,
           and the no-generator entry points (encrypt_zero::symmetric / asymmetric, KeyGenerator::generate_sk)
           hand an entropy generator created inside the call to the worker;
 (mask)    with an explicit generator, the stored seed and the mask c1 derive from that generator only: every
           fill of the seed that feeds BlakeRNG::from_seed -> uniform(.., poly(1)) has the parameter generator
           as receiver;
 (tape)    in the multiparty layer every public polynomial (sample::uniform, the u of the collective public
           key) is drawn from the common tape;
 (pure)    nothing nondeterministic is reachable from BlakeRNG's RngCore impl (the stream is a function of the
           seed and the call sequence);
 (rns)     ternary / centered_binomial draw once per coefficient OUTSIDE the loop over RNS components, and
           every component store derives from that one draw; uniform draws inside, bounded by the component's
           own modulus;
 (seedrt)  writer and expander address the stored seed identically (component (1,0), word offset 1,
           size_of::<PRNGSeed>() bytes) and both feed from_seed -> uniform over poly(1).
Advisory (never VIOLATION): a secret sink fed by a seeded or tape generator.
"""
from facts import walk, callee, target_key, root_local, strip, local_of, Defs, Tree
from flow import Flow

RNG_TY = "util::random_generator::BlakeRNG"
SECRET = {"ternary", "centered_binomial", "sample_noise"}
NONDET = ("rand::rngs::thread::thread_rng", "rand::thread_rng", "rand_core::SeedableRng::from_entropy", "std::time::",
          "rand::rngs::", "getrandom::", "std::thread::current", "std::process::id")


def kinds(facts, fpath):
    """lid -> kind for rng-typed locals of one function (flow-insensitive is enough: generators are bound once)."""
    body = facts.hir[fpath]
    it = facts.items[fpath]
    k = {}
    for p in it["params"]:
        if p["pat"].get("k") == "PBind" and RNG_TY in p.get("ty", ""):
            k[p["pat"]["lid"]] = ("param", p["pat"]["name"])
    changed = True
    lets = [x for x in walk(body) if x.get("k") == "Let" and x["pat"].get("k") == "PBind" and "init" in x]
    while changed:
        changed = False
        for x in lets:
            lid = x["pat"]["lid"]
            if lid in k:
                continue
            t = facts.strs[x["pat"]["t"]]
            if RNG_TY not in t and "BlakeRNG" not in t:
                continue
            kind = expr_kind(facts, x["init"], k)
            if kind:
                k[lid] = kind
                changed = True
    return k


def expr_kind(facts, e, k):
    for y in walk(e):
        f = callee(y)
        if f:
            if f["name"] in ("create_random_generator", "get_rng", "get_rng_rc"):
                return ("entropy", f["name"])
            if f["name"] == "from_seed" and "BlakeRNG" in (f.get("self") or f.get("def", "")):
                return ("seeded", y)
            if f["name"] == "borrow_common_rng":
                return ("tape", f["name"])
        if y.get("k") == "Field" and y.get("name") == "common_rng":
            return ("tape", "common_rng")
    lo = root_local(e)
    if lo and lo[0] in k:
        return k[lo[0]]
    return None


def rng_arg_kind(facts, call, k):
    args = ([call["recv"]] if call["k"] == "MCall" else []) + call["args"]
    for a in args:
        if "BlakeRNG" in facts.ty_adj(a) or "BlakeRNG" in facts.ty(a):
            kind = expr_kind(facts, a, k)
            return kind or ("unknown", None)
    return None


def run_c16(facts, rep):
    R = "R-RNGPROV"
    rep.rule(R + "(fresh)", "entropy source is real and never cached; no-generator entry points create their generator inside "
             "the call")
    rep.rule(R + "(mask)", "with an explicit generator the stored seed / mask derive from that generator only")
    rep.rule(R + "(pure)", "the generator's byte stream is a function of seed and call sequence only")
    rep.rule(R + "(rns)", "small samples are drawn once per coefficient, outside the loop over RNS components")
    rep.rule(R + "(seedrt)", "seed is stored and expanded at the same place with the same length, both feeding from_seed -> uniform")
    # ---- fresh
    g = "util::random_generator::BlakeRNGFactory::get_rng"
    if rep.anchor(R + "(fresh)", g, g in facts.hir):
        rep.fn(g)
        names = [(callee(y) or {}).get("name") for y in walk(facts.hir[g])]
        if "from_entropy" in names:
            rep.ok(R + "(fresh)", g, "the entropy branch of the factory draws a 64-byte seed from OS entropy", facts.loc(g))
        else:
            rep.violation(R + "(fresh)", g, "BlakeRNGFactory::get_rng no longer draws from entropy: every generator of a "
                          "context starts from the same seed", facts.loc(g))
    n = "util::random_generator::BlakeRNGFactory::new"
    if rep.anchor(R + "(fresh)", n, n in facts.hir):
        ok = any(x.get("k") == "Struct" and any(f["name"] == "use_random_seed" and strip(f["e"]).get("v") == "true"
                                                 for f in x["fields"]) for x in walk(facts.hir[n]))
        (rep.ok if ok else rep.violation)(R + "(fresh)", n, "BlakeRNGFactory::new sets use_random_seed = true" if ok else
                                          "BlakeRNGFactory::new no longer enables random seeding", facts.loc(n))
    cg = facts.callgraph()
    for bad in ("util::random_generator::BlakeRNGFactory::from_seed", "util::random_generator::BlakeRNGFactory::set_seed"):
        callers = [p for p, es in cg.items() if any(t == bad for t, _ in es)]
        if callers:
            rep.violation(R + "(fresh)", bad + "/callers", "%s is called from %s: the context's generators become "
                          "deterministic" % (bad, callers[0]), facts.loc(callers[0]))
        else:
            rep.ok(R + "(fresh)", bad + "/callers", "no library caller of %s" % bad.rsplit("::", 1)[1], nontrivial=False)
    hn = "context::HeContext::new"
    if rep.anchor(R + "(fresh)", hn, hn in facts.hir):
        rep.fn(hn)
        flds = [f for x in walk(facts.hir[hn]) if x.get("k") == "Struct" for f in x["fields"] if f["name"] == "random_generator_factory"]
        ok = bool(flds) and all((callee(strip(f["e"])) or {}).get("def", "").endswith("BlakeRNGFactory::new") for f in flds)
        (rep.ok if ok else rep.violation)(R + "(fresh)", hn + "/factory", "HeContext builds its generator factory with "
                                          "BlakeRNGFactory::new()" if ok else "HeContext no longer builds its factory with "
                                          "BlakeRNGFactory::new(): generators may be seeded deterministically", facts.loc(hn))
    cached = []
    for tp, t in facts.types.items():
        if tp.startswith("multiparty::") or tp.startswith("util::random_generator"):
            continue
        for v in t["variants"]:
            for f in v["fields"]:
                if "BlakeRNG" in f["ty"] and "Factory" not in f["ty"]:
                    cached.append((tp, f["name"], f["ty"]))
    for c in facts.consts.values():
        if "BlakeRNG" in c.get("ty", "") and "Static" in c.get("kind", ""):
            cached.append(("static", c["path"], c["ty"]))
    if cached:
        for tp, fn, ty in cached:
            rep.violation(R + "(fresh)", "cached/%s.%s" % (tp, fn), "a generator is cached in %s.%s (%s): successive encryptions / "
                          "key generations no longer draw from a fresh generator created inside the call" % (tp, fn, ty))
    else:
        rep.ok(R + "(fresh)", "cached", "no BlakeRNG is stored in a struct field or static outside the multiparty tape")
    n_sinks = 0
    for p in sorted(facts.hir):
        it = facts.items[p]
        if not (it["file"] in ("src/util/rlwe.rs", "src/key.rs", "src/encryptor.rs")):
            continue
        body = facts.hir[p]
        k = None
        for x in walk(body):
            f = callee(x)
            if not f or x.get("k") not in ("Call", "MCall"):
                continue
            if f["name"] in SECRET or f["name"] in ("symmetric_with_c1_prng", "asymmetric_with_u_prng"):
                if k is None:
                    k = kinds(facts, p)
                kind = rng_arg_kind(facts, x, k)
                if kind is None:
                    continue
                n_sinks += 1
                rep.fn(p)
                key = "%s/%s" % (p, f["name"])
                if kind[0] in ("entropy", "param"):
                    rep.ok(R + "(fresh)", key, "%s draws from a generator of kind `%s`" % (f["name"], kind[0]), facts.loc(p, x),
                           sample={"function": p, "sink": f["name"], "generator": kind[0]})
                elif kind[0] in ("seeded", "tape"):
                    rep.advisory(R + "(fresh)", key, "secret sampler %s is fed by a %s generator" % (f["name"], kind[0]),
                                 facts.loc(p, x))
                else:
                    rep.unresolved(R + "(fresh)", key, "generator provenance not resolved", facts.loc(p, x))
    rep.floor(R + "(fresh)", "secret-sampler / worker call sites", n_sinks, 8)
    # ---- mask
    w = "util::rlwe::encrypt_zero::symmetric_with_c1_prng"
    if rep.anchor(R + "(mask)", w, w in facts.hir):
        rep.fn(w)
        body = facts.hir[w]
        k = kinds(facts, w)
        defs = Defs(body, facts)
        # the generator feeding uniform(.., destination.poly_mut(1))
        ok_any = False
        for x in walk(body):
            f = callee(x)
            if f and f["name"] == "uniform":
                kind = rng_arg_kind(facts, x, k)
                if kind and kind[0] == "seeded":
                    seed_call = kind[1]
                    seed_lo = root_local(seed_call["args"][0]) if seed_call.get("args") else None
                    fills = [y for y in walk(body) if y.get("k") == "MCall" and y.get("name") == "fill_bytes" and
                             seed_lo and (root_local(y["args"][0]) or (None,))[0] == seed_lo[0]]
                    src_kinds = {(expr_kind(facts, y["recv"], k) or ("unknown",))[0] for y in fills}
                    if fills and src_kinds == {"param"}:
                        ok_any = True
                        rep.ok(R + "(mask)", w, "the stored seed is filled only from the caller's generator and c1 = "
                               "uniform(from_seed(seed))", facts.loc(w, x), sample={"seed_sources": sorted(src_kinds)})
                    else:
                        rep.violation(R + "(mask)", w, "the seed expanded into the mask c1 is filled from {%s}, not only from "
                                      "the caller-supplied generator: operations handed the same generator state no longer "
                                      "derive the same mask" % ", ".join(sorted(src_kinds)) , facts.loc(w, x))
                        ok_any = True
                elif kind and kind[0] != "seeded":
                    rep.violation(R + "(mask)", w, "the mask c1 is sampled from a `%s` generator instead of the generator "
                                  "seeded with the stored public seed: the seed no longer reproduces the mask" % kind[0],
                                  facts.loc(w, x))
                    ok_any = True
        if not ok_any:
            rep.violation(R + "(mask)", w, "no uniform sampling of the mask found", facts.loc(w))
    for ep, worker in (("util::rlwe::encrypt_zero::symmetric", "symmetric_with_c1_prng"),
                       ("util::rlwe::encrypt_zero::asymmetric", "asymmetric_with_u_prng")):
        if rep.anchor(R + "(fresh)", ep, ep in facts.hir):
            k = kinds(facts, ep)
            calls = [x for x in walk(facts.hir[ep]) if (callee(x) or {}).get("name") == worker]
            kd = rng_arg_kind(facts, calls[0], k) if calls else None
            if kd and kd[0] == "entropy":
                rep.ok(R + "(fresh)", ep + "/own-generator", "creates an entropy generator inside the call for %s" % worker,
                       facts.loc(ep))
            else:
                rep.violation(R + "(fresh)", ep + "/own-generator", "%s does not hand a freshly created entropy generator to %s "
                              "(kind: %s): masks of successive encryptions are related" % (ep, worker, kd and kd[0]), facts.loc(ep))
    # ---- pure
    roots = [p for p in facts.items if "BlakeRNG" in p and facts.items[p].get("impl_self", "").endswith("BlakeRNG")]
    reach = facts.reachable(roots)
    bad = []
    for q in reach:
        if "Factory" in q:
            continue
        for x in walk(facts.hir.get(q, {})):
            f = callee(x)
            if f and f["def"].startswith(NONDET):
                bad.append((q, f["def"], x))
    rep.floor(R + "(pure)", "BlakeRNG methods", len(roots), 5)
    if bad:
        rep.violation(R + "(pure)", "BlakeRNG", "%s calls %s: the byte stream is no longer a function of the seed alone" %
                      (bad[0][0], bad[0][1]), facts.loc(bad[0][0], bad[0][2]))
    else:
        rep.ok(R + "(pure)", "BlakeRNG", "no entropy/time source reachable from BlakeRNG's methods (%d functions)" % len(reach))
    rf = "util::random_generator::BlakeRNG::refill_buffer"
    if rep.anchor(R + "(pure)", rf, rf in facts.hir):
        reads = {x["name"] for x in walk(facts.hir[rf]) if x.get("k") == "Field" and not str(x["name"]).isdigit()}   # `seed.0`: a tuple
                                                                                              # field of the seed newtype
        if reads <= {"seed", "counter", "buffer", "buffer_current"} and {"seed", "counter"} <= reads:
            rep.ok(R + "(pure)", rf, "refill hashes (seed, counter) only", facts.loc(rf))
        else:
            rep.violation(R + "(pure)", rf, "refill_buffer reads {%s}: the block no longer depends on exactly (seed, counter)" %
                          ", ".join(sorted(reads)), facts.loc(rf))
    # ---- chunking independence of byte reads
    fb = [p for p in facts.items if p.endswith("::fill_bytes") and "BlakeRNG" in facts.items[p].get("impl_self", "")]
    rep.rule(R + "(chunk)", "fill_bytes consumes the block buffer contiguously: it refills only when the cursor has reached the "
             "end of the buffer (no unread bytes are discarded), copies from the cursor and advances it by the copied length")
    if rep.anchor(R + "(chunk)", "BlakeRNG::fill_bytes", bool(fb)):
        p = fb[0]
        rep.fn(p)
        body = facts.hir[p]
        tree = Tree(body)
        refills = [x for x in walk(body) if x.get("k") == "MCall" and x.get("name") == "refill_buffer"]
        bad = []
        unknown = []

        def is_cursor(e):
            e = strip(e)
            return e.get("k") == "Field" and e.get("name") == "buffer_current"

        def is_size(e):
            e = strip(e)
            return (e.get("k") == "Path" and "BUFFER_SIZE" in e.get("def", "")) or (e.get("k") == "MCall" and e.get("name") == "len")
        for r in refills:
            g = tree.enclosing(r, ("If",))
            verdict = "unknown"
            if g is not None:
                c = strip(g["c"])
                if c.get("k") == "Bin":
                    a, b, op = c["a"], c["b"], c.get("op")
                    if (is_cursor(a) and is_size(b) and op in (">=", "==")) or (is_size(a) and is_cursor(b) and op in ("<=", "==")):
                        verdict = "good"
                    else:
                        # cursor + something compared with the size: refills while unread bytes remain
                        for side, other, ops in ((a, b, (">", ">=")), (b, a, ("<", "<="))):
                            ss = strip(side)
                            if ss.get("k") == "Bin" and ss.get("op") == "+" and (is_cursor(ss["a"]) or is_cursor(ss["b"])) \
                                    and is_size(other) and op in ops:
                                verdict = "bad"
            if verdict == "bad":
                bad.append(r)
            elif verdict == "unknown":
                unknown.append(r)
        # the cursor's new value is the end of the source range just copied (symbolic: `cur += len`, `cur = cur + len`,
        # `cur = source_end` with source_end = cur + len are the same polynomial)
        from r_slotmod import Sym, padd, patom, pshow
        sym = Sym(facts, body)
        src_end = src_start = None
        for x in walk(body):
            if x.get("k") == "MCall" and x.get("name") == "copy_from_slice" and x["args"]:
                for y in walk(x["args"][0]):
                    if y.get("k") == "Index" and strip(y["e"]).get("k") == "Field" and strip(y["e"]).get("name") == "buffer":
                        r_ = strip(y["i"])
                        if r_.get("k") == "Struct":
                            d_ = {f["name"]: f["e"] for f in r_["fields"]}
                            src_start, src_end = sym.poly(d_.get("start")), sym.poly(d_.get("end"))
        adv = []
        adv_bad = None
        for x in walk(body):
            if x.get("k") in ("AssignOp", "Assign") and strip(x["lhs"]).get("k") == "Field" and \
                    strip(x["lhs"]).get("name") == "buffer_current":
                rhs = sym.poly(x["rhs"])
                cur = sym.poly(x["lhs"])
                if x["k"] == "AssignOp" and not x.get("op", "").startswith("+"):
                    continue
                new = (padd(cur, rhs) if x["k"] == "AssignOp" else rhs) if isinstance(rhs, dict) and isinstance(cur, dict) else None
                if isinstance(new, dict) and not new:
                    continue                         # reset to 0 on refill
                if isinstance(new, dict) and isinstance(src_end, dict) and isinstance(src_start, dict):
                    if not padd(new, src_end, -1) and not padd(src_start, cur, -1):
                        adv.append(x)
                    else:
                        adv_bad = (x, new)
                elif x["k"] == "AssignOp":
                    adv.append(x)
        if not refills:
            rep.violation(R + "(chunk)", "fill_bytes/refill", "fill_bytes never refills the buffer", facts.loc(p))
        elif bad:
            rep.violation(R + "(chunk)", "fill_bytes/refill", "fill_bytes refills (line %s) under a condition other than `cursor >= "
                          "BUFFER_SIZE`: unread bytes of the current block are discarded, so the byte stream depends on how "
                          "reads are chunked across a refill" % bad[0].get("l"), facts.loc(p, bad[0]))
        elif unknown:
            rep.unresolved(R + "(chunk)", "fill_bytes/refill", "refill condition at line %s is not one of the modelled forms" %
                           unknown[0].get("l"), facts.loc(p, unknown[0]))
        elif adv_bad is not None:
            rep.violation(R + "(chunk)", "fill_bytes/advance", "after copying buffer[%s..%s] fill_bytes sets the cursor to %s: bytes "
                          "are skipped or handed out twice" % (pshow(src_start), pshow(src_end), pshow(adv_bad[1])),
                          facts.loc(p, adv_bad[0]))
        elif not adv:
            rep.violation(R + "(chunk)", "fill_bytes/advance", "fill_bytes does not advance the cursor by the copied length", facts.loc(p))
        else:
            rep.ok(R + "(chunk)", "fill_bytes", "refill only at the end of the block; cursor advances by the copied length",
                   facts.loc(p), sample={"refill_sites": len(refills)})
    # ---- word draws at the refill boundary
    from r_slotmod import Sym as _Sym, padd as _padd, pconst as _pconst, patom as _patom, pshow as _pshow, atoms_of as _atoms
    for nm, W in (("next_u32", 4), ("next_u64", 8)):
        cands = [q for q in facts.hir if q.endswith("BlakeRNG as rand::RngCore>::" + nm) or q.endswith("BlakeRNG::" + nm)]
        if not cands:
            continue
        q = cands[0]
        rep.fn(q)
        b = facts.inlined(q)
        sy = _Sym(facts, b)
        found = None
        for x in walk(b):
            if x.get("k") == "If" and any(y.get("k") in ("MCall", "Inl") and y.get("name") == "refill_buffer" for y in walk(x["th"])):
                found = x
        key = "%s/refill" % nm
        if found is None:
            rep.unresolved(R + "(chunk)", key, "no refill branch found in %s" % nm, facts.loc(q))
            continue
        c = strip(found["c"])
        if not (c.get("k") == "Bin" and c.get("op") in (">", ">=", "<", "<=")):
            rep.unresolved(R + "(chunk)", key, "refill condition is not a comparison", facts.loc(q, found))
            continue
        def _p(e):
            r_ = sy.poly(e)
            e0 = strip(e)
            if r_ is None and e0.get("k") == "Path" and e0.get("res") != "local":
                return _patom((e0.get("def") or "const").rsplit("::", 1)[-1])
            return r_
        a_, b_ = _p(c["a"]), _p(c["b"])
        if c["op"] in ("<", "<="):
            a_, b_ = b_, a_
        strict = c["op"] in (">", "<")
        if not isinstance(a_, dict) or not isinstance(b_, dict):
            rep.unresolved(R + "(chunk)", key, "refill condition is not polynomial", facts.loc(q, found))
            continue
        d = _padd(a_, b_, -1)
        cur = [m for m in d if m and any("buffer_current" in t for t in m)]
        size = [m for m in d if m and any("BUFFER_SIZE" in t for t in m)]
        if len(cur) != 1 or d.get(cur[0]) != 1 or len(size) != 1 or d.get(size[0]) != -1 or \
                any(m not in (cur[0], size[0], ()) for m in d):
            rep.unresolved(R + "(chunk)", key, "refill condition %s is not `cursor + c > BUFFER_SIZE`" % _pshow(d), facts.loc(q, found))
            continue
        k0 = d.get((), 0)
        # refill iff cursor + k0 (>|>=) SIZE ; exact: refill iff cursor + W > SIZE  <=>  cursor + W - 1 >= SIZE
        eff = k0 if strict else k0 + 1            # refill iff cursor + eff > SIZE
        if eff == W:
            rep.ok(R + "(chunk)", key, "%s refills exactly when fewer than %d bytes are left in the block" % (nm, W), facts.loc(q, found),
                   sample={"function": q, "width": W})
        elif eff > W:
            rep.violation(R + "(chunk)", key, "%s refills when cursor + %d > BUFFER_SIZE, i.e. already when exactly %d byte(s) — a whole "
                          "word — are left: the last aligned word of every block is skipped by word draws but not by fill_bytes, so the "
                          "stream a sampler sees differs from the byte stream the seed defines" % (nm, eff, eff - 1), facts.loc(q, found))
        else:
            rep.violation(R + "(chunk)", key, "%s refills only when cursor + %d > BUFFER_SIZE: with %d byte(s) left it reads a %d-byte "
                          "word past the end of the block" % (nm, eff, W - 1, W), facts.loc(q, found))
    # ---- rns consistency
    for nm in ("ternary", "centered_binomial", "uniform"):
        p = "util::rlwe::sample::" + nm
        if not rep.anchor(R + "(rns)", p, p in facts.hir):
            continue
        rep.fn(p)
        body = facts.hir[p]
        tree = Tree(body)
        it = facts.items[p]
        rng_lid = [pp["pat"]["lid"] for pp in it["params"] if pp["pat"].get("k") == "PBind" and pp["pat"]["name"] in ("rng", "prng")]
        defs = Defs(body)
        draws = []
        for x in walk(body):
            if x.get("k") in ("Call", "MCall"):
                args = ([x["recv"]] if x["k"] == "MCall" else []) + x.get("args", [])
                if x.get("k") == "Call" and "fe" in x:
                    args = args + [x["fe"]]
                if any((root_local(a) or (None,))[0] in rng_lid for a in args):
                    if tree.enclosing(x, ("Closure",)) is None:
                        draws.append(x)
        def _space(f):
            return {y.get("name") for y in defs.closure(f["iter"]) if y.get("k") == "MCall"}
        # the loop over RNS components: its iteration space comes from coeff_modulus() (its length or its elements), not
        # from the ring degree
        comp_loops = [f for f in walk(body) if f.get("k") == "For" and "coeff_modulus" in _space(f)
                      and "poly_modulus_degree" not in _space(f)]
        inside = [d for d in draws if any(any(z is d for z in walk(f["body"])) for f in comp_loops) and
                  not any(any(z is d for z in walk(g["body"])) for g in walk(body) if g.get("k") == "For" and g not in comp_loops
                          and any(any(zz is g for zz in walk(f["body"])) for f in comp_loops))]
        key = nm
        if nm == "uniform":
            if draws and all(any(any(z is d for z in walk(f["body"])) for f in comp_loops) for d in draws):
                rep.ok(R + "(rns)", key, "uniform draws inside the component loop (one residue per component)", facts.loc(p))
            else:
                rep.violation(R + "(rns)", key, "uniform no longer draws a residue per RNS component", facts.loc(p))
        else:
            direct_inside = [d for d in draws if any(any(z is d for z in walk(f["body"])) for f in comp_loops)]
            if not draws:
                rep.violation(R + "(rns)", key, "%s draws nothing from its generator" % nm, facts.loc(p))
            elif direct_inside:
                rep.violation(R + "(rns)", key, "%s draws from the generator INSIDE the loop over RNS components (line %s): each "
                              "component gets a different small value, so the sample is not one signed integer in every "
                              "component" % (nm, direct_inside[0].get("l")), facts.loc(p, direct_inside[0]))
            else:
                rep.ok(R + "(rns)", key, "%s draws once per coefficient outside the component loop" % nm, facts.loc(p),
                       sample={"sampler": nm, "draw_sites": len(draws), "component_loops": len(comp_loops)})
    # ---- seed round trip
    rd = "text::<impl text::ExpandSeed for text::Ciphertext>::expand_seed"
    cands = [p for p in facts.hir if p.endswith("::expand_seed") and "Ciphertext" in p]
    if rep.anchor(R + "(seedrt)", "Ciphertext::expand_seed", bool(cands)) and w in facts.hir:
        rd = cands[0]
        rep.fn(rd)

        def seed_addr(body):
            out = []
            for x in walk(body):
                if x.get("k") == "MCall" and x.get("name") == "offset":
                    comp = [y for y in walk(x["recv"]) if y.get("k") == "MCall" and y.get("name", "").startswith("poly_component")]
                    if comp:
                        lits = [strip(a).get("v") for a in comp[0]["args"]]
                        out.append((tuple(lits), strip(x["args"][0]).get("v")))
            return out
        wb, rb = facts.inlined(w), facts.inlined(rd)         # `stored_seed()`-style helpers are read in place
        aw, ar = seed_addr(wb), seed_addr(rb)
        def uses_sizeof(body):
            return any((callee(y) or {}).get("name") == "size_of" and "PRNGSeed" in str((callee(y) or {}).get("targs")) for y in walk(body))
        if aw and aw == ar and uses_sizeof(wb) and uses_sizeof(rb):
            rep.ok(R + "(seedrt)", "address", "seed stored and read at component %s word offset %s, size_of::<PRNGSeed>() bytes" %
                   (aw[0][0], aw[0][1]), facts.loc(rd), sample={"writer": aw, "reader": ar})
        else:
            rep.violation(R + "(seedrt)", "address", "the seed is stored at %s but expanded from %s (or the lengths are not both "
                          "size_of::<PRNGSeed>()): a seed-compressed object expands to a different mask" % (aw, ar), facts.loc(rd))
        k = kinds(facts, rd)
        us = [x for x in walk(facts.hir[rd]) if (callee(x) or {}).get("name") == "uniform"]
        kd = rng_arg_kind(facts, us[0], k) if us else None
        if kd and kd[0] == "seeded":
            rep.ok(R + "(seedrt)", "expander", "expand_seed samples c1 with uniform(from_seed(stored seed))", facts.loc(rd))
        else:
            rep.violation(R + "(seedrt)", "expander", "expand_seed does not regenerate c1 from the stored seed", facts.loc(rd))


def _param_kind_from_callers(facts, p, pname, depth=0):
    """kind of the generator a private helper receives in parameter `pname`: the common kind over all its call sites"""
    if depth > 2:
        return None
    it = facts.items[p]
    idx = [j for j, q in enumerate(it["params"]) if q["pat"].get("k") == "PBind" and q["pat"]["name"] == pname]
    if not idx:
        return None
    found = []
    for caller in facts.callers_of(p):
        if caller not in facts.hir:
            continue
        kc = kinds(facts, caller)
        for x in walk(facts.hir[caller]):
            f = callee(x)
            if x.get("k") in ("Call", "MCall") and f and target_key(f) == p:
                args = ([x["recv"]] if x["k"] == "MCall" else []) + x["args"]
                if idx[0] < len(args):
                    kk = expr_kind(facts, args[idx[0]], kc)
                    if kk and kk[0] == "param" and facts.items[caller].get("vis") != "pub":
                        kk = _param_kind_from_callers(facts, caller, kk[1], depth + 1) or kk
                    found.append(kk[0] if kk else "unknown")
    if found and all(x == found[0] for x in found):
        return (found[0], "handed down by %d caller(s)" % len(found))
    return None


def run_noise(facts, rep):
    """(noise) in the RLWE encryption workers the error polynomial is drawn from an entropy generator created inside the
    call — never from a generator handed in by the caller (whose state the caller, or every party of a protocol, knows and
    may hand in again) nor from one expanded from the public seed."""
    R = "R-RNGPROV(noise)"
    rep.rule(R, "every centered_binomial draw of util::rlwe::encrypt_zero is fed by a generator created from the context's "
             "entropy factory inside the same function")
    n = 0
    for p in sorted(facts.hir):
        if not p.startswith("util::rlwe::encrypt_zero::"):
            continue
        k = kinds(facts, p)
        calls = [x for x in walk(facts.hir[p]) if x.get("k") in ("Call", "MCall") and (callee(x) or {}).get("name") == "centered_binomial"]
        for j, c in enumerate(calls):
            n += 1
            rep.fn(p)
            kind = rng_arg_kind(facts, c, k)
            if kind and kind[0] == "param" and facts.items[p].get("vis") != "pub":
                kind = _param_kind_from_callers(facts, p, kind[1]) or kind
            key = "%s/noise#%d" % (p, j)
            if kind and kind[0] == "entropy":
                rep.ok(R, key, "the error polynomial is drawn from a generator created from entropy in this call", facts.loc(p, c))
            elif kind and kind[0] in ("param", "seeded", "tape"):
                rep.violation(R, key, "the error polynomial is drawn from a %s generator (%s): two operations handed the same "
                              "generator state — or anyone who knows that state — share the error as well as the mask, so the "
                              "encryptions are not fresh (b1 - b2 + a(s1 - s2) = 0 reveals key differences)" %
                              (kind[0], kind[1] if isinstance(kind[1], str) else "expanded from the public seed"), facts.loc(p, c))
            else:
                rep.unresolved(R, key, "generator of the error draw not classified", facts.loc(p, c))
    rep.floor(R, "error draws in the encryption workers", n, 2)
    return n


def run_tape(facts, rep):
    R = "R-RNGPROV(tape)"
    rep.rule(R, "in the multiparty layer every public polynomial (sample::uniform, the u of the collective public key) is "
             "drawn from the common tape; advisory: secrets/noise from the tape")
    n = 0
    for p in sorted(facts.hir):
        if not p.startswith("multiparty::participant::"):
            continue
        body = facts.hir[p]
        k = None
        for x in walk(body):
            f = callee(x)
            if not f or x.get("k") not in ("Call", "MCall"):
                continue
            if f["name"] in ("uniform", "create_public_key_with_u_prng") or f["name"] in SECRET:
                if k is None:
                    k = kinds(facts, p)
                kind = rng_arg_kind(facts, x, k)
                if kind is None:
                    continue
                n += 1
                rep.fn(p)
                key = "%s/%s" % (p, f["name"])
                if f["name"] in ("uniform", "create_public_key_with_u_prng"):
                    if kind[0] == "tape":
                        rep.ok(R, key, "public polynomial drawn from the common tape", facts.loc(p, x),
                               sample={"function": p, "sink": f["name"]})
                    elif kind[0] == "unknown":
                        rep.unresolved(R, key, "generator provenance not resolved", facts.loc(p, x))
                    else:
                        rep.violation(R, key, "%s draws a PUBLIC polynomial from a `%s` generator instead of the common tape: "
                                      "the parties derive different public polynomials, hence different collective keys" %
                                      (p, kind[0]), facts.loc(p, x))
                else:
                    if kind[0] == "tape":
                        rep.advisory(R, key, "secret/noise sampler fed by the common tape", facts.loc(p, x))
                    else:
                        rep.ok(R, key, "secret/noise drawn from a `%s` generator" % kind[0], facts.loc(p, x), nontrivial=False)
    return n
