"""R-IOERR — I/O error discipline of the (de)serialization call tree (property C15).

Scope S0: every local function whose return type carries std::io::Error (the 100+ serialize /
deserialize functions and their helpers are discovered by type, not by name), closed under local
callees for the unwrap rule.

(a) no call to Write::write / Read::read (short-count primitives) unless inside a retry loop or
    its count is compared; write_all / read_exact are the accepted forms.                     [N]
(b) no unwrap/expect on a Result<_, io::Error>.                                              [N]
(c) every expression of type io::Result is consumed by `?`, return, tail position, or a match
    that propagates the Err; never dropped, `let _ =`, `.ok()`, `.is_ok()` etc.               [N]
(d) inventory of remaining panic sites in the deserialize tree (informational; with (b),(c) a
    truncated valid stream follows a prefix of the valid run and then takes the Err return).
"""
import re
from facts import Tree, walk, callee, target_key

IOERR = "std::io::Error"
SHORT_PRIMS = {"std::io::Write::write": "write_all", "std::io::Read::read": "read_exact",
               "std::io::Write::write_vectored": "write_all", "std::io::Read::read_vectored": "read_exact",
               # "read until end of stream": succeeds with FEWER bytes than the caller expects when the stream ends early
               "std::io::Read::read_to_end": "read_exact", "std::io::Read::read_to_string": "read_exact"}
TO_END = ("std::io::Read::read_to_end", "std::io::Read::read_to_string")


def _buffer_len_compared(tree, n, body):
    """read_to_end(&mut buf): is `buf.len()` compared (or asserted on) somewhere in the function?"""
    from facts import root_local, strip
    args = n.get("args") or []
    rl = root_local(args[0]) if args else None
    if not rl:
        return False
    for x in walk(body):
        if x.get("k") == "MCall" and x.get("name") in ("len", "is_empty") and (root_local(x["recv"]) or (None,))[0] == rl[0]:
            up = tree.up(x)
            while up is not None and up.get("k") in ("Ref", "Un", "Cast"):
                up = tree.up(up)
            if up is not None and ((up.get("k") == "Bin" and up.get("op") in ("==", "!=", "<", "<=", ">", ">=")) or
                                   (up.get("k") == "Macro" and up.get("name", "").startswith("assert"))):
                return True
    return False
UNWRAPS = {"unwrap", "expect", "unwrap_unchecked"}
SWALLOW = {"ok", "err", "is_ok", "is_err", "unwrap_or", "unwrap_or_default", "unwrap_or_else", "iter",
           "into_iter", "unwrap_err", "expect_err", "is_ok_and", "is_err_and"}
PROPAGATE = {"map", "map_err", "and_then", "or_else", "inspect", "inspect_err", "and", "or", "cloned", "copied"}


def is_io_result(facts, n):
    t = facts.ty(n)
    return t.startswith("std::result::Result<") and IOERR in t


def scope(facts):
    """(api, s0): api = the serialization API proper — methods of local impls of the local *Serializable*
    traits (traits declaring serialize/deserialize/serialized_size) plus inherent functions named
    serialize*/deserialize* that return io::Result; s0 = every local function returning io::Result
    (superset; functions outside the API closure are reported as advisory only — e.g. the multiparty
    message layer, which *uses* serialization)."""
    s0 = [p for p, i in facts.items.items() if i["ret"].startswith("std::result::Result<") and IOERR in i["ret"]]
    ser_traits = set()
    for im in facts.impls:
        tr = im.get("trait")
        if tr and not tr.startswith("std::") and not tr.startswith("core::"):
            names = {m.rsplit("::", 1)[1] for m in im["methods"]}
            if {"serialize", "deserialize", "serialized_size"} <= names:
                ser_traits.add(tr)
    api = []
    for p, i in facts.items.items():
        if i.get("impl_trait") in ser_traits:
            api.append(p)
        elif "impl_trait" not in i and re.match(r"(serialize|deserialize)", i["name"]) and p in s0 \
                and i.get("impl_self"):
            api.append(p)
    return api, s0, ser_traits


def _compared(tree, n):
    """Is the count returned by call n (possibly through `?`) bound to a local that is compared?"""
    cur = n
    p = tree.up(cur)
    while p is not None and p.get("k") in ("Try",):
        cur, p = p, tree.up(p)
    if p is not None and p.get("k") == "Let" and p["pat"].get("k") == "PBind":
        lid = p["pat"]["lid"]
        for u in tree.uses_of(lid):
            up = tree.up(u)
            while up is not None and up.get("k") in ("Ref", "Un", "Cast"):
                up = tree.up(up)
            if up is not None and up.get("k") == "Bin" and up.get("op") in ("==", "!=", "<", "<=", ">", ">="):
                return True
            if up is not None and up.get("k") == "Macro" and up.get("name", "").startswith("assert"):
                return True
    if p is not None and p.get("k") == "Bin" and p.get("op") in ("==", "!=", "<", "<=", ">", ">="):
        return True
    return False


def consumption(facts, tree, n, fn_root, depth=0):
    """Classify how the io::Result value produced by node n is consumed.
    returns (verdict, how) with verdict in ok / dropped / unwrap / unresolved."""
    if depth > 20:
        return ("unresolved", "deep")
    p = tree.up(n)
    if p is None:
        return ("ok", "function tail")
    k = p.get("k")
    slot = tree.slot_of(n)
    if k == "Try":
        return ("ok", "?")
    if k == "Ret":
        return ("ok", "return")
    if k == "MCall" and slot == "recv":
        name = p.get("name")
        if name in UNWRAPS:
            return ("unwrap", name)
        if name in SWALLOW:
            return ("dropped", "." + name + "()")
        if name in PROPAGATE:
            if is_io_result(facts, p):
                return consumption(facts, tree, p, fn_root, depth + 1)
            if "Iterator" in (p.get("f") or {}).get("def", "") or (p.get("f") or {}).get("trait", "").endswith("Iterator"):
                return consumption(facts, tree, p, fn_root, depth + 1)
            return ("unresolved", "." + name + "() changes the type")
        if name == "flatten" and "Result<" in facts.ty(n):
            return ("dropped", ".flatten() over Results: an Err yields no item and is lost")
        if name in ("collect", "sum", "product", "try_fold", "try_for_each"):
            if is_io_result(facts, p):
                return consumption(facts, tree, p, fn_root, depth + 1)
            return ("unresolved", "." + name + "() into a non-Result value")
        if name in ("enumerate", "zip", "take", "skip", "rev", "peekable", "by_ref", "chain", "inspect"):
            return consumption(facts, tree, p, fn_root, depth + 1)
        return ("unresolved", "method ." + str(name))
    if k in ("Match", "LetE") and slot in ("e", "init"):
        if k == "LetE":
            # if let Ok(x) = r {..}  /  if let Err(e) = r { return Err(e) }
            pat = p["pat"]
            if pat.get("k") in ("PTupleStruct", "PStruct") and pat.get("path", "").endswith("::Err"):
                return ("ok", "if let Err")
            return ("dropped", "if let Ok(..) ignores the error")
        for arm in p["arms"]:
            pat = arm["pat"]
            pats = pat.get("ps", []) if pat.get("k") == "POr" else [pat]
            for q in pats:
                if q.get("k") in ("PTupleStruct", "PStruct") and q.get("path", "").endswith("::Err"):
                    body = arm["body"]
                    kinds = {x.get("k") for x in walk(body)}
                    if any(x.get("k") == "Macro" and x.get("name") in ("panic", "unreachable", "unimplemented", "todo")
                           for x in walk(body)):
                        return ("unwrap", "match Err => panic")
                    if "Ret" in kinds or "Try" in kinds or any(
                            x.get("k") == "Call" and x.get("ctor", "").endswith("::Err") for x in walk(body)):
                        return ("ok", "match Err => propagates")
                    return ("dropped", "match arm Err(..) does not propagate")
                if q.get("k") in ("PWild", "PBind") and q is not pats[0]:
                    pass
        return ("unresolved", "match without an Err arm")
    if k == "Block" and slot == "expr":
        if p is fn_root:
            return ("ok", "function tail")
        return consumption(facts, tree, p, fn_root, depth + 1)
    if k == "If" and slot in ("th", "el"):
        return consumption(facts, tree, p, fn_root, depth + 1)
    if k is None and slot == "arms":   # arm dict
        return ("unresolved", "arm")
    if k is None and "body" in p and tree.slot_of(p) == "arms":
        return consumption(facts, tree, tree.up(p), fn_root, depth + 1)
    if k == "Closure" and slot == "body":
        # the closure's io::Result is an item of the adaptor it is handed to
        ad = tree.up(p)
        name = ad.get("name") if ad is not None and ad.get("k") == "MCall" else None
        if name in ("flat_map", "filter_map", "flatten"):
            return ("dropped", ".%s() iterates each Result: an Err yields no item and is lost" % name)
        if name in ("map", "map_while", "scan", "inspect", "enumerate", "zip", "take", "skip"):
            return consumption(facts, tree, ad, fn_root, depth + 1)
        return ("ok", "closure result handed to the adaptor")
    if k == "Semi":
        return ("dropped", "statement value discarded")
    if k == "Expr":
        # expression statement without semicolon: value is the block's... only unit typed; treat as dropped
        return ("dropped", "statement value discarded")
    if k == "Let":
        pat = p["pat"]
        if pat.get("k") == "PWild":
            return ("dropped", "let _ =")
        if pat.get("k") == "PBind":
            uses = tree.uses_of(pat["lid"])
            if not uses:
                return ("dropped", "bound to `%s` and never used" % pat["name"])
            verdicts = [consumption(facts, tree, u, fn_root, depth + 1) for u in uses]
            for v in verdicts:
                if v[0] == "ok":
                    return ("ok", "via local `%s`: %s" % (pat["name"], v[1]))
            return verdicts[0]
        return ("unresolved", "destructuring let")
    if k in ("Ref", "Un", "Cast"):
        return consumption(facts, tree, p, fn_root, depth + 1)
    if k in ("Call", "MCall") and slot == "args":
        f = callee(p)
        if p.get("ctor", "").endswith("::Ok") or p.get("ctor", "").endswith("::Some"):
            return ("unresolved", "wrapped in a constructor")
        return ("unresolved", "passed to %s" % (f["def"] if f else "a call"))
    return ("unresolved", "parent %s" % k)


def run(facts, rep, thorough=False):
    rep.rule("R-IOERR(a)", "short-count primitives (Write::write, Read::read) only inside a retry loop or with "
             "the count compared; write_all/read_exact accepted")
    rep.rule("R-IOERR(b)", "no unwrap/expect/unwrap_unchecked whose receiver is Result<_, io::Error>")
    rep.rule("R-IOERR(c)", "every io::Result value is consumed by ?, return, tail position or an Err-propagating "
             "match; never dropped, `let _`, .ok(), .is_ok(), unwrap_or*")
    rep.rule("R-IOERR(d)", "inventory of panic sites in the deserialize tree (informational)")
    api, s0, ser_traits = scope(facts)
    rep.floor("R-IOERR", "serialization traits discovered", len(ser_traits), 3)
    rep.floor("R-IOERR", "serialization API functions (trait impl methods + inherent serialize*/deserialize*)",
              len(api), 100)
    tree_fns = facts.reachable(api)
    rep.extra["serialization_traits"] = sorted(ser_traits)
    rep.extra["api_functions"] = len(api)
    rep.extra["io_result_functions_crate_wide"] = len(s0)
    # (a),(b),(c) over S0 and everything reachable from it; thorough: whole crate for (a),(b)
    universe = set(tree_fns) | set(facts.reachable(s0))
    if thorough:
        universe = set(facts.hir.keys())
    n_io_values = 0
    n_prims = 0
    for p in sorted(universe):
        body = facts.hir.get(p)
        if body is None:
            continue
        in_tree = p in tree_fns
        rep.fn(p)
        tree = Tree(body)
        for n in walk(body):
            k = n.get("k")
            if k in ("Call", "MCall"):
                rep.stats["call_sites"] += 1
                f = callee(n)
                if f and f["def"] in SHORT_PRIMS:
                    n_prims += 1
                    key = "%s/%s" % (p, f["def"])
                    in_loop = tree.enclosing(n, ("While", "Loop")) is not None and f["def"] not in TO_END
                    if in_loop or _compared(tree, n) or (f["def"] in TO_END and _buffer_len_compared(tree, n, body)):
                        rep.ok("R-IOERR(a)", key, "short-count primitive inside a retry loop / count compared",
                               facts.loc(p, n))
                    elif in_tree:
                        rep.violation("R-IOERR(a)", key,
                                      "%s may transfer fewer bytes than offered and its count is neither retried nor "
                                      "compared: a writer/reader that accepts fewer bytes per call yields a truncated "
                                      "encoding reported as success (use %s)" % (f["def"], SHORT_PRIMS[f["def"]]),
                                      facts.loc(p, n))
                    else:
                        rep.note("%s: %s outside the serialization tree (informational)" % (facts.loc(p, n), f["def"]))
            if k in ("Call", "MCall", "Macro") and is_io_result(facts, n) and not (k == "Call" and n.get("ctor")):
                n_io_values += 1
                v, how = consumption(facts, tree, n, body)
                f = callee(n)
                what = (f["def"] if f else n.get("name", "?"))
                key = "%s/%s" % (p, what)
                if v == "ok":
                    rep.ok("R-IOERR(c)", key, "io::Result consumed by " + how, facts.loc(p, n))
                elif v == "dropped":
                    if in_tree:
                        rep.violation("R-IOERR(c)", key, "io::Result of %s is discarded (%s): an I/O fault is not "
                                      "reported to the caller" % (what, how), facts.loc(p, n))
                    else:
                        rep.note("%s: io::Result of %s discarded (%s) outside the serialization tree" %
                                 (facts.loc(p, n), what, how))
                elif v == "unwrap":
                    if in_tree:
                        rep.violation("R-IOERR(b)", key, "%s on the io::Result of %s: an I/O fault (e.g. a stream "
                                      "that ends early) panics instead of returning an error" % (how, what),
                                      facts.loc(p, n))
                    else:
                        rep.advisory("R-IOERR(b)", key, "%s on io::Result of %s in a consumer of the serialization API "
                                     "(outside the API's own call tree; not a clause of C15)" % (how, what),
                                     facts.loc(p, n))
                else:
                    rep.unresolved("R-IOERR(c)", key, "consumption not modelled: " + how, facts.loc(p, n))
    rep.floor("R-IOERR(c)", "io::Result-valued call sites", n_io_values, 175)
    run_buffered(facts, rep, tree_fns)
    # (d) inventory
    des = [p for p in api if facts.items[p]["name"].startswith("deserialize")]
    dtree = facts.reachable(des)
    inv = {}
    for p in sorted(dtree):
        body = facts.hir.get(p)
        if body is None:
            continue
        for n in walk(body):
            k = n.get("k")
            if k == "Macro" and n.get("name") in ("panic", "assert", "assert_eq", "assert_ne", "unreachable",
                                                  "unimplemented", "todo"):
                inv[n["name"] + "!"] = inv.get(n["name"] + "!", 0) + 1
            elif k == "MCall" and n.get("name") in UNWRAPS:
                t = facts.ty(n["recv"])
                kind = "Option" if t.startswith("std::option::Option") else "Result"
                inv["%s::%s" % (kind, n["name"])] = inv.get("%s::%s" % (kind, n["name"]), 0) + 1
            elif k == "Index":
                inv["index"] = inv.get("index", 0) + 1
    rep.extra["panic_site_inventory_deserialize_tree"] = inv
    rep.extra["deserialize_tree_functions"] = len(dtree)
    rep.ok("R-IOERR(d)", "inventory", "deserialize tree: %d functions, panic-capable sites by kind %s; none sits on "
           "an Err path because (b),(c) hold" % (len(dtree), inv), nontrivial=False)
    return {"api": len(api), "tree": len(tree_fns)}


BUFFERED = ("std::io::BufWriter", "std::io::LineWriter", "std::io::buffered::bufwriter", "std::io::buffered::linewriter")


def run_buffered(facts, rep, tree_fns):
    """(e) a buffering writer created inside the serialization tree must be flushed (flush()/into_inner(), whose
    io::Result is then subject to rule (c)) on every normally-returning path: its Drop flushes too, but discards the
    error, so a sink that fails after the function returned `Ok` has silently lost the tail of the encoding."""
    from flow import Flow
    from facts import root_local
    rep.rule("R-IOERR(e)", "a BufWriter/LineWriter created in the serialization tree is flushed explicitly on every "
             "normally-returning path (Drop discards the flush error)")
    n = 0
    for p in sorted(tree_fns):
        body = facts.hir.get(p)
        if body is None:
            continue
        creates = [x for x in walk(body) if x.get("k") == "Call" and (callee(x) or {}).get("def", "").startswith(BUFFERED)
                   and (callee(x) or {}).get("name") in ("new", "with_capacity")]
        if not creates:
            continue
        n += len(creates)
        cids = {id(c) for c in creates}

        def transfer(nd, st):
            k = nd.get("k")
            if k == "Let" and "init" in nd and nd["pat"].get("k") == "PBind":
                if any(id(y) in cids for y in walk(nd["init"])):
                    return st | frozenset([nd["pat"]["lid"]])
            if k == "MCall" and nd.get("name") in ("flush", "into_inner", "into_parts"):
                rl = root_local(nd["recv"])
                if rl and rl[0] in st:
                    return st - frozenset([rl[0]])
            return st

        fl = Flow(facts, lambda a, b: a | b, transfer, closure_mode="skip")
        fl.run(body, frozenset())
        leaked = set()
        for st, node in fl.rets:
            leaked |= set(st)
        key = "%s/bufwriter" % p
        if leaked:
            rep.violation("R-IOERR(e)", key,
                          "%s wraps the stream in a buffering writer and can return normally without flushing it: the "
                          "buffered tail is written by Drop, which discards the io::Error — a sink that fails then "
                          "receives a truncated encoding while the caller is told Ok(n)" % p, facts.loc(p, creates[0]))
        else:
            rep.ok("R-IOERR(e)", key, "buffering writer is flushed on every normally-returning path", facts.loc(p, creates[0]))
        # temporaries: BufWriter::new(..) not bound to a local at all
        for c in creates:
            bound = any(x.get("k") == "Let" and any(y is c for y in walk(x.get("init", {}))) for x in walk(body))
            if not bound:
                rep.violation("R-IOERR(e)", key + "/temporary", "a buffering writer is created as a temporary and dropped "
                              "without an explicit flush", facts.loc(p, c))
    rep.ok("R-IOERR(e)", "inventory", "%d buffering writer(s) created in the serialization tree" % n, nontrivial=False)
