"""R-RESDOM [N] — residues of one prime do not enter arithmetic modulo another prime unreduced.

The RNS kernels that drop the last prime (`divide_and_round_q_last*`, `mod_t_and_divide_q_last*`) work on a buffer laid
out as consecutive residue polynomials, slot s holding residues modulo prime s.  Inside the loop over the remaining
primes i, everything is arithmetic modulo prime i.  The primes of a chain are independent (20 to 60 bits, any order), so a
residue of slot s != i is only bounded by q_s and may exceed q_i — or any lazy multiple of it the consumer tolerates — by
an arbitrary factor.  Hence every read of a foreign slot inside the per-prime loop must
    * be converted: it is (part of) an argument of a reduction under the loop's prime (`reduce`, `barrett_reduce_u64`,
      `barrett_reduce_u128`, `polysmallmod::modulo*`), or
    * be copied under a branch that compares the two moduli (`if q_i < q_s {modulo} else {copy}`), or
    * be an in-place operation under its OWN prime (index expression equal to the slot).
Slots are decided symbolically (polynomials over the chain length and loop variables, r_slotmod.Sym).
"""
from facts import walk, callee, strip, local_of, root_local, Tree, Defs, target_key
from dealias import dealiased
from r_slotmod import Sym, padd, pmul, pconst, patom, pshow, atoms_of

R = "R-RESDOM"
REDUCERS = {"reduce", "barrett_reduce_u64", "barrett_reduce_u128", "modulo", "modulo_p", "modulo_ps"}


_LETS = {}


def _offset_exprs(e):
    """(buffer root local, offset expr) of an element or range access `B[off]`, `B[a..b]`, `&B[a..]`"""
    e = strip(e)
    if e.get("k") != "Index":
        return None
    rl = root_local(e["e"])
    if not rl or strip(e["e"]).get("k") != "Path":
        return None
    idx = strip(e["i"])
    # a range held in a local (`let r = a..b; x[r.clone()]`)
    for _ in range(3):
        if idx.get("k") == "MCall" and idx.get("name") == "clone" and not idx["args"]:
            idx = strip(idx["recv"])
        elif idx.get("k") == "Path" and idx.get("res") == "local" and _LETS.get(idx["lid"]) is not None:
            idx = strip(_LETS[idx["lid"]])
        else:
            break
    if idx.get("k") == "Struct" and "ops::Range" in idx.get("path", ""):
        d = {f["name"]: f["e"] for f in idx["fields"]}
        if "start" not in d:
            return None
        return rl, d["start"], True
    return rl, e["i"], False


def slot_of(sym, off, stride):
    """slot polynomial = (terms of the offset carrying the stride atom) / stride"""
    p = sym.poly(off)
    if not isinstance(p, dict):
        return None
    slot = {}
    hit = False
    for m, c in p.items():
        if stride in m:
            mm = list(m)
            mm.remove(stride)
            slot = padd(slot, {tuple(mm): c})
            hit = True
        elif len(m) > 1:
            return None
    return slot if hit else None


def run(facts, rep, files, floor=0):
    rep.rule(R, "inside a per-prime loop of an RNS kernel every read of another prime's residue slot is a reduction under the "
             "loop's prime, a copy guarded by a comparison of the two moduli, or an in-place operation under its own prime")
    n = 0
    for p in sorted(facts.hir):
        it = facts.items.get(p)
        if not it or it.get("file") not in files:
            continue
        body = dealiased(facts.hir[p])
        fors = [x for x in walk(body) if x.get("k") == "For" and x["pat"].get("k") == "PBind"]
        if not fors:
            continue
        sym = Sym(facts, body)
        _LETS.clear()
        _LETS.update(sym.lets)
        tree = Tree(body)
        defs_ = Defs(body)
        # stride: the atom `coeff_count`-like that multiplies slot indices: the bound of the innermost element loops
        stride = None
        for f in fors:
            a = sym.loopvars.get(f["pat"]["lid"])
            if a in sym.ranges:
                hi = sym.ranges[a][1]
                if len(hi) == 1 and list(hi.values()) == [1] and len(next(iter(hi))) == 1:
                    cand = next(iter(hi))[0]
                    if any(cand in m and len(m) >= 2 for x in walk(body) if x.get("k") == "Index"
                           for m in (sym.poly(_offset_exprs(x)[1]) or {} if _offset_exprs(x) else {})):
                        stride = cand
        if stride is None:
            # no element loops: the width of the range slices `B[a..b]`
            for x in walk(body):
                if x.get("k") == "Index":
                    idx = strip(x["i"])
                    if idx.get("k") == "Struct" and idx.get("path", "").endswith("ops::Range"):
                        d = {f["name"]: f["e"] for f in idx["fields"]}
                        a, b = sym.poly(d.get("start")), sym.poly(d.get("end"))
                        if isinstance(a, dict) and isinstance(b, dict):
                            w = padd(b, a, -1)
                            if len(w) == 1 and list(w.values()) == [1] and len(next(iter(w))) == 1:
                                stride = next(iter(w))[0]
        if stride is None:
            continue
        accesses = []
        seen_pos = set()
        for x in walk(body):
            oe = _offset_exprs(x)
            if oe is None:
                continue
            s = slot_of(sym, oe[1], stride)
            pos = (x.get("l"), x.get("c"), x.get("id"))
            if s is not None and pos not in seen_pos:
                seen_pos.add(pos)
                accesses.append((x, oe[0], s, oe[2]))
        if not accesses:
            continue
        # per-prime loops: a `for i` whose body writes slot i of buffer B
        for L in fors:
            iv = sym.loopvars.get(L["pat"]["lid"])
            if iv is None:
                continue
            inside = [a for a in accesses if any(a[0] is y for y in walk(L["body"]))]

            def is_write(x):
                up = tree.up(x)
                k = (up or {}).get("k")
                if k in ("Assign", "AssignOp") and strip(up["lhs"]) is x:
                    return True
                if k == "Ref" and up.get("mut"):
                    return True
                return False
            own = [a for a in inside if a[2] == patom(iv) and is_write(a[0])]
            if not own:
                continue
            buf = own[0][1]
            foreign = [a for a in inside if a[1][0] == buf[0] and a[2] != patom(iv) and iv not in atoms_of(a[2])]
            for k_f, (x, _, s, is_range) in enumerate(sorted(foreign, key=lambda a: (a[0].get("l", 0), a[0].get("c", 0)))):
                n += 1
                rep.fn(p)
                key = "%s/%s[slot %s]#%d" % (p, buf[1], pshow(s), k_f)
                verdict = None
                child = x
                for a in tree.ancestors(x):
                    if a is L:
                        break
                    k = a.get("k")
                    if k in ("Call", "MCall"):
                        nm = (callee(a) or {}).get("name") or a.get("name")
                        args = ([a["recv"]] if k == "MCall" else []) + a["args"]
                        if nm in REDUCERS:
                            verdict = "converted by %s" % nm
                            break
                        # in-place operation under its own prime: some modulus/table index equals the slot
                        idxs = [sym.poly(y["i"]) for b in args for y in walk(b) if y.get("k") == "Index" and
                                ("Modulus" in facts.ty(y["e"]) + facts.ty_adj(y["e"]) or "NTTTables" in facts.ty(y["e"]) + facts.ty_adj(y["e"]))]
                        idxs += [sym.poly(y["args"][0]) for b in args for y in walk(b) if y.get("k") == "MCall" and
                                 y.get("name") == "base_at" and y["args"]]
                        idxs += [sym.poly(z["args"][0]) if z.get("k") == "MCall" else sym.poly(z["i"])
                                 for b in args for y in walk(b) if y.get("k") == "Path" and y.get("res") == "local"
                                 and y["lid"] in sym.lets
                                 for z in [strip(sym.lets[y["lid"]])] if (z.get("k") == "MCall" and z.get("name") == "base_at" and z["args"])
                                 or (z.get("k") == "Index" and "Modulus" in facts.ty(z["e"]) + facts.ty_adj(z["e"]))]
                        if any(isinstance(q, dict) and q == s for q in idxs):
                            verdict = "operated on under its own prime"
                            break
                    if k == "If" and tree.slot_of(child) in ("th", "el"):
                        vals = [y for y in defs_.closure(a["c"]) if y.get("k") == "MCall" and y.get("name") == "value"]
                        c0 = strip(a["c"])
                        if c0.get("k") == "Bin" and c0.get("op") in ("<", "<=", ">", ">=") and len(vals) >= 2:
                            verdict = "copied under a comparison of the two moduli"
                            break
                    child = a
                if verdict:
                    rep.ok(R, key, "slot %s of `%s` read inside the loop over prime %s: %s" %
                           (pshow(s), buf[1], L["pat"]["name"], verdict), facts.loc(p, x),
                           sample={"function": p, "slot": pshow(s), "how": verdict})
                else:
                    rep.violation(R, key, "inside the loop over prime `%s`, residues of slot %s of `%s` (bounded only by that "
                                  "slot's own prime) enter the arithmetic modulo prime `%s` without a reduction or a guarded "
                                  "copy: for chains whose primes differ in size the operand exceeds every lazy bound the "
                                  "consumer accepts and the result is wrong" %
                                  (L["pat"]["name"], pshow(s), buf[1], L["pat"]["name"]), facts.loc(p, x))
    rep.floor(R, "foreign-slot reads inside per-prime loops", n, floor)
    return n


def run_operand_index(facts, rep, files, floor=0):
    """R-RESDOM(operand): an in-place polymod operation on slot s of an RNS-laid-out buffer takes its per-prime operand
    (`X[m]` of a Vec<MultiplyU64ModOperand> / Vec<Modulus> / Vec<NTTTables>, `base_at(m)`) at m == s."""
    Rn = "R-RESDOM(operand)"
    rep.rule(Rn, "an in-place operation on residue slot s uses the precomputed operand, modulus and table of prime s")
    n = 0
    for p in sorted(facts.hir):
        it = facts.items.get(p)
        if not it or it.get("file") not in files:
            continue
        body = dealiased(facts.hir[p])
        sym = Sym(facts, body)
        _LETS.clear()
        _LETS.update(sym.lets)
        stride = None
        for x in walk(body):
            if x.get("k") == "Index":
                idx = strip(x["i"])
                if idx.get("k") == "Struct" and idx.get("path", "").endswith("ops::Range"):
                    d = {f["name"]: f["e"] for f in idx["fields"]}
                    a, b = sym.poly(d.get("start")), sym.poly(d.get("end"))
                    if isinstance(a, dict) and isinstance(b, dict):
                        w = padd(b, a, -1)
                        if len(w) == 1 and list(w.values()) == [1] and len(next(iter(w))) == 1:
                            stride = next(iter(w))[0]
        if stride is None:
            continue
        k_s = 0
        for x in walk(body):
            if x.get("k") != "Call":
                continue
            f = callee(x)
            if not f or not f["def"].startswith("util::polysmallmod::") or not x["args"]:
                continue
            a0 = x["args"][0]
            if not (a0.get("k") == "Ref" and a0.get("mut")):
                continue
            # a `&mut` alias handed to a reading parameter (`modulo(last, ..)`) is not an in-place operation
            cit = facts.items.get(target_key(f))
            if cit and cit.get("params") and not cit["params"][0].get("ty", "&mut").lstrip().startswith("&mut"):
                continue
            oe = _offset_exprs(a0)
            if oe is None:
                continue
            s = slot_of(sym, oe[1], stride)
            if s is None:
                continue
            idxs = []
            for b in x["args"][1:]:
                for y in walk(b):
                    if y.get("k") == "Index" and strip(y["i"]).get("k") != "Struct":
                        t = facts.ty(y["e"]) + facts.ty_adj(y["e"])
                        if "MultiplyU64ModOperand" in t or "Modulus" in t or "NTTTables" in t:
                            idxs.append((sym.poly(y["i"]), y))
                    if y.get("k") == "MCall" and y.get("name") == "base_at" and y["args"]:
                        idxs.append((sym.poly(y["args"][0]), y))
                    if y.get("k") == "Path" and y.get("res") == "local" and y["lid"] in sym.lets:
                        z = strip(sym.lets[y["lid"]])
                        if z.get("k") == "MCall" and z.get("name") == "base_at" and z["args"]:
                            idxs.append((sym.poly(z["args"][0]), y))
                        elif z.get("k") == "Index" and "Modulus" in facts.ty(z["e"]) + facts.ty_adj(z["e"]):
                            idxs.append((sym.poly(z["i"]), y))
            for q, y in idxs:
                if not isinstance(q, dict):
                    continue
                n += 1
                rep.fn(p)
                key = "%s/%s#%d" % (p, f["name"], k_s)
                k_s += 1
                if q == s:
                    rep.ok(Rn, key, "%s on slot %s uses the operand of prime %s" % (f["name"], pshow(s), pshow(q)), facts.loc(p, x),
                           nontrivial=False)
                elif all(a in sym.ranges or a.startswith("len(") for a in atoms_of(padd(q, s, -1))):
                    rep.violation(Rn, key, "%s mutates residue slot %s but takes its per-prime operand at index %s: the slot is "
                                  "combined with another prime's constant" % (f["name"], pshow(s), pshow(q)), facts.loc(p, x))
                else:
                    rep.unresolved(Rn, key, "slot %s vs operand index %s not comparable" % (pshow(s), pshow(q)), facts.loc(p, x))
    rep.floor(Rn, "in-place operations with a per-prime operand", n, floor)
    return n


def run_half(facts, rep, files=("src/util/rns.rs",), floor=0):
    """R-RESDOM(half) [N]: centring thresholds and rounding offsets of the RNS tool are HALF of their modulus.

    The base-conversion and divide-and-round routines centre a residue (values above the threshold stand for negative numbers:
    `if x > T { .. M - x .. }`) or turn a flooring division into a rounding one (`x + T` before dividing by M).  In both uses T
    must be floor(M / 2).  Each local defined as `M.value() >> k` / `M.value() / c` with a literal k / c in these files is
    such a threshold; k must be 1 (c must be 2).  With a quarter of the modulus, a quarter of the residue range — positive
    values in (M/4, M/2] — is taken for negative: the conversion is off by a multiple of the auxiliary modulus for those
    inputs (large-magnitude operands the suite never produces)."""
    RH = "R-RESDOM(half)"
    rep.rule(RH, "every threshold / offset defined as a shifted or divided modulus value in the RNS tool is exactly half of it")
    n = 0
    for p in sorted(facts.hir):
        it = facts.items[p]
        if it["file"] not in files or "::tests::" in p:
            continue
        body = dealiased(facts.hir[p])
        for x in walk(body):
            if not (x.get("k") == "Let" and x["pat"].get("k") == "PBind" and "init" in x):
                continue
            e = strip(x["init"])
            if not (e.get("k") == "Bin" and e.get("op") in (">>", "/")):
                continue
            a, b = strip(e["a"]), strip(e["b"])
            if not (a.get("k") == "MCall" and a.get("name") == "value" and b.get("k") == "Lit"):
                continue
            try:
                lit = int(str(b.get("v", "")).split("_")[0])
            except ValueError:
                continue
            n += 1
            rep.fn(p)
            key = "%s/%s" % (p, x["pat"]["name"])
            half = (e["op"] == ">>" and lit == 1) or (e["op"] == "/" and lit == 2)
            # is the local used as a comparison operand or an additive offset?
            lid = x["pat"]["lid"]
            used = False
            for y in walk(body):
                if y.get("k") == "Bin" and y.get("op") in (">", ">=", "<", "<=", "+") and \
                        any(local_of(z) and local_of(z)[0] == lid for z in (y["a"], y["b"])):
                    used = True
                if y.get("k") in ("Call", "MCall") and any(local_of(z) and local_of(z)[0] == lid for z in y.get("args", [])):
                    used = True
            if half:
                rep.ok(RH, key, "`%s` is half of its modulus" % x["pat"]["name"], facts.loc(p, x), sample={"function": p})
            elif used:
                rep.violation(RH, key, "`%s` = modulus %s %d is used as a centring threshold / rounding offset but is not half of the "
                              "modulus: residues between it and the true half are taken for negative numbers (or the rounding is "
                              "biased), so the conversion is off by a multiple of the modulus for those inputs" %
                              (x["pat"]["name"], e["op"], lit), facts.loc(p, x))
            else:
                rep.unresolved(RH, key, "shifted modulus value with an unrecognised use", facts.loc(p, x))
    rep.floor(RH, "thresholds defined from a modulus value", n, floor)
    return n


def run_negskip(facts, rep, files=("src/util/rns.rs",)):
    """R-RESDOM(negskip) [N]: a multiplication by a precomputed scalar may be skipped when the scalar is 1 — a NEGATION may not.

    The kernels that drop the last prime skip `x *= s` under `if s != 1` (multiplying by one is the identity).  A sign change
    of the same operand (`negate*`) placed inside that branch — e.g. folded into the scalar as `negate(s)` — is skipped together
    with the multiplication exactly when s == 1: the correction term then keeps the wrong sign for every parameter set with
    q_last = 1 (mod t) (all power-of-two plain moduli up to 2N), and fresh public-key BGV encryptions decrypt to garbage."""
    RN = "R-RESDOM(negskip)"
    rep.rule(RN, "no negation of a residue operand is control-dependent on a `scalar != 1` identity shortcut")
    n = 0
    for p in sorted(facts.hir):
        it = facts.items[p]
        if it["file"] not in files or "::tests::" in p:
            continue
        body = dealiased(facts.hir[p])
        k = 0
        for x in walk(body):
            if x.get("k") != "If":
                continue
            c = strip(x["c"])
            if not (c.get("k") == "Bin" and c.get("op") in ("!=", "==") and
                    any(strip(s_).get("k") == "Lit" and str(strip(s_).get("v", "")).split("_")[0] == "1" for s_ in (c["a"], c["b"]))):
                continue
            branch = x["th"] if c["op"] == "!=" else x.get("el")
            if branch is None:
                continue
            n += 1
            rep.fn(p)
            key = "%s/shortcut#%d" % (p, k)
            k += 1
            negs = [y for y in walk(branch) if y.get("k") in ("Call", "MCall") and
                    "negate" in ((callee(y) or {}).get("name") or y.get("name") or "")]
            if negs:
                rep.violation(RN, key, "a negation (%s) sits inside the branch taken only when the scalar differs from 1: when the "
                              "scalar IS 1 the multiplication is rightly skipped, but so is the sign change — the operand keeps the "
                              "wrong sign for every parameter set where that precomputed inverse equals 1" %
                              ((callee(negs[0]) or {}).get("name") or negs[0].get("name")), facts.loc(p, negs[0]))
            else:
                rep.ok(RN, key, "the identity shortcut skips a multiplication only", facts.loc(p, x), nontrivial=False)
    return n


def run_parity(facts, rep, files=("src/util/rns.rs",)):
    """R-RESDOM(parity) [N]: centring against half of an EVEN modulus is inclusive.

    `if x > T { x - M }` with T = M >> 1 maps residues to (-M/2, M/2] for even M and to [-(M-1)/2, (M-1)/2] for odd M; the
    centred range the Montgomery-style reduction is specified with is [-M/2, M/2): for an even modulus the residue M/2 is
    negative and the comparison must be `>=`.  The parity of a modulus is decided only where its constructor argument is a
    constant the rule can evaluate (`Modulus::new(1 << 32)` for m_tilde); thresholds of other moduli are not judged here.
    With the strict comparison the single residue M/2 is taken as +M/2 and the routine's output is off by exactly q for
    that input — one value in 2^32 per coefficient, which no test reaches."""
    from r_admit import _ev
    RP = "R-RESDOM(parity)"
    rep.rule(RP, "a centring comparison against half of a modulus whose constant definition is even is inclusive (`>=`)")
    # constant moduli: `let NAME = Modulus::new(<const>)` anywhere in the files
    const_mod = {}
    for p in sorted(facts.hir):
        it = facts.items[p]
        if it["file"] not in files or "::tests::" in p:
            continue
        for x in walk(facts.hir[p]):
            if x.get("k") == "Let" and x["pat"].get("k") == "PBind" and "init" in x:
                c = strip(x["init"])
                f = callee(c) or {}
                if c.get("k") == "Call" and f.get("name") == "new" and "Modulus" in f.get("def", "") and "Operand" not in f.get("def", "") \
                        and c["args"]:
                    v = _ev(c["args"][0], {}, {})
                    if isinstance(v, int) and not isinstance(v, bool):
                        const_mod.setdefault(x["pat"]["name"], set()).add(v)
    n = 0
    for p in sorted(facts.hir):
        it = facts.items[p]
        if it["file"] not in files or "::tests::" in p:
            continue
        body = facts.hir[p]
        for x in walk(body):
            if not (x.get("k") == "Let" and x["pat"].get("k") == "PBind" and "init" in x):
                continue
            e = strip(x["init"])
            if not (e.get("k") == "Bin" and ((e.get("op") == ">>" and _ev(e["b"], {}, {}) == 1) or
                                             (e.get("op") == "/" and _ev(e["b"], {}, {}) == 2))):
                continue
            a = strip(e["a"])
            if not (a.get("k") == "MCall" and a.get("name") == "value"):
                continue
            m = strip(a["recv"])
            name = m.get("name") if m.get("k") == "Field" else (local_of(m) or (None, None))[1]
            vals = const_mod.get(name)
            if not vals or len(vals) != 1:
                continue
            mv = next(iter(vals))
            lid = x["pat"]["lid"]
            k_c = 0
            for y in walk(body):
                if y.get("k") != "Bin" or y.get("op") not in (">", ">=", "<", "<="):
                    continue
                la, lb = local_of(y["a"]), local_of(y["b"])
                if la and la[0] == lid:
                    op = {"<": ">", "<=": ">=", ">": "<", ">=": "<="}[y["op"]]      # T op x  ==  x op' T
                elif lb and lb[0] == lid:
                    op = y["op"]
                else:
                    continue
                n += 1
                rep.fn(p)
                key = "%s/%s#%d" % (p, x["pat"]["name"], k_c)
                k_c += 1
                if mv % 2 == 0 and op in (">", "<="):
                    rep.violation(RP, key, "`%s` is half of `%s` = %d, an even modulus, and the centring comparison against it is "
                                  "strict: the residue %d (its own negative) is taken as +%d instead of -%d, so the routine's output "
                                  "differs from the centred reduction by one multiple of the reduced modulus for that input" %
                                  (x["pat"]["name"], name, mv, mv // 2, mv // 2, mv // 2), facts.loc(p, y))
                elif mv % 2 == 1 and op in (">=", "<"):
                    rep.violation(RP, key, "`%s` is half of `%s` = %d, an odd modulus, and the centring comparison against it is "
                                  "inclusive: the residue %d is taken for negative and leaves the centred range" %
                                  (x["pat"]["name"], name, mv, mv // 2), facts.loc(p, y))
                else:
                    rep.ok(RP, key, "comparison `x %s %s` matches the parity of %s = %d" % (op, x["pat"]["name"], name, mv),
                           facts.loc(p, y), sample={"function": p, "modulus": name, "value": mv})
    rep.floor(RP, "centring comparisons against half of a constant modulus", n, 0)   # a refactor may name the threshold differently: not judged then
    return n
