"""Per-property drivers: which rules make up each check, with the decided / undecided clauses."""
import os
import facts as F
from report import Report
import r_ioerr


def c15(facts, tier):
    rep = Report("C15", tier, facts,
                 "R-IOERR over the whole (de)serialization call tree, discovered by type (every function returning "
                 "io::Result and its local callees): (a) no short-count primitive (Write::write/Read::read) without "
                 "retry or count comparison, (b) no unwrap/expect on an io::Result, (c) every io::Result value is "
                 "propagated (?, return, tail, Err-propagating match), (d) inventory of panic sites in the "
                 "deserialize tree. These are properties of call sites, decided on all paths of all functions.",
                 "behaviour on corrupted (as opposed to truncated) input; the byte-level content of what is written.")
    r_ioerr.run(facts, rep, thorough=(tier == "thorough"))
    return rep


CHECKS = {
    "C15": c15,
}


def run(pid, tier, only_key=None):
    facts = F.load()
    rep = CHECKS[pid](facts, tier)
    if only_key:
        hits = [i for i in rep.instances if i["key"] == only_key]
        if not hits:
            print("replay: instance %s no longer exists on this tree" % only_key)
            return 0
        for i in hits:
            print("replay: %s %s [%s] %s" % (i["loc"], i["key"], i["verdict"], i["msg"]))
        return 1 if any(i["verdict"] == "violation" for i in hits) else 0
    return rep.finish()
