"""Per-property drivers: which rules make up each check, with the decided / undecided clauses."""
import os
import facts as F
from report import Report
import r_ioerr
import r_loop
import r_guard
import r_lock
import r_forms
import project
import r_depend
import r_contra
import r_pair
import r_encbound
import r_meta
import r_scheme
import r_wire
import r_ladder
import r_repstate
import r_shape
import r_family
import r_chain
import r_decodelen
import r_powers
import r_admit
import r_spec
import r_outcover
import r_residue
import r_tape
import r_tensor
import r_slots
import r_constdef
import r_slotmod
import r_modeflag
import r_sendrecv
import r_encadmit
import r_resdom
import r_convidx
import r_lwepair
import r_budget
import r_rngprov
import r_dispatch
import r_range
import r_valcheck
import witness


def c15(facts, tier):
    rep = Report("C15", tier, facts,
                 "R-IOERR over the whole (de)serialization call tree, discovered by type (every function returning "
                 "io::Result and its local callees): (a) no short-count primitive (Write::write/Read::read) without "
                 "retry or count comparison, (b) no unwrap/expect on an io::Result, (c) every io::Result value is "
                 "propagated (?, return, tail, Err-propagating match), (d) inventory of panic sites in the "
                 "deserialize tree. These are properties of call sites, decided on all paths of all functions.",
                 "behaviour on corrupted (as opposed to truncated) input; the byte-level content of what is written.")
    r_ioerr.run(facts, rep, thorough=(tier == "thorough"))
    return rep


def c05(facts, tier):
    rep = Report("C05", tier, facts,
                 "R-LOOP: every while/loop of evaluator.rs and context.rs (whole crate in the thorough tier) has a "
                 "variant — the exit condition reads something the loop writes, or the body has an exit; the "
                 "level-walking loops of the *_to family hand the walked object to a callee that advances it to "
                 "next_context_data on every normally-returning path (interprocedural must-pass-through), so they "
                 "terminate or refuse; their only normal exit is `parms_id(x) == target`.",
                 "that the decrypted message is preserved; rounding bounds of rescaling; the arithmetic of the "
                 "BGV correction factor.")
    files = None if tier == "thorough" else {"src/evaluator.rs", "src/context.rs", "src/app/lwe.rs"}
    fam = r_forms.families(facts)
    n_loops, n_walk = r_loop.run(facts, rep, scope_files=files)
    rep.floor("R-LOOP", "while/loop statements analysed", n_loops, 10 if files else 70)
    rep.floor("R-LOOP(adv)", "level-walking loops (condition on parms_id of a written object)", n_walk, 3)
    # refusals (pre-return mode)
    rows = []
    CT, PT = "text::Ciphertext", "text::Plaintext"
    for stem, ty, cls, why in (
            ("mod_switch_to", CT, "not_upward", "a request to move upward in the chain is refused"),
            ("mod_switch_plain_to", PT, "not_upward", "a request to move a plaintext upward is refused"),
            ("mod_switch_to_next", CT, "not_last", "a request to move past the last level is refused"),
            ("mod_switch_to_next_plain", PT, "not_last", "a request to move a plaintext past the last level is refused"),
            ("rescale_to_next", CT, "not_last", "a request to rescale past the last level is refused"),
            ("rescale_to", CT, "not_last", "a request to rescale past the last level is refused")):
        for name, p in sorted(fam.get(stem, {}).items()):
            ops = _ops(facts, p, ty)
            if ops:
                rows.append((p, cls, (ops[0],), why))
    eng = r_guard.GuardEngine(facts)
    rep.rule("R-GUARD(level)", "no normally-returning path of the entry lacks a refusing branch on the operand's "
             "level against the chain (chain_index comparison / last level / next_context_data)")
    r_guard.check_return_facts(facts, rep, eng, rows, "R-GUARD(level)")
    rep.floor("R-GUARD(level)", "level refusal rows", len(rows), 18)
    rep.rule("R-GUARD(scheme)", "on the BFV and BGV projections the rescale entry points never return normally")
    n = 0
    for scheme in ("BFV", "BGV"):
        pf = project.ProjFacts(facts, scheme)
        e2 = r_guard.GuardEngine(pf)
        for stem in ("rescale_to_next", "rescale_to"):
            for name, p in sorted(fam.get(stem, {}).items()):
                n += 1
                sm = e2.summary(p)
                key = "%s/%s" % (p, scheme)
                if not sm.normal_return:
                    rep.ok("R-GUARD(scheme)", key, "every path of %s under %s ends in a refusal" % (p, scheme), facts.loc(p),
                           sample={"entry": p, "scheme": scheme})
                else:
                    rep.violation("R-GUARD(scheme)", key, "%s can return normally under %s: rescaling outside CKKS is "
                                  "computed instead of refused" % (p, scheme), facts.loc(p))
    rep.floor("R-GUARD(scheme)", "rescale entry x scheme rows", n, 12)
    # bookkeeping of the switch (symbolic metadata per scheme projection)
    M = r_meta
    me = meta_engines(facts)
    rep.rule("R-METAFLOW(table)", "per scheme: the to-next forms record level = parms_id(next_context_data(level(a))); "
             "drop switch keeps scale and correction factor; rescale divides the scale by the dropped prime; the BGV "
             "scale switch records cf = multiply_u64_mod(cf(a), inv_q_last_mod_t, t)")
    nrows = 0
    for sc, (pfm, em) in me.items():
        trows = []
        nxt = lambda y: M.mentions(y, lambda z: z[0] == "call" and z[1] == "next_context_data") and \
            M.mentions(y, lambda z: z == M.S("level", 0))
        for p in _forms(fam, "mod_switch_to_next") + (_forms(fam, "rescale_to_next") if sc == "CKKS" else []):
            trows.append((p, "level", nxt, "parms_id(next_context_data(level(a)))"))
            trows.append((p, "ntt", lambda y: y == M.S("ntt", 0), "representation flag unchanged"))
        for p in _forms(fam, "mod_switch_to_next_plain"):
            trows.append((p, "level", lambda y: M.mentions(y, lambda z: z[0] == "call" and z[1] == "next_context_data"),
                          "level of the next context data"))
            trows.append((p, "scale", lambda y: y == M.S("scale", 0), "scale(a) unchanged"))
        for p in _forms(fam, "mod_switch_to_next"):
            if sc == "BGV":
                trows.append((p, "cf", lambda y: M.is_call(y, "multiply_u64_mod", M.S("cf", 0)) and
                              M.mentions(y, lambda z: z[0] == "call" and z[1] == "inv_q_last_mod_t"),
                              "multiply_u64_mod(cf(a), inv_q_last_mod_t, t)"))
            else:
                trows.append((p, "cf", lambda y: y == M.S("cf", 0), "cf(a) unchanged"))
            trows.append((p, "scale", lambda y: y == M.S("scale", 0), "scale(a) unchanged (drop / scale switch outside CKKS rescale)"))
        if sc == "CKKS":
            for p in _forms(fam, "rescale_to_next"):
                trows.append((p, "scale", lambda y: isinstance(y, tuple) and y[0] == "div" and y[1] == M.S("scale", 0),
                              "scale(a) / dropped prime"))
                trows.append((p, "cf", lambda y: y == M.S("cf", 0), "cf(a) unchanged"))
        M.check_table(pfm, em, rep, sc, trows)
        nrows += len(trows)
    rep.floor("R-METAFLOW(table)", "switch bookkeeping rows", nrows, 60)
    # a CKKS switch is refused unless the scale fits the level the RESULT is recorded at (cross-listed from C03, restricted
    # to the down-chain routines): a test against the source level lets a message through that the target modulus destroys
    down = lambda p: facts.items.get(p, {}).get("file") == "src/evaluator.rs" and \
        any(w in facts.items[p]["name"] for w in ("mod_switch", "rescale"))
    pfc = project.ProjFacts(facts, "CKKS")
    n = r_meta.check_scale_guard_level(pfc, r_meta.MetaEngine(pfc), rep, "CKKS", down)
    rep.floor("R-GUARD(scale-level)", "is_scale_within_bounds call sites of the down-chain routines", n, 1)
    # the kernels that drop the last prime: no foreign residue enters the arithmetic of another prime unreduced
    r_resdom.run(facts, rep, {"src/util/rns.rs"}, floor=6)
    return rep


API_TYPES = ("evaluator::Evaluator", "encryptor::Encryptor", "encryptor::Decryptor")


def api_entries(facts):
    ents = []
    for t in API_TYPES:
        ents += facts.methods_of(t, pub_only=True)
    ents += [p for p in facts.methods_of("batch_encoder::BatchEncoder", pub_only=True)
             if facts.items[p]["name"] in ("decode", "decode_new")]
    ents += [p for p in facts.methods_of("ckks_encoder::CKKSEncoder", pub_only=True)
             if facts.items[p]["name"].startswith("decode")]
    return ents


def c06(facts, tier):
    rep = Report("C06", tier, facts,
                 "R-GUARD(valid), pre-effect mode: for every public operation of Evaluator, Encryptor, Decryptor and "
                 "the decoders, each Ciphertext/Plaintext operand is validated (is_valid_for or metadata+data "
                 "validity; seed refusal for ciphertexts) on every path before the first write to it or the first "
                 "arithmetic on its residues, tracked interprocedurally through clones and all three API forms.",
                 "byte equality of the three API forms as values; that returned objects satisfy is_valid_for "
                 "(canonical residues, consistent metadata) — only the structural conditions are decided.")
    eng = r_guard.GuardEngine(facts)
    ents = api_entries(facts)
    rep.floor("R-GUARD(valid)", "public entry points (Evaluator/Encryptor/Decryptor/decoders)", len(ents), 115)
    n_pairs, n_eff = r_guard.check_validity(facts, rep, eng, ents)
    r_guard.check_key_material(facts, rep)
    r_meta.check_resize_guards(facts, rep)
    rep.floor("R-GUARD(valid)", "(entry, operand) pairs", n_pairs, 100)
    rep.floor("R-GUARD(valid)", "(entry, operand) pairs with a guarded first use", n_eff, 100)
    rep.extra["guard_engine"] = eng.stats
    nf, nm = r_forms.run(facts, rep)
    rep.floor("R-FORMS(cert)", "API families with >= 2 forms", nf, 25)
    rep.floor("R-FORMS(cert)", "family members", nm, 75)
    n = r_meta.check_forms(meta_engines(facts), rep, r_forms.families(facts))
    rep.floor("R-METAFLOW(forms)", "(scheme, family) pairs compared", n, 60)
    repstate(facts, rep, ents, 400)
    n = r_valcheck.run(facts, rep)
    rep.floor("R-VALCHECK", "ValCheck implementations inspected", n, 12)
    witness.run(rep, facts.repo, doc_tests=(tier == "thorough"))
    return rep


SHARED_TYPES = ("encryptor::Decryptor", "key::KeyGenerator", "evaluator::Evaluator", "batch_encoder::BatchEncoder",
                "ckks_encoder::CKKSEncoder", "context::HeContext", "encryptor::Encryptor", "util::galois::GaloisTool",
                "context::ContextData")


def c17(facts, tier):
    rep = Report("C17", tier, facts,
                 "R-LOCK on the lock-protected caches (discovered from the type facts: every RwLock/Mutex field): "
                 "(a) no lock is re-acquired while one of its guards is live, in the same body or through any callee "
                 "(exact MIR guard live ranges) — deadlock freedom for these single-lock objects; (c) every "
                 "whole-value publish through a write guard in a &self function is dominated by a re-check made "
                 "under that write guard; (d) no shrinking operation through a guard in a &self function; plus the "
                 "inventory of interior-mutable fields of the shareable types (exactly the lock fields).",
                 "linearizability as a property of histories: only the structural conditions under which the "
                 "standard lock-protected monotone-cache argument applies are decided; the arithmetic fact that a "
                 "published array is longer than the current one is not derived.")
    r_lock.run(facts, rep)
    witness.run(rep, facts.repo, doc_tests=(tier == "thorough"))
    # no other shared mutable state in the shareable types
    lockf = {(tp, n) for tp, n, _, _ in r_lock.lock_fields(facts)}
    for tp, n, ty in r_lock.interior_mutable_fields(facts):
        if tp in SHARED_TYPES:
            if (tp, n) in lockf:
                rep.ok("R-LOCK(b,e)", "field/%s.%s" % (tp, n), "interior-mutable field is a lock: %s" % ty, nontrivial=False)
            else:
                rep.violation("R-LOCK(b,e)", "field/%s.%s" % (tp, n), "shareable type %s has interior-mutable field "
                              "`%s: %s` that is not a lock: unsynchronised shared mutation" % (tp, n, ty))
    return rep


def meta_engines(facts, schemes=("BFV", "CKKS", "BGV")):
    out = {}
    for sc in schemes:
        pf = project.ProjFacts(facts, sc)
        out[sc] = (pf, r_meta.MetaEngine(pf))
    return out


def _forms(fam, *stems):
    return [p for st in stems for _, p in sorted(fam.get(st, {}).items())]


def repstate(facts, rep, entries, floor):
    """R-REPSTATE over `entries` on each scheme projection."""
    n = 0
    for sc in ("BFV", "CKKS", "BGV"):
        pf = project.ProjFacts(facts, sc)
        before = len(rep.instances)
        n += r_repstate.run(pf, rep, entries, rule="R-REPSTATE")
        for i in rep.instances[before:]:
            i["key"] = i["key"].replace("R-REPSTATE/", "R-REPSTATE/%s/" % sc, 1)
    rep.floor("R-REPSTATE", "(entry, scheme, assumption) analyses", n, floor)
    return n


def _ops(facts, p, ty):
    return [name for _, name, t in r_guard.operand_params(facts, p) if r_guard.strip_ty(t) == ty]


def c01(facts, tier):
    rep = Report("C01", tier, facts,
                 "R-DISPATCH: under their literal flags the 28 encryption entry points of Encryptor reach the worker of "
                 "their own kind (secret-key vs public-key) and at least one; scheme availability: on each of the BFV, "
                 "CKKS and BGV projections encrypt*/decrypt* have a normally-returning path (the dispatch has an arm for "
                 "the scheme) and refuse under an unknown scheme; R-REPSTATE on the encryption/decryption call tree per "
                 "scheme and flag assumption (the level-dependent mod-switch of public-key encryptions uses the routine of "
                 "the ciphertext's representation, nothing mixes representations, results leave with data matching their "
                 "flag); R-RNGPROV(seedrt): the stored seed is written and expanded at the same address/length; "
                 "R-METAFLOW(table): the level / scale / representation flag / correction factor recorded on a fresh "
                 "encryption (CKKS: the plaintext's own level and scale).",
                 "that decryption returns the plaintext, any noise bound, the CKKS error bound.")
    n = r_dispatch.run(facts, rep)
    rep.floor("R-DISPATCH", "encryption entry points", n, 24)
    rep.rule("R-SCHEME(avail)", "encrypt/decrypt have an arm for each scheme: a normally-returning path exists on the BFV, "
             "CKKS and BGV projections")
    ents = [p for p in facts.methods_of("encryptor::Encryptor", pub_only=True) if facts.items[p]["name"].startswith("encrypt")]
    ents += [p for p in facts.methods_of("encryptor::Decryptor", pub_only=True) if facts.items[p]["name"].startswith("decrypt")]
    k = 0
    for sc in ("BFV", "CKKS", "BGV"):
        pf = project.ProjFacts(facts, sc)
        for p in ents:
            k += 1
            _, normal = r_dispatch.reach2(pf, p, {})
            key = "%s/%s" % (facts.items[p]["name"], sc)
            if normal:
                rep.ok("R-SCHEME(avail)", key, "has a normally-returning path under %s" % sc, facts.loc(p), nontrivial=False)
            else:
                rep.violation("R-SCHEME(avail)", key, "%s never returns normally under %s: the scheme dispatch has no arm for "
                              "it (or every path refuses)" % (p, sc), facts.loc(p))
    rep.floor("R-SCHEME(avail)", "(entry, scheme) rows", k, 75)
    tree = ents + [p for p in facts.items if p.startswith("util::rlwe::encrypt_zero::") and facts.items[p].get("vis") == "pub"]
    repstate(facts, rep, tree, 130)
    r_rngprov_seed(facts, rep)
    # metadata of a fresh encryption: the level the zero encryption is created at is the level the message is added at
    M = r_meta
    me = meta_engines(facts)
    rep.rule("R-METAFLOW(table)", "fresh encryptions carry the metadata the scheme implies: CKKS at the plaintext's own level "
             "with its scale and in NTT form; BFV (coefficient form) and BGV (NTT form) at the first level; "
             "encrypt_zero*_at at the requested level; correction factor 1")
    enc = [p for p in facts.methods_of("encryptor::Encryptor", pub_only=True) if facts.items[p]["name"].startswith("encrypt")]
    first = lambda y: M.mentions(y, lambda z: z[0] == "call" and z[1] in ("first_parms_id", "first_context_data"))
    nrows = 0
    for sc in ("BFV", "CKKS", "BGV"):
        rows = []
        for p in enc:
            nm = facts.items[p]["name"]
            has_plain = bool(_ops(facts, p, "text::Plaintext"))
            if has_plain and sc == "CKKS":
                rows.append((p, "level", lambda y: y == M.S("level", 0), "level(plain)"))
                rows.append((p, "scale", lambda y: y == M.S("scale", 0), "scale(plain)"))
            elif "_at" in nm:
                rows.append((p, "level", lambda y: y == ("ploc", "parms_id"), "the requested parms_id"))
            else:
                rows.append((p, "level", first, "the first level"))
            rows.append((p, "ntt", lambda y, sc=sc: y == ("lit", "false" if sc == "BFV" else "true"),
                         "coefficient form" if sc == "BFV" else "NTT form"))
            rows.append((p, "cf", lambda y: y == ("lit", "1"), "1"))
        M.check_table(me[sc][0], me[sc][1], rep, sc, rows)
        nrows += len(rows)
    rep.floor("R-METAFLOW(table)", "fresh-encryption metadata rows", nrows, 200)
    r_residue.run(facts, rep, floor=4, files={"src/util/scaling_variant.rs", "src/encryptor.rs", "src/util/rlwe.rs"})
    r_resdom.run_negskip(facts, rep)
    return rep


def r_rngprov_seed(facts, rep):
    """cross-listed from C16: seed round trip"""
    sub = Report(rep.pid, rep.tier, facts, "", "")
    r_rngprov.run_c16(facts, sub)
    for i in sub.instances:
        if "(seedrt)" in i["rule"]:
            rep.instances.append(i)
    rep.rules.update({k: v for k, v in sub.rules.items() if "(seedrt)" in k})


def c02(facts, tier):
    rep = Report("C02", tier, facts,
                 "R-SHAPE(count): at every polysmallmod::*_ps call the polynomial count handed over is the count of the "
                 "buffer it is applied to (same accessor on the same operand, through clone chains), never another "
                 "operand's; R-FAMILY: every _ps/_p wrapper delegates to its own operation class one layout level down "
                 "with stride = slice width, the NTT wrappers reach the transform of their direction/laziness; "
                 "R-METAFLOW(table): the BGV correction factor recorded by multiply / square / mod-switch is the modular "
                 "product the operation implies; R-REPSTATE on the BFV and BGV projections of the evaluator's public "
                 "operations (no mixed-representation arithmetic, transforms and RNS routines in their own domain, "
                 "results leave canonical and with data matching their representation flag); R-SLOTMOD: in the key-switch "
                 "back end every stage touching slot s of the RNS-laid-out product buffer does so under the same prime "
                 "index (symbolic unification of slot and index expressions under loop ranges); R-MODEFLAG: in the add/sub back "
                 "ends every transfer of the second operand into the result is selected by the subtract flag.",
                 "exactness of the BEHZ multiplication steps, noise growth, the arithmetic of "
                 "balance_correction_factors, that decryption returns the ring product.")
    files = None if tier == "thorough" else {"src/evaluator.rs", "src/encryptor.rs", "src/key.rs", "src/util/scaling_variant.rs"}
    n = r_shape.run_count(facts, rep, files)
    rep.floor("R-SHAPE(count)", "(call, buffer) pairs at *_ps call sites", n, 20)
    n = r_family.run_poly(facts, rep)
    rep.floor("R-FAMILY(poly)", "_ps/_p wrappers", n, 50)
    r_family.run_ntt(facts, rep)
    M = r_meta
    fam = r_forms.families(facts)
    me = meta_engines(facts, ("BGV", "BFV"))
    rep.rule("R-METAFLOW(table)", "BGV: multiply records cf = multiply_u64_mod(cf(a), cf(b), t), square cf(a)^2 likewise; "
             "BFV: the correction factor and scale are carried unchanged")
    rows = []
    for p in _forms(fam, "multiply"):
        rows.append((p, "cf", lambda y: M.is_call(y, "multiply_u64_mod", M.S("cf", 0), M.S("cf", 1)), "multiply_u64_mod(cf(a), cf(b), t)"))
    for p in _forms(fam, "square"):
        rows.append((p, "cf", lambda y: M.is_call(y, "multiply_u64_mod", M.S("cf", 0)) and
                     sum(1 for z in y[2:] if z == M.S("cf", 0)) == 2, "multiply_u64_mod(cf(a), cf(a), t)"))
    for p in _forms(fam, "negate", "multiply_plain", "relinearize", "transform_to_ntt", "transform_from_ntt", "rotate_rows"):
        rows.append((p, "cf", lambda y: y == M.S("cf", 0), "cf(a) unchanged"))
    M.check_table(me["BGV"][0], me["BGV"][1], rep, "BGV", rows)
    rows_bfv = []
    for p in _forms(fam, "multiply", "square", "negate", "multiply_plain", "relinearize"):
        rows_bfv.append((p, "cf", lambda y: y == M.S("cf", 0), "cf(a) unchanged"))
        rows_bfv.append((p, "scale", lambda y: y == M.S("scale", 0), "scale(a) unchanged"))
    M.check_table(me["BFV"][0], me["BFV"][1], rep, "BFV", rows_bfv)
    rep.floor("R-METAFLOW(table)", "correction-factor rows", len(rows) + len(rows_bfv), 50)
    ents = facts.methods_of("evaluator::Evaluator", pub_only=True)
    n = 0
    for sc in ("BFV", "BGV"):
        pf = project.ProjFacts(facts, sc)
        before = len(rep.instances)
        n += r_repstate.run(pf, rep, ents)
        for i in rep.instances[before:]:
            i["key"] = i["key"].replace("R-REPSTATE/", "R-REPSTATE/%s/" % sc, 1)
    rep.floor("R-REPSTATE", "(entry, scheme, assumption) analyses", n, 250)
    # key switching (relinearisation / rotation back end, shared by all schemes): the residues of each RNS slot of the
    # scratch product are produced and consumed under the same prime at every level
    r_slotmod.run(facts, rep, lambda p: facts.items.get(p, {}).get("file") == "src/evaluator.rs", floor_sites=4, floor_pairs=4)
    # add/sub back ends: every contribution of the second operand is selected by the subtract flag
    r_modeflag.run(facts, rep, lambda p: facts.items.get(p, {}).get("file") == "src/evaluator.rs", floor=2)
    # BGV correction-factor balancing (and every other place a signed quantity is reduced): the sign is not dropped
    n = r_contra.run_absmod(facts, rep, None if tier == "thorough" else
                            {"src/evaluator.rs", "src/util/number_theory.rs", "src/util/scaling_variant.rs"})
    rep.floor("R-CONTRA(absmod)", "reduced magnitudes of signed locals", n, 1)
    # multiply_many: the pairwise product tree stays in bounds for odd operand counts and keeps its products
    n = r_contra.run_pairwise(facts, rep, None if tier == "thorough" else {"src/evaluator.rs"})
    rep.floor("R-CONTRA(pairs)", "pairwise-consuming loops", n, 1)
    r_tensor.run(facts, rep, fnames=("ckks_multiply", "bgv_multiply"), floor=2)
    r_tensor.run_operand_loops(facts, rep)
    r_family.run_negacyclic(facts, rep, floor=1)
    return rep


def c03_rows(facts):
    """(entry, class, operands, why) rows for the refusal clauses of C03, generated from the public families."""
    fam = r_forms.families(facts)
    rows = []
    CT, PT = "text::Ciphertext", "text::Plaintext"
    for stem in ("add", "sub", "multiply"):
        for name, p in sorted(fam.get(stem, {}).items()):
            cts = _ops(facts, p, CT)
            if len(cts) >= 2:
                rows.append((p, "same_level", (cts[0], cts[1]), "ciphertexts of different levels are refused"))
                if stem in ("add", "sub"):
                    rows.append((p, "same_scale", (cts[0], cts[1]), "operands whose scales disagree are refused"))
                else:
                    rows.append((p, "scale_bound", (cts[0],), "a product whose scale no longer fits the modulus is refused"))
    for stem in ("square",):
        for name, p in sorted(fam.get(stem, {}).items()):
            cts = _ops(facts, p, CT)
            if cts:
                rows.append((p, "scale_bound", (cts[0],), "a square whose scale no longer fits the modulus is refused"))
    for stem in ("add_plain", "sub_plain"):
        for name, p in sorted(fam.get(stem, {}).items()):
            cts, pts = _ops(facts, p, CT), _ops(facts, p, PT)
            if cts and pts:
                rows.append((p, "same_scale", (cts[0], pts[0]), "a plaintext whose scale disagrees is refused"))
    for stem in ("multiply_plain",):
        for name, p in sorted(fam.get(stem, {}).items()):
            cts = _ops(facts, p, CT)
            if cts:
                rows.append((p, "scale_bound", (cts[0],), "a product whose scale no longer fits the modulus is refused"))
    return rows


def c03(facts, tier):
    rep = Report("C03", tier, facts,
                 "R-GUARD, pre-return mode on the CKKS projection of the program (SchemeType matches and tests "
                 "specialised to CKKS): for every form of add/sub/multiply/square/±plain/multiply_plain, no "
                 "normally-returning path lacks a refusing branch on (a) the levels of both ciphertext operands, "
                 "(b) the scales of both operands, (c) the resulting scale against the modulus size.",
                 "the numerical error bound of CKKS evaluation; tolerance semantics of the scale comparison; that "
                 "the recorded scale is arithmetically the product/quotient (R-METAFLOW decides where it comes from).")
    pf = project.ProjFacts(facts, "CKKS")
    eng = r_guard.GuardEngine(pf)
    rows = c03_rows(facts)
    rep.rule("R-GUARD(ckks)", "on the CKKS projection, every normally-returning path of the entry passes a refusing "
             "branch whose condition evaluates the class's accessor(s) on the named operand(s)")
    r_guard.check_return_facts(pf, rep, eng, rows, "R-GUARD(ckks)")
    rep.floor("R-GUARD(ckks)", "refusal rows (entry x clause)", len(rows), 30)
    rep.extra["guard_engine"] = eng.stats
    # scale bookkeeping (symbolic metadata on the CKKS projection)
    M = r_meta
    fam = r_forms.families(facts)
    me = meta_engines(facts, ("CKKS",))
    pfm, em = me["CKKS"]
    rep.rule("R-METAFLOW(table)", "the scale recorded on the result, as a symbolic expression over the operands' scales, is "
             "the product (multiply, square, multiply_plain), the quotient by the dropped prime (rescale) or the operand's "
             "scale (add, sub, negate, +-plain, drop switch, rotations, relinearize) on every path of the CKKS projection")
    trows = []
    for p in _forms(fam, "multiply", "multiply_plain"):
        trows.append((p, "scale", lambda y: M.is_product(y, M.S("scale", 0), M.S("scale", 1)), "scale(a) * scale(b)"))
    for p in _forms(fam, "square"):
        trows.append((p, "scale", lambda y: M.is_product(y, M.S("scale", 0), M.S("scale", 0)), "scale(a) * scale(a)"))
    for p in _forms(fam, "rescale_to_next"):
        trows.append((p, "scale", lambda y: isinstance(y, tuple) and y[0] == "div" and y[1] == M.S("scale", 0) and
                      M.mentions(y[2], lambda z: z[0] == "call" and z[1] == "coeff_modulus") and
                      M.mentions(y[2], lambda z: z[0] == "call" and z[1] == "last"),
                      "scale(a) / value(last prime of a's level)"))
    for p in _forms(fam, "mod_switch_to_next", "add", "sub", "negate", "add_plain", "sub_plain", "relinearize",
                    "rotate_vector", "complex_conjugate", "transform_to_ntt", "transform_from_ntt", "mod_switch_to"):
        trows.append((p, "scale", lambda y: y == M.S("scale", 0), "scale(a) unchanged"))
    M.check_table(pfm, em, rep, "CKKS", trows)
    rep.floor("R-METAFLOW(table)", "scale bookkeeping rows", len(trows), 45)
    ev = lambda p: facts.items.get(p, {}).get("file") == "src/evaluator.rs"
    pfc = project.ProjFacts(facts, "CKKS")
    n = r_meta.check_scale_guard_level(pfc, r_meta.MetaEngine(pfc), rep, "CKKS", ev)
    rep.floor("R-GUARD(scale-level)", "is_scale_within_bounds call sites with a tracked result", n, 3)
    # scheme-independent back ends the CKKS operations share with BFV/BGV (cross-listed from C02)
    r_slotmod.run(facts, rep, ev, floor_sites=4, floor_pairs=4)
    r_modeflag.run(facts, rep, ev, floor=2)
    r_tensor.run(facts, rep, fnames=("ckks_multiply",), floor=1)
    return rep


def c08(facts, tier):
    rep = Report("C08", tier, facts,
                 "R-DEPEND over every public primitive of util::basic, util::uintsmallmod and util::number_theory: "
                 "(A) each non-constant output depends on the contents of every value operand at every normal return "
                 "(forward data+control dependency analysis with strong kills), (C) no out-parameter is read before "
                 "it is written on some path.",
                 "exactness of any primitive (Barrett estimates, carries, quotient digits): that is a solver / "
                 "enumeration question and belongs to a different technique family.")
    n = r_depend.run(facts, rep)
    rep.floor("R-DEPEND(A)", "public primitives analysed", n, 105)
    n = r_depend.run_inplace_order(facts, rep)
    rep.floor("R-DEPEND(order)", "in-place loop loads", n, 8)
    n = r_contra.run_narrow_shift(facts, rep, None if tier == "thorough" else r_depend.SCOPE_MODULES)
    rep.floor("R-CONTRA(shift)", "functions with left shifts", n, 10)
    r_residue.run(facts, rep, floor=30)
    r_residue.run_quotient_form(facts, rep)
    r_contra.run_dropped_carry(facts, rep, None)
    return rep


def c12(facts, tier):
    rep = Report("C12", tier, facts,
                 "R-GUARDDEP on every float->integer narrowing cast of ckks_encoder.rs that is selected by a magnitude "
                 "tier guard (the cast value may depend only on inputs the guard depends on); R-CONTRA(wrap): no "
                 "wrapping arithmetic on an unbounded signed/floating input feeds a modular reduction; R-GUARD "
                 "(pre-return): every public encode entry point refuses, on every path, through a branch computed "
                 "from the scale and from the value(s) against the modulus size.",
                 "rounding, the double-precision error of the embedding transform, FFT correctness, the slot order.")
    files = {"src/ckks_encoder.rs"}
    n = r_contra.run_guarddep(facts, rep, files)
    rep.floor("R-GUARDDEP", "tier-guarded float->int casts", n, 8)
    n = r_contra.run_wrap(facts, rep, files if tier == "quick" else None)
    rep.floor("R-CONTRA(wrap)", "reduction call sites inspected", n, 8)
    n = r_contra.run_carry(facts, rep, lambda p: p.startswith("ckks_encoder::CKKSEncoder::encode_internal"))
    rep.floor("R-CARRY", "per-element loops with outer buffers written inside", n, 6)
    eng = r_guard.GuardEngine(facts, track_scalars=True)
    rows = []
    for p in sorted(facts.methods_of("ckks_encoder::CKKSEncoder", pub_only=True)):
        it = facts.items[p]
        if not it["name"].startswith("encode"):
            continue
        names = [pp["pat"]["name"] for pp in it["params"] if pp["pat"].get("k") == "PBind"]
        if "scale" in names:
            rows.append((p, "mag_bound", ("scale",), "oversized scales are refused"))
            rows.append((p, "positive", ("scale",), "non-positive scales are refused"))
        for v in ("values", "value"):
            if v in names:
                rows.append((p, "mag_bound", (v,), "inputs whose scaled magnitude does not fit the modulus are refused"))
    rep.rule("R-GUARD(encode)", "no normally-returning path of an encode entry point lacks a refusing branch computed "
             "from the operand and total_coeff_modulus_bit_count")
    r_guard.check_return_facts(facts, rep, eng, rows, "R-GUARD(encode)")
    rep.floor("R-GUARD(encode)", "encode refusal rows", len(rows), 25)
    n = r_contra.run_absmod(facts, rep, {"src/ckks_encoder.rs"})
    rep.floor("R-CONTRA(absmod)", "reduced magnitudes of signed locals", n, 1)
    r_encadmit.run(facts, rep, floor=4)
    r_encadmit.run_component_modulus(facts, rep)
    r_outcover.run(facts, rep, floor=2, **({"files": tuple({facts.items[p]["file"] for p in facts.hir})} if tier == "thorough" else {}))
    r_contra.run_wrapcast(facts, rep, None if tier == "thorough" else {"src/ckks_encoder.rs", "src/batch_encoder.rs"})
    r_spec.run_round(facts, rep)
    return rep


def c09(facts, tier):
    rep = Report("C09", tier, facts,
                 "R-RANGE: k*q interval abstract interpretation of the transform core's SOURCE (ModArithLazy's add / sub / "
                 "mul_root / mul_scalar / guard, the butterfly bodies of DWTHandler::transform_to_rev / transform_from_rev "
                 "bound to those summaries, the NTTTables epilogues) for a symbolic modulus below 2^61: butterfly "
                 "invariants are inductive below 8q from canonical and from the documented lazy input ranges, no addition "
                 "can wrap, no subtraction can underflow, the non-lazy forms end in [0,q), the lazy forms inside their "
                 "documented ranges; R-FAMILY(ntt): the polysmallmod NTT wrappers reach the transform of their direction "
                 "and laziness; root determinism: try_primitive_root (the only entropy user) is called only from "
                 "try_minimal_primitive_root, which scans (degree+1)/2 successive odd powers and keeps the minimum.",
                 "that the transform equals evaluation at the odd powers of a primitive root in bit-reversed order, "
                 "invertibility, the convolution property.")
    r_range.run(facts, rep)
    r_family.run_ntt(facts, rep)
    # the multi-polynomial / multi-component wrappers hand every component to the transform exactly once
    n = r_family.run_poly(facts, rep, only=("ntt", "intt"))
    rep.floor("R-FAMILY(poly)", "ntt/intt _p/_ps wrappers", n, 8)
    r_admit.run(facts, rep)
    # root determinism (who-may-call + loop shape)
    R = "R-ROOT"
    rep.rule(R, "the random start of try_primitive_root is confined: it is called only from try_minimal_primitive_root, whose "
             "loop visits (degree+1)/2 successive odd powers (multiplier root^2) and keeps the minimum")
    cg = facts.callgraph()
    tp = "util::number_theory::try_primitive_root"
    tm = "util::number_theory::try_minimal_primitive_root"
    callers = sorted({p for p, es in cg.items() if any(t == tp for t, _ in es)})
    if rep.anchor(R, tp, tp in facts.hir) and rep.anchor(R, tm, tm in facts.hir):
        rep.fn(tm)
        if callers == [tm]:
            rep.ok(R, "who-may-call", "try_primitive_root is called only from try_minimal_primitive_root", facts.loc(tm))
        else:
            rep.violation(R, "who-may-call", "try_primitive_root (random start) is called from %s: the root handed to the "
                          "tables depends on the random draw, so independently built contexts transform differently" %
                          [c for c in callers if c != tm], facts.loc(tp))
        from r_encbound import render
        from facts import walk as _w, callee as _c, strip as _s, local_of as _lo, Defs as _Defs
        body = facts.hir[tm]
        defs = _Defs(body)
        plid = {q["pat"]["name"]: q["pat"]["lid"] for q in facts.items[tm]["params"] if q["pat"].get("k") == "PBind"}

        def mentions_degree_half(e):
            cl = defs.closure(e)
            has_deg = any(y.get("k") == "Path" and y.get("res") == "local" and y.get("lid") == plid.get("degree") for y in cl)
            half = any(y.get("k") == "Bin" and ((y.get("op") == "/" and _s(y["b"]).get("v", "").split("_")[0] == "2") or
                                                (y.get("op") == ">>" and _s(y["b"]).get("v", "").split("_")[0] == "1")) for y in cl)
            return has_deg and half

        # the square of the root found
        squares = set()
        for x in _w(body):
            if x.get("k") == "Let" and x["pat"].get("k") == "PBind" and "init" in x:
                c0 = _s(x["init"])
                if (_c(c0) or {}).get("name") == "multiply_u64_mod" and len(c0.get("args", [])) >= 2 and \
                        _lo(c0["args"][0]) and _lo(c0["args"][1]) and _lo(c0["args"][0])[0] == _lo(c0["args"][1])[0]:
                    squares.add(x["pat"]["lid"])
        ok = False
        for L in _w(body):
            if L.get("k") == "For":
                trip = mentions_degree_half(L["iter"])
            elif L.get("k") == "While":
                trip = mentions_degree_half(L["c"])
            else:
                continue
            # step: cur = multiply_u64_mod(cur, square, ..)
            cur = None
            for x in _w(L["body"]):
                if x.get("k") == "Assign" and _lo(x["lhs"]) and (_c(_s(x["rhs"])) or {}).get("name") == "multiply_u64_mod":
                    al = [_lo(a)[0] for a in _s(x["rhs"])["args"] if _lo(a)]
                    if _lo(x["lhs"])[0] in al and any(a in squares for a in al):
                        cur = _lo(x["lhs"])[0]
            if cur is None or not trip:
                continue
            # minimum: `if cur < acc {acc = cur}` or `acc = acc.min(cur)` / `min(acc, cur)`
            has_min = False
            for x in _w(L["body"]):
                if x.get("k") == "If":
                    c0 = _s(x["c"])
                    if c0.get("k") == "Bin" and c0.get("op") in ("<", ">"):
                        small, big = (c0["a"], c0["b"]) if c0["op"] == "<" else (c0["b"], c0["a"])
                        if _lo(small) and _lo(big) and _lo(small)[0] == cur and any(
                                y.get("k") == "Assign" and _lo(y["lhs"]) and _lo(y["lhs"])[0] == _lo(big)[0] and
                                _lo(y["rhs"]) and _lo(y["rhs"])[0] == cur for y in _w(x["th"])):
                            has_min = True
                if x.get("k") == "Assign" and _lo(x["lhs"]):
                    r0 = _s(x["rhs"])
                    nm = (_c(r0) or {}).get("name") or r0.get("name")
                    if nm == "min":
                        al = [_lo(a)[0] for a in ([r0["recv"]] if r0.get("k") == "MCall" else []) + r0.get("args", []) if _lo(a)]
                        if cur in al and _lo(x["lhs"])[0] in al:
                            has_min = True
            if has_min:
                ok = True
        if ok:
            rep.ok(R, "scan", "the scan covers (degree+1)/2 successive odd powers (step root^2) and keeps the minimum", facts.loc(tm))
        else:
            rep.violation(R, "scan", "try_minimal_primitive_root no longer scans (degree+1)/2 successive odd powers keeping the "
                          "minimum: the result depends on the random start", facts.loc(tm))
    # the candidate root (and everything else handed to the modular primitives of the root search) is a residue
    r_residue.run(facts, rep, floor=2, files={"src/util/number_theory.rs", "src/util/ntt.rs"})
    return rep


def c11(facts, tier):
    rep = Report("C11", tier, facts,
                 "R-PAIR(batch): BatchEncoder.encode scatters and decode gathers through the same index-map field with "
                 "the loop variable as index, the tail is zero-filled through the same map, encode ends with the "
                 "inverse and decode starts with the forward non-lazy negacyclic transform of plain_ntt_tables, "
                 "coefficient encoding reduces modulo t; R-CONTRA(index) on the Galois permutation and the encoder: "
                 "every index guarded by a comparison with the operand's length is implied in-bounds by it.",
                 "that batching is a ring isomorphism, the slot order, that the automorphism acts as the documented "
                 "rotation (value-level facts about roots of unity and the index map's contents).")
    r_pair.run_c11(facts, rep)
    files = None if tier == "thorough" else {"src/util/galois.rs", "src/batch_encoder.rs", "src/util/ntt.rs"}
    n = r_contra.run_index(facts, rep, files)
    rep.floor("R-CONTRA(index)", "length-guarded index uses", n, 0)
    r_pair.run_galois_total(facts, rep)
    # the decomposition of a rotation step into available keys must cover negative steps
    n = r_contra.run_sign_loop(facts, rep, None if tier == "thorough" else {"src/util/number_theory.rs", "src/util/galois.rs",
                                                                             "src/evaluator.rs"})
    rep.floor("R-CONTRA(signloop)", "halving loops over signed values", n, 0)
    r_pair.run_generator(facts, rep)
    n = r_contra.run_onesided_digit(facts, rep, None if tier == "thorough" else {"src/evaluator.rs", "src/util/galois.rs"})
    rep.floor("R-CONTRA(onesided)", "equality tests on NAF digits", n, 0)
    r_residue.run_encode_sink(facts, rep)
    return rep


def c04(facts, tier):
    rep = Report("C04", tier, facts,
                 "R-PAIR(galois): symbolic buffer contents through apply_galois_inplace's order-sensitive block (key-"
                 "switch target = G(c1), poly(0) = G(c0), poly(1) = 0 on both representation arms); rotate_internal "
                 "applies the element whose key it tested and re-applies NAF components to the same ciphertext/keys; "
                 "conjugation uses step 0; R-CONTRA(index) on GaloisTool::apply.",
                 "that X -> X^g permutes slots as documented, generator/NAF arithmetic, key-switch noise, plaintext "
                 "preservation under the new key.")
    r_pair.run_c04(facts, rep)
    # one RNS slot is transformed / reduced under one prime by every stage that touches it (R-SLOTMOD subsumes the
    # earlier sibling-branch rule R-PAIR(tables), which is kept without a floor: hoisting the slot above the branch
    # leaves it nothing to compare)
    r_pair.run_table_siblings(facts, rep, lambda p: p.startswith("evaluator::Evaluator::") or p.startswith("key::"))
    r_slotmod.run(facts, rep, lambda p: p.startswith("evaluator::Evaluator::") or p.startswith("key::"),
                  floor_sites=4, floor_pairs=4)
    ents = [p for p in api_entries(facts) if any(w in facts.items[p]["name"] for w in
            ("galois", "rotate", "conjugate", "keyswitching", "relinearize"))]
    repstate(facts, rep, ents, 90)
    files = None if tier == "thorough" else {"src/util/galois.rs", "src/evaluator.rs", "src/key.rs"}
    n = r_contra.run_index(facts, rep, files)
    rep.floor("R-CONTRA(index)", "length-guarded index uses", n, 0)
    # the sign of a rotation step must survive its decomposition (naf): no sign test on an absolute value
    n = r_contra.run_abs_sign(facts, rep, None if tier == "thorough" else {"src/util/number_theory.rs", "src/util/galois.rs",
                                                                            "src/evaluator.rs"})
    rep.floor("R-CONTRA(sign)", "functions taking absolute values", n, 1)
    n = r_contra.run_sign_loop(facts, rep, None if tier == "thorough" else {"src/util/number_theory.rs", "src/util/galois.rs",
                                                                             "src/evaluator.rs"})
    rep.floor("R-CONTRA(signloop)", "halving loops over signed values", n, 0)
    r_pair.run_generator(facts, rep)
    n = r_contra.run_onesided_digit(facts, rep, None if tier == "thorough" else {"src/evaluator.rs", "src/util/galois.rs"})
    rep.floor("R-CONTRA(onesided)", "equality tests on NAF digits", n, 0)
    return rep


def helper_types(facts):
    """Helper structs of the matmul / conv2d applications: local structs under app:: that have encoder-taking methods."""
    out = []
    for tp in sorted(facts.types):
        if not tp.startswith("app::") or tp.startswith("app::rns_plain") or tp.startswith("app::lwe"):
            continue
        ms = facts.methods_of(tp)
        if any(any("Encoder" in pp.get("ty", "") for pp in facts.items[m]["params"]) for m in ms):
            out.append(tp)
    return out


def c20(facts, tier):
    rep = Report("C20", tier, facts,
                 "R-ENCBOUND over every encoder call of the matmul/conv2d helper structs: the encoded buffer's length "
                 "never has the global counterpart of a block dimension as a factor (global/block pairs read off the "
                 "struct definitions); R-INDEXPAIR: the _bfv/_ckks twins of every helper method have identical "
                 "integer skeletons (loop ranges, integer lets, index expressions of stores and loads).",
                 "that the homomorphic product / correlation equals the plaintext one; optimality of the block "
                 "search; the BOLT helpers' slot arithmetic (%, /) beyond twin agreement.")
    hts = helper_types(facts)
    rep.floor("R-ENCBOUND", "helper struct types", len(hts), 5)
    n = r_encbound.run_encbound(facts, rep, hts)
    rep.floor("R-ENCBOUND", "encoder call sites in helpers", n, 25)
    n = r_encbound.run_twins(facts, rep, hts)
    rep.floor("R-INDEXPAIR", "bfv/ckks twin pairs", n, 8)
    strict = [t for t in hts if r_encbound.block_pairs(facts, t)]     # cheetah MatmulHelper, Conv2dHelper
    n = r_encbound.run_inverse(facts, rep, strict)
    rep.floor("R-INDEXPAIR(inv)", "encode_outputs/decode pairs", n, 4)
    r_convidx.run(facts, rep, floor=2)
    r_convidx.run_tiles(facts, rep)
    r_decodelen.run(facts, rep, floor=3)
    return rep


def c16(facts, tier):
    rep = Report("C16", tier, facts,
                 "R-RNGPROV: (fresh) the entropy source is real (factory draws from OS entropy, HeContext builds the "
                 "factory with new(), from_seed/set_seed have no library caller, no generator cached in a field/static) "
                 "and every secret sampler / worker call in rlwe.rs, key.rs, encryptor.rs is fed by an entropy generator "
                 "created in the call or by the caller's generator; (mask) with an explicit generator the stored seed and "
                 "c1 derive from it only; (pure) nothing nondeterministic reachable from BlakeRNG's stream; (rns) small "
                 "samples are drawn once per coefficient outside the RNS-component loop; (seedrt) seed stored and expanded "
                 "at the same address/length, both through from_seed -> uniform.",
                 "independence of the byte stream from read chunking, non-repetition, difference between seeds, the "
                 "shape of the empirical distributions, the numeric bound 21.")
    r_rngprov.run_c16(facts, rep)
    r_rngprov.run_noise(facts, rep)
    r_spec.run_bias(facts, rep)
    return rep


def c18(facts, tier):
    rep = Report("C18", tier, facts,
                 "R-SCHEME(pair): per scheme projection, multiparty::decrypt_polynomial reaches the same RNSTool decoder, "
                 "representation change and correction-factor fix as Decryptor::{bfv,ckks,bgv}_decrypt; "
                 "R-GUARD(complete): the revelation protocol's finish refuses (assert over broadcasted) before every "
                 "summation and every normal return, and each protocol type finishes all its revelation sub-protocols on "
                 "every path of its finish*; R-COMMUTE certificate for order independence of delivery.",
                 "that collective keys equal the sum-key objects; plaintext preservation of the protocols; identical "
                 "keys across parties as values (the common-tape provenance rows are decided under C16's engine).")
    n = r_scheme.run_pair(facts, rep)
    rep.floor("R-SCHEME(pair)", "scheme arms compared", n, 3)
    n = r_scheme.run_complete(facts, rep)
    rep.floor("R-GUARD(complete)", "finish functions checked", n, 8)
    n = r_scheme.run_commute(facts, rep)
    rep.floor("R-COMMUTE", "message handlers", n, 1)
    n = r_rngprov.run_tape(facts, rep)
    rep.floor("R-RNGPROV(tape)", "sampler call sites in the multiparty layer", n, 8)
    ents = [p for p in facts.items if p.startswith("multiparty::participant::") and facts.items[p]["vis"] == "pub"
            and facts.items[p].get("impl_self")]
    repstate(facts, rep, ents, 150)
    r_sendrecv.run(facts, rep, floor=8)
    r_tape.run(facts, rep, floor=4)
    return rep


def c14(facts, tier):
    rep = Report("C14", tier, facts,
                 "R-WIRE over every serialization triple (trait impls and inherent *_full / *_terms / *_polynomial "
                 "functions), per scheme projection: the writer's and the reader's wire grammars (typed leaves, loop "
                 "nesting, conditionals) are equal; the size function's fixed byte count equals the writer's per "
                 "conditional branch and has a variable term wherever the writer loops; readers of possibly "
                 "seed-compressed objects expand the seed.",
                 "equality of restored objects as values; numerical loop bounds and the closed-form variable part of "
                 "the size functions; cross-context reconstruction.")
    n, g = r_wire.run(facts, rep)
    rep.floor("R-WIRE(rw)", "serialization triples", g, 30)
    rep.floor("R-WIRE(rw)", "(triple, scheme) grammar comparisons", n, 40)
    writers = [p for p in facts.items if facts.items[p]["name"].startswith("serialize") and
               not facts.items[p]["name"].startswith("serialized") and "std::io::Error" in facts.items[p].get("ret", "")]
    repstate(facts, rep, writers, 110)
    n = r_wire.run_use(facts, rep)
    rep.floor("R-WIRE(use)", "readers with let-bound reads", n, 8)
    r_slots.run(facts, rep, floor=0)
    r_wire.run_width(facts, rep)
    return rep


def c13(facts, tier):
    rep = Report("C13", tier, facts,
                 "R-LADDER on HeContext::validate (early returns carry a non-Success error, nothing follows an error store "
                 "but return, every ErrorType variant is produced, unwraps are dominated by their tests, parameters_set is "
                 "matches!(error, Success)); the precondition-to-guard chain (all-pairs coprimality refusal in "
                 "RNSBase::new; refusal propagation validate <- create_ntt_tables <- NTTTables::new <- "
                 "try_minimal_primitive_root <- try_primitive_root with the 2N | q-1 refusal); identifier recomputation "
                 "(compute_parms_id reads every hashed field, every writer of a hashed field recomputes, nothing "
                 "nondeterministic reachable) and the chain construction loops' termination (R-LOOP on context.rs).",
                 "that accepted parameters satisfy the mathematics as values (e.g. NTTTables::new succeeding implies "
                 "q = 1 mod 2N), collision freedom of the hash, primality of generated moduli, panic freedom of the "
                 "whole constructor tree, equality of precomputed constants with their definitions.")
    r_ladder.run_validate(facts, rep)
    r_ladder.run_chain(facts, rep)
    r_ladder.run_ident(facts, rep)
    r_ladder.run_hashin(facts, rep)
    r_chain.run(facts, rep)
    r_constdef.run(facts, rep, floor=0)
    r_contra.run_dropped_carry(facts, rep, None if tier == "thorough" else {"src/context.rs", "src/modulus.rs", "src/encryption_parameters.rs"})
    n_loops, _ = r_loop.run(facts, rep, scope_files={"src/context.rs", "src/modulus.rs", "src/encryption_parameters.rs"},
                            level_walk=False)
    r_spec.run_stdtable(facts, rep)
    return rep


def c10(facts, tier):
    rep = Report("C10", tier, facts,
                 "R-RESDOM on the four kernels that divide by the last prime (divide_and_round_q_last(_ntt)_inplace, "
                 "mod_t_and_divide_q_last(_ntt)_inplace): inside the loop over the remaining primes every read of the last "
                 "prime's residue slot is a reduction under the loop's prime, a copy guarded by a comparison of the two "
                 "moduli, or an in-place operation under its own prime (slots decided symbolically); R-RESDOM(operand): "
                 "every in-place polysmallmod operation of src/util/rns.rs on residue slot s takes the precomputed "
                 "per-prime operand, modulus and NTT table at index s.",
                 "every integer specification itself: CRT bijectivity, the error term of fast base conversion, "
                 "Montgomery / floor / Shenoy-Kumaresan exactness, that the division rounds to nearest, the value modulo t, "
                 "scale-and-round; the BEHZ converter routines (they iterate with zip adaptors over matrices: no slot "
                 "arithmetic for the rule to read).")
    r_resdom.run(facts, rep, {"src/util/rns.rs"}, floor=6)
    r_resdom.run_operand_index(facts, rep, {"src/util/rns.rs"}, floor=10)
    r_shape.run_baselen(facts, rep)
    r_resdom.run_half(facts, rep, floor=4)
    r_resdom.run_negskip(facts, rep)
    r_resdom.run_parity(facts, rep)
    return rep


def c19(facts, tier):
    rep = Report("C19", tier, facts,
                 "R-LWEPAIR: extract_lwe keeps coefficient `term` of every RNS component of c0 and shifts c1 by 2N - term "
                 "(0 for term 0); assemble_lwe stores residue i at index i*N (decided on symbolic index polynomials); "
                 "R-REPSTATE on the BFV / CKKS / BGV projections of extraction, field trace, division by N and packing: the "
                 "negacyclic shift and the butterfly merge run on coefficient-form data, the automorphism in the "
                 "representation its scheme requires, nothing mixes representations, results leave with data matching "
                 "their flag; R-LOOP: the trace / packing loops advance their counters.",
                 "where coefficients land as a function of the runtime index, count and trace parameter (stride "
                 "N/2^ceil(log2 k), multiplication by N/2^l, zeros elsewhere), that the generated automorphism key set "
                 "covers the elements used, the CKKS error bound.")
    r_lwepair.run(facts, rep)
    r_lwepair.run_levels(facts, rep)
    r_lwepair.run_packmeta(facts, rep)
    r_lwepair.run_packshift(facts, rep)
    r_lwepair.run_packelement(facts, rep)
    ents = [p for p in facts.items if p.startswith("app::lwe::") and facts.items[p].get("vis") == "pub" and p in facts.hir]
    repstate(facts, rep, ents, 40)
    r_loop.run(facts, rep, {"src/app/lwe.rs"}, level_walk=False)
    return rep


def c07(facts, tier):
    rep = Report("C07", tier, facts,
                 "R-BUDGET: Decryptor::invariant_noise_budget follows the pipeline of its definition on the BFV and BGV "
                 "projections (phase by dot_product_ct_sk_array, scaling by plain_modulus.value() for BFV only, CRT "
                 "composition, centred infinity norm against total_coeff_modulus() of the ciphertext's level, in this order), "
                 "returns bits(q_level) - bits(norm) - 1 clamped at 0 with the bit count of the level's TOTAL modulus, and "
                 "poly_infty_norm centres against half_round_up(modulus) and keeps the maximum; R-REPSTATE: the budget is "
                 "computed on coefficient-form data (NTT-form input is refused); R-RNGPROV(rns): error and ternary samples "
                 "carry one small value in every RNS component.",
                 "that the reported number EQUALS the exactly computed budget, the fresh-encryption bound, the growth bounds "
                 "under negation / addition, exact decryption below the threshold — all value-level.")
    r_budget.run(facts, rep)
    r_budget.run_reach(facts, rep)
    r_powers.run(facts, rep, floor=2)
    ents = [p for p in facts.items if p.startswith("encryptor::Decryptor::") and facts.items[p].get("vis") == "pub"
            and "noise" in facts.items[p]["name"]]
    repstate(facts, rep, ents, 2)
    sub = Report("C07", tier, facts, "", "")
    r_rngprov.run_c16(facts, sub)
    for i in sub.instances:
        if "(rns)" in i["rule"]:
            rep.instances.append(i)
    rep.rules.update({k: v for k, v in sub.rules.items() if "(rns)" in k})
    return rep


CHECKS = {
    "C07": c07,
    "C19": c19,
    "C10": c10,
    "C01": c01,
    "C09": c09,
    "C02": c02,
    "C16": c16,
    "C13": c13,
    "C14": c14,
    "C18": c18,
    "C20": c20,
    "C04": c04,
    "C11": c11,
    "C12": c12,
    "C08": c08,
    "C03": c03,
    "C17": c17,
    "C06": c06,
    "C05": c05,
    "C15": c15,
}


def self_validation(pid, rep):
    """Thorough tier: re-run the quick check on scratch copies carrying each catalogued mutant / seeded change of this
    property (bin/mutants) and record the kill matrix in the evidence.  Informational: it never changes the verdict on
    the repository (a patch that no longer applies to an edited tree is skipped)."""
    import json
    import subprocess
    import tempfile
    if os.environ.get("HCHECK_REPO") or os.environ.get("HCHECK_NO_SELFVAL") == "1":
        return
    out = tempfile.NamedTemporaryFile(prefix="hcheck-selfval-", suffix=".json", delete=False)
    out.close()
    env = dict(os.environ, MUTANTS_OUT=out.name)
    try:
        subprocess.run([os.path.join(F.VERIF, "bin", "mutants"), pid, "--jobs", "8"], env=env, stdout=subprocess.DEVNULL,
                       stderr=subprocess.DEVNULL, timeout=3000)
        with open(out.name) as fh:
            res = json.load(fh)
    except Exception as e:  # noqa
        rep.note("self-validation did not run: %s" % e)
        return
    finally:
        try:
            os.unlink(out.name)
        except OSError:
            pass
    matrix = [{"mutant": r["id"], "expect": r["expect"], "result": r["result"], "key": r.get("detail", "")[:160]} for r in res]
    good = sum(1 for r in res if (r["expect"] == "kill" and r["result"] == "killed") or
               (r["expect"] == "silent" and r["result"] == "silent") or r["expect"] == "documented-miss")
    rep.extra["self_validation"] = {"mutants": len(res), "as_expected": good, "matrix": matrix}
    rep.note("self-validation: %d/%d catalogued mutants / seeded changes of %s behave as expected" % (good, len(res), pid))
    for r in res:
        if r["result"] in ("MISSED", "FALSE-ALARM", "killed-other-key"):
            rep.note("self-validation: %s -> %s %s" % (r["id"], r["result"], r.get("detail", "")[:120]))


def run(pid, tier, only_key=None):
    facts = F.load()
    rep = CHECKS[pid](facts, tier)
    if tier == "thorough" and not only_key:
        self_validation(pid, rep)
    if only_key:
        hits = [i for i in rep.instances if i["key"] == only_key]
        if not hits:
            print("replay: instance %s no longer exists on this tree" % only_key)
            return 0
        for i in hits:
            print("replay: %s %s [%s] %s" % (i["loc"], i["key"], i["verdict"], i["msg"]))
        return 1 if any(i["verdict"] == "violation" for i in hits) else 0
    return rep.finish()
