"""Slice de-aliasing view: locals that name a sub-slice of a buffer are read as ranges of that buffer.

    let (kept, rest) = input.split_at_mut(off);      kept  = input[0 .. off]      rest = input[off ..]
    let last = &mut rest[..n];                        last  = input[off .. off + n]
    let component = &mut kept[a..b];                  component = input[a .. b]

`dealiased(body)` returns a copy of the function body in which every USE of such a local is replaced by the `&(mut) root[start
.. end]` expression it denotes, and every index into one (`kept[i]`, `kept[a..b]`) by the index into the root shifted by the
alias's start.  Rules written for the manual-offset form (`&mut input[i*n..(i+1)*n]`) then read both forms alike.  Only
single-definition `let` aliases with resolvable bounds are rewritten; anything else is left as it is."""
import copy
from facts import walk, strip, local_of


def _plus(a, b):
    if a is None:
        return b
    if b is None:
        return a
    return {"k": "Bin", "op": "+", "a": a, "b": b}


def _range(start, end):
    fields = []
    path = "core::ops::Range"
    zero = {"k": "Lit", "v": "0"}
    fields.append({"name": "start", "e": start if start is not None else zero})
    if end is not None:
        fields.append({"name": "end", "e": end})
    else:
        path = "core::ops::RangeFrom"
    return {"k": "Struct", "path": path, "fields": fields}


def _range_parts(idx):
    idx = strip(idx)
    if idx.get("k") == "Struct" and "ops::Range" in idx.get("path", ""):
        d = {f["name"]: f["e"] for f in idx["fields"]}
        return d.get("start"), d.get("end"), True
    return None, None, False


def dealiased(body):
    body = copy.deepcopy(body)
    counts = {}
    for x in walk(body):
        if x.get("k") == "Let":
            for b in walk(x["pat"]):
                if b.get("k") == "PBind":
                    counts[b["lid"]] = counts.get(b["lid"], 0) + 1
        elif x.get("k") in ("Assign", "AssignOp"):
            lo = local_of(x["lhs"])
            if lo:
                counts[lo[0]] = counts.get(lo[0], 0) + 1
    alias = {}     # lid -> (root Path node, start expr | None, end expr | None, mut)

    def region(e, depth=0):
        """expression denoting a slice -> (root path node, start, end, mut) or None"""
        if depth > 6 or not isinstance(e, dict):
            return None
        mut = False
        while e.get("k") == "Ref":
            mut = mut or bool(e.get("mut"))
            e = e["e"]
        e0 = strip(e)
        if e0.get("k") == "Index":
            s, en, is_r = _range_parts(e0["i"])
            if not is_r:
                return None
            base = region(e0["e"], depth + 1)
            if base is None:
                return None
            root, bs, be, bm = base
            return root, _plus(bs, s), (_plus(bs, en) if en is not None else be), mut or bm
        if e0.get("k") == "Path" and e0.get("res") == "local":
            if e0["lid"] in alias:
                r = alias[e0["lid"]]
                return r[0], r[1], r[2], r[3] or mut
            return e0, None, None, mut
        return None

    for x in walk(body):
        if x.get("k") != "Let" or "init" not in x:
            continue
        pat, init = x["pat"], strip(x["init"])
        if pat.get("k") == "PTuple" and len(pat["ps"]) == 2 and init.get("k") == "MCall" and \
                init.get("name") in ("split_at", "split_at_mut") and len(init["args"]) == 1:
            base = region(init["recv"])
            if base is None or strip(init["recv"]).get("k") != "Path":
                continue
            root, bs, be, _ = base
            h, t = pat["ps"]
            m = init["name"] == "split_at_mut"
            off = init["args"][0]
            if h.get("k") == "PBind" and counts.get(h["lid"]) == 1:
                alias[h["lid"]] = (root, bs, _plus(bs, off), m)
            if t.get("k") == "PBind" and counts.get(t["lid"]) == 1:
                alias[t["lid"]] = (root, _plus(bs, off), be, m)
        elif pat.get("k") == "PBind" and counts.get(pat["lid"]) == 1 and x["init"].get("k") == "Ref":
            r = region(x["init"])
            if r is not None and strip(x["init"]).get("k") == "Index" and (r[0]["lid"] != pat["lid"]):
                # only sub-slices of a parameter / local buffer reached through an alias or a range
                alias[pat["lid"]] = r
    if not alias:
        return body

    def mk(use, r):
        root, s, e, m = r
        idx = {"k": "Index", "e": copy.deepcopy(root), "i": _range(copy.deepcopy(s), copy.deepcopy(e)),
               "l": use.get("l"), "c": use.get("c"), "id": use.get("id"), "t": use.get("t")}
        return {"k": "Ref", "mut": bool(m), "e": idx, "l": use.get("l"), "c": use.get("c"), "t": use.get("t")}

    def rw(n, in_pat=False):
        if isinstance(n, list):
            return [rw(y) for y in n]
        if not isinstance(n, dict):
            return n
        k = n.get("k")
        if k == "Index":
            b = strip(n["e"])
            if b.get("k") == "Path" and b.get("res") == "local" and b["lid"] in alias:
                root, s, e, m = alias[b["lid"]]
                st, en, is_r = _range_parts(n["i"])
                out = dict(n)
                out["e"] = copy.deepcopy(root)
                if is_r:
                    out["i"] = _range(_plus(copy.deepcopy(s), rw(st)), _plus(copy.deepcopy(s), rw(en)) if en is not None else copy.deepcopy(e))
                else:
                    out["i"] = _plus(copy.deepcopy(s), rw(n["i"]))
                return out
        if k == "Path" and n.get("res") == "local" and n["lid"] in alias:
            return mk(n, alias[n["lid"]])
        out = {}
        for kk, v in n.items():
            if kk == "pat":
                out[kk] = v
            elif isinstance(v, (dict, list)):
                out[kk] = rw(v)
            else:
                out[kk] = v
        return out
    return rw(body)
