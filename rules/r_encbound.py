"""R-ENCBOUND and R-INDEXPAIR — shape rules for the matmul / conv2d helpers (property C20).

R-ENCBOUND [N]: helper structs keep, per tensor dimension, a global extent and a block extent chosen by
  the constructor so that the product of the block extents fits the slot count.  The length of a buffer
  handed to an encoder (`encode_polynomial*`, `encode_new`, `encode_f64_polynomial*`) must not have the
  GLOBAL counterpart of a block dimension as a multiplicative factor: such a length grows with the unsplit
  dimension, so for every shape the helper splits it exceeds the slot count and the encoder refuses.
  Global/block pairs are read off the struct definition (`X_block` with `X`, `Xs`, `X_size`, `X_dims`).

R-INDEXPAIR [N] (sibling agreement): the `_bfv` and `_ckks` twins of a helper method implement one
  layout; their integer skeletons — loop ranges, integer lets, index expressions of every indexed store
  and load — must be identical after normalising literals and encoder calls.  If they differ, one of the
  two places data where the other does not expect it.
"""
import re
from facts import walk, callee, strip, local_of, Defs, root_local

ENCODERS = ("encode_polynomial_new", "encode_polynomial", "encode_new", "encode", "encode_f64_polynomial_new",
            "encode_f64_polynomial", "encode_c64_array_new", "encode_c64_array")


def block_pairs(facts, tpath):
    t = facts.types.get(tpath)
    if not t:
        return {}
    names = [f["name"] for v in t["variants"] for f in v["fields"]]
    pairs = {}
    for n in names:
        if n.endswith("_block"):
            stem = n[:-len("_block")]
            for cand in (stem, stem + "s", stem + "_size", stem + "_dims", stem + "_dim", stem + "_count"):
                if cand in names:
                    pairs[cand] = n
    return pairs


def factors(e, defs, depth=0):
    """Multiplicative factors of an integer expression, expanding local lets."""
    e = strip(e)
    k = e.get("k")
    if k == "Bin" and e.get("op") == "*":
        return factors(e["a"], defs, depth) + factors(e["b"], defs, depth)
    if k == "Cast":
        return factors(e["e"], defs, depth)
    if k == "Path" and e.get("res") == "local" and depth < 6:
        ds = defs.defs.get(e["lid"], [])
        if len(ds) == 1:
            return factors(ds[0], defs, depth + 1)
    return [e]


def _alloc_len(arg, defs):
    """Length expression of the buffer passed as `arg` (vec![c; n] allocation reached through local defs)."""
    for x in defs.closure(arg):
        if x.get("k") == "Call":
            f = callee(x)
            if f and f["name"] == "from_elem" and len(x["args"]) == 2:
                return x["args"][1]
    return None


def run_encbound(facts, rep, helper_types):
    rep.rule("R-ENCBOUND", "the length of a buffer handed to an encoder has no global counterpart of a block dimension "
             "as a multiplicative factor")
    n_sites = 0
    for tpath in helper_types:
        pairs = block_pairs(facts, tpath)
        rep.extra.setdefault("block_pairs", {})[tpath] = pairs
        for p in sorted(facts.methods_of(tpath)):
            body = facts.hir[p]
            defs = Defs(body)
            idx = 0
            for x in walk(body):
                f = callee(x)
                if not f or f["name"] not in ENCODERS or x.get("k") != "MCall":
                    continue
                st = f.get("self", "")
                if "Encoder" not in st and "Encoder" not in f["def"]:
                    continue
                if not x["args"]:
                    continue
                n_sites += 1
                rep.fn(p)
                key = "%s/%s#%d" % (p, f["name"], idx)
                idx += 1
                ln = _alloc_len(x["args"][0], defs)
                if ln is None:
                    rep.ok("R-ENCBOUND", key, "buffer is not a locally sized allocation (passed through)", facts.loc(p, x),
                           nontrivial=False)
                    continue
                fs = factors(ln, defs)
                names = []
                for fe in fs:
                    fe = strip(fe)
                    if fe.get("k") == "Field":
                        names.append(fe["name"])
                    elif fe.get("k") == "Path":
                        names.append(fe.get("name", "?"))
                    else:
                        names.append("<expr>")
                bad = [nme for nme in names if nme in pairs]
                if bad:
                    rep.violation("R-ENCBOUND", key,
                                  "the buffer encoded here has length %s: `%s` is the GLOBAL extent whose block "
                                  "counterpart is `%s`; for every shape the helper splits along that dimension the length "
                                  "exceeds the slot count and the encoder refuses (panics)" %
                                  (" * ".join(names), bad[0], pairs[bad[0]]), facts.loc(p, x))
                else:
                    rep.ok("R-ENCBOUND", key, "encoded buffer length = %s (block extents / slot count only)" %
                           " * ".join(names), facts.loc(p, x), sample={"method": p, "length": names})
    return n_sites


# ------------------------------------------------------------------------------------------- twins
def render(e):
    e = strip(e) if isinstance(e, dict) else e
    if not isinstance(e, dict):
        return "?"
    k = e.get("k")
    if k == "Path":
        return e.get("name") or e.get("def", "?").rsplit("::", 1)[-1]
    if k == "Field":
        return render(e["e"]) + "." + e["name"]
    if k == "Lit":
        v = e.get("v", "")
        v = re.sub(r"(_?(f64|f32|u64|usize|i64|u32|i32|u8))$", "", v)
        if re.match(r"^\d+\.0*$", v):
            v = v.split(".")[0]
        return v
    if k == "Bin":
        if e["op"] in ("*", "+"):
            return "(%s)" % (" %s " % e["op"]).join(sorted(_flat(e, e["op"], render)))
        return "(%s %s %s)" % (render(e["a"]), e["op"], render(e["b"]))
    if k == "Un":
        return "%s%s" % (e["op"], render(e["e"]))
    if k == "Cast":
        return render(e["e"])
    if k == "Index":
        return "%s[%s]" % (render(e["e"]), render(e["i"]))
    if k == "MCall":
        return "%s.%s(%s)" % (render(e["recv"]), e["name"], ",".join(render(a) for a in e["args"]))
    if k == "Call":
        f = callee(e)
        return "%s(%s)" % (f["name"] if f else (e.get("ctor", "?").rsplit("::", 1)[-1]), ",".join(render(a) for a in e["args"]))
    if k == "Struct":
        return "{%s}" % ",".join("%s:%s" % (f["name"], render(f["e"])) for f in e["fields"])
    if k == "Block" and e.get("expr") and not e.get("stmts"):
        return render(e["expr"])
    if k == "If":
        return "if %s {%s} else {%s}" % (render(e["c"]), render(e["th"]), render(e.get("el")) if e.get("el") else "")
    if k == "Macro":
        return "%s!(%s)" % (e["name"], ",".join(render(a) for a in e["args"]))
    return "<%s>" % k


def _flat(e, op, rfn):
    """Operands of a maximal chain of the commutative operator `op`, rendered."""
    e = strip(e) if isinstance(e, dict) else e
    if isinstance(e, dict) and e.get("k") == "Bin" and e.get("op") == op:
        return _flat(e["a"], op, rfn) + _flat(e["b"], op, rfn)
    return [rfn(e)]


INT_TYS = ("usize", "u64", "isize", "i64", "u32", "i32")


def skeleton(facts, body):
    """Integer skeleton of a method: loop headers, integer lets, indexed stores/loads (positions of data)."""
    out = []
    # integer lets matter only when they (transitively) feed a loop header or an index expression
    lets = {x["pat"]["lid"]: x for x in walk(body, into_closures=True)
            if x.get("k") == "Let" and "init" in x and x["pat"].get("k") == "PBind"}
    live = set()
    work = []
    for x in walk(body, into_closures=True):
        k = x.get("k")
        if k == "For":
            work.append(x["iter"])
        elif k == "While":
            work.append(x["c"])
        elif k == "Index":
            work.append(x["i"])
        elif k == "AssignOp" and facts.ty(x["lhs"]) in INT_TYS:
            work.append(x["lhs"])
            work.append(x["rhs"])
    while work:
        e = work.pop()
        for y in walk(e):
            if y.get("k") == "Path" and y.get("res") == "local" and y["lid"] not in live:
                live.add(y["lid"])
                if y["lid"] in lets:
                    work.append(lets[y["lid"]]["init"])
    for x in walk(body, into_closures=True):
        k = x.get("k")
        if k == "Let" and x.get("pat", {}).get("k") == "PBind" and x["pat"]["lid"] not in live:
            continue
        if k == "For":
            out.append("for %s in %s" % (render_pat(x["pat"]), render(x["iter"])))
        elif k == "While":
            out.append("while %s" % render(x["c"]))
        elif k == "Let" and "init" in x and x["pat"].get("k") == "PBind":
            t = facts.strs[x["pat"]["t"]]
            if t in INT_TYS:
                out.append("let %s = %s" % (x["pat"]["name"], render(x["init"])))
        elif k in ("Assign", "AssignOp"):
            lhs = x["lhs"]
            if lhs.get("k") == "Index" or (k == "AssignOp" and facts.ty(lhs) in INT_TYS):
                rhs = strip(x["rhs"])
                r = render(rhs) if (rhs.get("k") in ("Index",) or facts.ty(rhs) in INT_TYS) else "<value>"
                out.append("%s %s= %s" % (render(lhs), x.get("op", "") if k == "AssignOp" else "", r))
    return out


def render_pat(p):
    k = p.get("k")
    if k == "PBind":
        return p["name"]
    if k == "PTuple":
        return "(%s)" % ",".join(render_pat(q) for q in p["ps"])
    if k == "PWild":
        return "_"
    return "<pat>"


def run_twins(facts, rep, helper_types):
    rep.rule("R-INDEXPAIR", "the _bfv and _ckks twins of a helper method have identical integer skeletons (loop ranges, "
             "integer lets, index expressions of stores and loads)")
    n = 0
    for tpath in helper_types:
        ms = {facts.items[p]["name"]: p for p in facts.methods_of(tpath)}
        for name, p in sorted(ms.items()):
            if not name.endswith("_bfv"):
                continue
            twin = ms.get(name[:-4] + "_ckks")
            if not twin:
                continue
            n += 1
            rep.fn(p)
            rep.fn(twin)
            a, b = skeleton(facts, facts.hir[p]), skeleton(facts, facts.hir[twin])
            key = "%s/%s" % (tpath, name[:-4])
            diff = None
            for i in range(max(len(a), len(b))):
                xa = a[i] if i < len(a) else "<missing>"
                xb = b[i] if i < len(b) else "<missing>"
                if xa != xb:
                    diff = (i, xa, xb)
                    break
            if diff is None:
                rep.ok("R-INDEXPAIR", key, "twins agree on all %d skeleton entries" % len(a), facts.loc(p),
                       sample={"bfv": p, "ckks": twin, "entries": len(a), "first": a[:3]})
            else:
                rep.violation("R-INDEXPAIR", key,
                              "the twins disagree at skeleton entry %d: %s has `%s`, %s has `%s` — the two schemes place "
                              "or read data at different positions for the same layout" %
                              (diff[0], facts.items[p]["name"], diff[1], facts.items[twin]["name"], diff[2]),
                              facts.loc(twin))
    return n


def _expand(e, defs, loopvars, depth=0):
    """Render with single-definition integer locals expanded (loop variables stay symbolic)."""
    e = strip(e) if isinstance(e, dict) else e
    if not isinstance(e, dict):
        return "?"
    k = e.get("k")
    if k == "Path" and e.get("res") == "local" and e["lid"] not in loopvars and depth < 6:
        ds = defs.defs.get(e["lid"], [])
        if len(ds) == 1:
            return _expand(ds[0], defs, loopvars, depth + 1)
        return e.get("name", "?")
    if k == "Bin":
        if e["op"] in ("*", "+"):
            return "(%s)" % (" %s " % e["op"]).join(sorted(_flat(e, e["op"], lambda x: _expand(x, defs, loopvars, depth))))
        return "(%s %s %s)" % (_expand(e["a"], defs, loopvars, depth), e["op"], _expand(e["b"], defs, loopvars, depth))
    if k == "Cast":
        return _expand(e["e"], defs, loopvars, depth)
    if k == "Index":
        return "%s[%s]" % (_expand(e["e"], defs, loopvars, depth), _expand(e["i"], defs, loopvars, depth))
    if k == "MCall":
        return "%s.%s(%s)" % (_expand(e["recv"], defs, loopvars, depth), e["name"],
                              ",".join(_expand(a, defs, loopvars, depth) for a in e["args"]))
    if k == "Call":
        f = callee(e)
        return "%s(%s)" % (f["name"] if f else "?", ",".join(_expand(a, defs, loopvars, depth) for a in e["args"]))
    return render(e)


def _transfer_pairs(facts, body):
    """(index into the packed/encoded buffer, index into the flat tensor) of every element copy."""
    defs = Defs(body)
    loopvars = set()
    for x in walk(body):
        if x.get("k") == "For":
            for y in walk(x["pat"]):
                if y.get("k") == "PBind":
                    loopvars.add(y["lid"])
    # while-loop counters (assigned more than once) stay symbolic as well
    for lid, ds in defs.defs.items():
        if len(ds) > 1:
            loopvars.add(lid)
    out = []
    for x in walk(body):
        if x.get("k") == "Assign" and x["lhs"].get("k") == "Index":
            rhs = strip(x["rhs"])
            if rhs.get("k") == "Index":
                out.append((x["lhs"], rhs, defs, loopvars))
    return out


def run_inverse(facts, rep, types_strict):
    rep.rule("R-INDEXPAIR(inv)", "output re-encoding stores tensor cell d at packed position p exactly where output "
             "decoding loads cell d from position p (same index expressions after expanding local definitions)")
    n = 0
    for tpath in types_strict:
        ms = {facts.items[p]["name"]: p for p in facts.methods_of(tpath)}
        for suffix in ("_bfv", "_ckks", ""):
            enc = ms.get("encode_outputs" + suffix)
            dec = ms.get("decrypt_outputs" + suffix) or ms.get("decode_outputs" + suffix)
            if not enc or not dec:
                continue
            n += 1
            rep.fn(enc)
            rep.fn(dec)
            pe = set()
            for lhs, rhs, defs, lv in _transfer_pairs(facts, facts.hir[enc]):
                pe.add((_expand(lhs["i"], defs, lv), _expand(rhs["i"], defs, lv)))       # (packed, flat)
            pd = set()
            for lhs, rhs, defs, lv in _transfer_pairs(facts, facts.hir[dec]):
                pd.add((_expand(rhs["i"], defs, lv), _expand(lhs["i"], defs, lv)))       # (packed, flat)
            key = "%s/outputs%s" % (tpath, suffix)
            if pe and pe == pd:
                rep.ok("R-INDEXPAIR(inv)", key, "encode_outputs and decode agree on all %d (packed, flat) index pair(s)" %
                       len(pe), facts.loc(enc), sample={"pairs": sorted(pe)[:2]})
            elif not pe or not pd:
                rep.unresolved("R-INDEXPAIR(inv)", key, "no element-copy pattern recognised", facts.loc(enc))
            else:
                only_e = sorted(pe - pd)[:1]
                only_d = sorted(pd - pe)[:1]
                rep.violation("R-INDEXPAIR(inv)", key,
                              "output re-encoding and output decoding disagree on where a tensor cell lives: encode has "
                              "%s, decode has %s — re-encoding is not the inverse of decoding" % (only_e, only_d),
                              facts.loc(dec))
    return n
