"""R-RANGE — k*q interval abstract interpretation of the NTT core (property C09).

Abstract domain: a 64-bit word is known to lie in [lo*q, hi*q) for a symbolic modulus q with
2 <= q < 2^61 (HE_MOD_BIT_COUNT_MAX), lo/hi small integers (or unknown).  8*q <= 2^64, so a sum is
overflow-free iff its upper multiple is <= 8; a difference x - y is underflow-free iff lo(x) >= hi(y).
The engine interprets the SOURCE of
   ModArithLazy::{add, sub, mul_root, mul_scalar, guard}        (summaries derived from their bodies)
   DWTHandler::{transform_to_rev, transform_from_rev}             (butterfly loop bodies, generic over the
                                                                   arithmetic; trait calls are bound to the
                                                                   ModArithLazy summaries)
   NTTTables::{ntt,inverse_ntt}_negacyclic_harvey{,_lazy}         (epilogues)
with `multiply_u64operand_mod_lazy: any -> [0, 2q)` as the only external fact (its documented contract).
Obligations [N]: the butterfly invariant is inductive (a fixpoint <= 8q exists from canonical and from the
documented lazy input range), no addition can exceed 2^64, no subtraction can underflow, the non-lazy
forms end in [0, q), the lazy forms inside their documented output range (forward 4q, inverse 2q).
"""
import re
from facts import walk, callee, strip, local_of

TOP = None          # unknown range
MAXK = 8


class Obl:
    def __init__(self):
        self.bad = []
        self.unknown = []      # constructs the interpreter does not model (=> `unresolved`, never an alarm)

    def fail(self, msg, node):
        self.bad.append((msg, node))

    def unmodelled(self, what, node):
        self.unknown.append((what, node))


# A range is (lo, hi, incl): lo*q <= value, and value < hi*q (incl False) or value <= hi*q (incl True).
def R(lo, hi, incl=False):
    return (lo, hi, incl)


def within(x, k):
    """value < k*q ?"""
    return x is not TOP and (x[1] < k or (x[1] == k and not x[2]))


def show_r(x):
    if x is TOP:
        return "unknown"
    return "[%dq, %dq%s" % (x[0], x[1], "]" if x[2] else ")")


def join_r(parts):
    parts = [p for p in parts if p is not TOP]
    if not parts:
        return TOP
    hi = max(p[1] for p in parts)
    return (min(p[0] for p in parts), hi, any(p[2] for p in parts if p[1] == hi))


def add(x, y, ob, node, what="+"):
    if x is TOP or y is TOP:
        return TOP
    hi = x[1] + y[1]
    if hi > MAXK:
        ob.fail("addition can reach %d*q >= 2^64 for q near 2^61: wrap-around" % hi, node)
        return TOP
    return (x[0] + y[0], hi, x[2] and y[2])


def sub(x, y, ob, node):
    if x is TOP or y is TOP:
        return TOP
    if x[0] < y[1]:
        ob.fail("subtraction may underflow: minuend >= %d*q but subtrahend can reach %d*q" % (x[0], y[1]), node)
        return TOP
    return (max(0, x[0] - y[1]), x[1] - y[0], x[2])


def cond_sub(x, c, strict):
    """if x >= c*q (or x > c*q when strict) { x - c*q } else { x }"""
    if x is TOP:
        return TOP
    lo, hi, incl = x
    parts = []
    then_reach = hi > c or (hi == c and incl and not strict)
    if then_reach:
        parts.append((max(lo, c) - c, hi - c, incl))
    if lo < c or (lo == c and strict):
        if hi > c or (hi == c and incl):
            parts.append((lo, c, strict))          # else-branch: x < c  (or x <= c when strict)
        else:
            parts.append((lo, hi, incl))
    return join_r(parts)


def place_key(e):
    """key of an element place: a local (through refs/derefs) or `base[i]` of a local slice (one abstract element)"""
    e = strip(e)
    lo = local_of(e)
    if lo:
        return lo[0]
    if isinstance(e, dict) and e.get("k") == "Index":
        b = local_of(e["e"])
        if b:
            return ("idx", b[0])
    return None


class RangeInterp:
    """Abstract evaluator for the small arithmetic functions of the transform core."""

    def __init__(self, facts, consts=None):
        self.facts = facts
        self.consts = consts or {}        # lid -> exact multiple of q (helper locals of an enclosing function)

    def const_of(self, e, env=None):
        """exact multiple of q denoted by an expression (self.two_times_modulus -> 2, modulus.value() -> 1, c << 1, 0,
        a local bound to one of these)"""
        e = strip(e)
        k = e.get("k")
        if k == "Cast":
            return self.const_of(e["e"], env)
        if k == "Field" and e.get("name") == "two_times_modulus":
            return 2
        if k == "Lit" and re.sub(r"_?(u64|usize|u32|i64)$", "", str(e.get("v", ""))) == "0":
            return 0
        if k == "Path" and e.get("res") == "local":
            if e["lid"] in self.consts:
                return self.consts[e["lid"]]
            if env is not None:
                r = env.get(e["lid"])
                if isinstance(r, tuple) and len(r) == 3 and r[0] == r[1] and r[2]:
                    return r[0]
            return None
        if k == "MCall" and e.get("name") == "value" and not e["args"]:
            return 1
        if k == "Bin" and e.get("op") == "<<":
            c = self.const_of(e["a"], env)
            sh = strip(e["b"])
            if c is not None and sh.get("k") == "Lit" and str(sh.get("v", "")).split("_")[0].isdigit():
                return c << int(str(sh["v"]).split("_")[0])
        if k == "Bin" and e.get("op") == "*":
            for x, y in ((e["a"], e["b"]), (e["b"], e["a"])):
                c = self.const_of(x, env)
                l = strip(y)
                if c is not None and l.get("k") == "Lit" and str(l.get("v", "")).split("_")[0].isdigit():
                    return c * int(str(l["v"]).split("_")[0])
        return None

    # -------------------------------------------------------------- conditions, masks, conditional amounts
    NEG = {"lt": "ge", "ge": "lt", "gt": "le", "le": "gt"}
    OPS = {"<": "lt", ">=": "ge", ">": "gt", "<=": "le"}

    def cond_of(self, e, env):
        """comparison -> (rel, A, B)"""
        e = strip(e)
        if e.get("k") == "Cast":
            return self.cond_of(e["e"], env)
        if e.get("k") == "Bin" and e.get("op") in self.OPS:
            return (self.OPS[e["op"]], e["a"], e["b"])
        if e.get("k") == "Un" and e.get("op") == "!":
            c = self.cond_of(e["e"], env)
            return (self.NEG[c[0]], c[1], c[2]) if c else None
        if e.get("k") == "Path" and e.get("res") == "local" and isinstance(env.get(("cond", e["lid"])), tuple):
            return env[("cond", e["lid"])]
        return None

    def mask_of(self, e, env):
        """all-ones-iff-condition masks:
           ((A.wrapping_sub(B) as i64) >> 63) as u64          -> A < B   (magnitudes below 2^63)
           0u64.wrapping_sub((cond) as u64) / (cond as u64).wrapping_neg()  -> cond
           !mask                                               -> negation"""
        e = strip(e)
        k = e.get("k")
        if k == "Cast":
            return self.mask_of(e["e"], env)
        if k == "Bin" and e.get("op") == ">>" and strip(e["b"]).get("v", "").split("_")[0] == "63":
            inner = strip(e["a"])
            while inner.get("k") == "Cast":
                inner = strip(inner["e"])
            if inner.get("k") == "MCall" and inner.get("name") == "wrapping_sub" and inner["args"]:
                return ("lt", inner["recv"], inner["args"][0])
        if k == "MCall" and e.get("name") == "wrapping_sub" and e["args"] and self.const_of(e["recv"]) == 0:
            return self.cond_of(e["args"][0], env)
        if k == "MCall" and e.get("name") == "wrapping_neg" and not e["args"]:
            return self.cond_of(e["recv"], env)
        if k == "Path" and e.get("res") == "local" and isinstance(env.get(("mask", e["lid"])), tuple):
            return env[("mask", e["lid"])]
        if k == "Un" and e.get("op") == "!":
            m = self.mask_of(e["e"], env)
            if m:
                return (self.NEG[m[0]], m[1], m[2])
        return None

    def cond_amount(self, e, env):
        """an amount that is C under a condition and 0 otherwise:  C & mask | if cond {C} else {0} | if cond {0} else {C}
           | (cond as u64) * C     ->  (C, (rel, A, B))"""
        e = strip(e)
        k = e.get("k")
        if k == "Bin" and e.get("op") == "&":
            for c_e, m_e in ((e["a"], e["b"]), (e["b"], e["a"])):
                c = self.const_of(c_e, env)
                m = self.mask_of(m_e, env)
                if c is not None and m is not None:
                    return c, m
        if k == "Bin" and e.get("op") == "*":
            for c_e, m_e in ((e["a"], e["b"]), (e["b"], e["a"])):
                c = self.const_of(c_e, env)
                m = self.cond_of(m_e, env) if strip(m_e).get("k") == "Cast" else None
                if c is not None and m is not None:
                    return c, m
        if k == "If" and e.get("el") is not None:
            cd = self.cond_of(e["c"], env)
            t, f = self.const_of(e["th"], env), self.const_of(e["el"], env)
            if cd and t is not None and f == 0 and t != 0:
                return t, cd
            if cd and f is not None and t == 0 and f != 0:
                return f, (self.NEG[cd[0]], cd[1], cd[2])
        return None

    def as_cond_sub(self, x_expr, amount, env):
        """X - amount where amount is C exactly when X >= C (-> False) or X > C (-> True, strict); None if the amount is
        not conditional, 'other' if it is conditional on something else"""
        ca = self.cond_amount(amount, env)
        if ca is None:
            return None
        C, (rel, A, B) = ca
        px = place_key(x_expr)
        if px is not None and place_key(A) == px and self.const_of(B, env) == C and rel in ("ge", "gt"):
            return C, rel == "gt"
        if px is not None and place_key(B) == px and self.const_of(A, env) == C and rel in ("le", "lt"):
            return C, rel == "lt"
        return "other"

    def bind_let(self, s, env, ob, arith):
        lid = s["pat"]["lid"]
        m = self.mask_of(s["init"], env)
        if m is not None:
            env[("mask", lid)] = m
            return
        if self.facts.ty(s["pat"]) == "bool" and self.cond_of(s["init"], env) is not None:
            env[("cond", lid)] = self.cond_of(s["init"], env)
            return
        env[lid] = self.ev(s["init"], env, ob, arith)

    # -------------------------------------------------------------- expressions
    def ev(self, e, env, ob, arith=None):
        e = strip(e)
        k = e.get("k")
        c = self.const_of(e, env)
        if c is not None:
            return (c, c, True)
        if k == "Path" and e.get("res") == "local":
            return env.get(e["lid"], TOP)
        if k == "Index" and place_key(e) is not None:
            return env.get(place_key(e), TOP)
        if k == "Block":
            env2 = dict(env)
            for s in e.get("stmts", []):
                if s.get("k") == "Let" and s["pat"].get("k") == "PBind" and "init" in s:
                    self.bind_let(s, env2, ob, arith)
                elif s.get("k") in ("Semi", "Expr"):
                    self.exec(s["e"], env2, ob, arith)
            return self.ev(e["expr"], env2, ob, arith) if e.get("expr") else TOP
        if k == "Bin":
            op = e["op"]
            if op == "-":
                cs = self.as_cond_sub(e["a"], e["b"], env)
                if cs == "other":
                    ob.unmodelled("subtraction of an amount conditional on something other than the subtracted value "
                                  "compared with that amount", e)
                    return TOP
                if cs is not None:
                    x = self.ev(e["a"], env, ob, arith)
                    return TOP if x is TOP else cond_sub(x, cs[0], cs[1])
            if op in ("+", "-"):
                a = self.ev(e["a"], env, ob, arith)
                b = self.ev(e["b"], env, ob, arith)
                return add(a, b, ob, e) if op == "+" else sub(a, b, ob, e)
            ob.unmodelled("operator %s" % op, e)
            return TOP
        if k == "If":
            cd = self.cond_of(e["c"], env)
            if cd is not None and cd[0] in ("ge", "gt"):
                x = self.ev(cd[1], env, ob, arith)
                C = self.const_of(cd[2], env)
                if C is not None and x is not TOP:
                    strict = cd[0] == "gt"
                    lo, hi, incl = x
                    parts = []
                    if hi > C or (hi == C and incl and not strict):
                        t = self.ev(e["th"], self._refined(env, cd[1], (max(lo, C), hi, incl)), ob, arith)
                        if t is TOP:
                            return TOP
                        parts.append(t)
                    if lo < C or (lo == C and strict):
                        rng = (lo, C, strict) if (hi > C or (hi == C and incl)) else (lo, hi, incl)
                        el = self.ev(e["el"], self._refined(env, cd[1], rng), ob, arith) if e.get("el") else rng
                        if el is TOP:
                            return TOP
                        parts.append(el)
                    return join_r(parts)
            ob.unmodelled("conditional of an unmodelled form", e)
            return TOP
        if k in ("Call", "MCall"):
            f = callee(e)
            name = f["name"] if f else e.get("name")
            if name == "multiply_u64operand_mod_lazy":
                return (0, 2, False)
            if name in ("multiply_u64operand_mod", "barrett_reduce_u64", "reduce"):
                return (0, 1, False)
            if arith is not None and name in arith and e.get("k") == "MCall":
                args = [self.ev(a, env, ob, arith) for a in e["args"]]
                return arith[name](args, ob, e)
            if self.helper_of(e) is not None:
                return self.inline(e, env, ob, arith)
            ob.unmodelled("call to %s" % name, e)
            return TOP
        ob.unmodelled("expression kind %s" % k, e)
        return TOP

    def _checked_cond_sub(self, x, C, strict, ob, node):
        if x is TOP:
            return TOP
        return cond_sub(x, C, strict)

    def _refined(self, env, var_expr, rng):
        lo = local_of(var_expr)
        if lo is None or rng is TOP:
            return env
        env = dict(env)
        env[lo[0]] = rng
        return env

    def helper_of(self, e):
        """(path, params, body) of a crate-local, non-Arithmetic helper called by e (a butterfly extracted into a fn)"""
        if e.get("k") not in ("Call", "MCall"):
            return None
        f = callee(e)
        if not f or not f.get("local"):
            return None
        d = f.get("inst") if f.get("inst") in self.facts.hir else f["def"]
        it = self.facts.items.get(d)
        if d not in self.facts.hir or not it or it.get("impl_trait"):
            return None
        return d, it["params"], self.facts.hir[d]

    def inline(self, e, env, ob, arith, depth=0):
        """execute a local helper on the caller's places: parameters bound to the values of the argument places,
        `&mut` parameters copied back.  -> value of the helper's body"""
        h = self.helper_of(e)
        if h is None or depth > 2:
            ob.unmodelled("call to %s" % ((callee(e) or {}).get("name") or e.get("name")), e)
            return TOP
        d, params, body = h
        args = ([e["recv"]] if e["k"] == "MCall" else []) + e["args"]
        env2 = {}
        back = []
        for prm, a in zip(params, args):
            if prm["pat"].get("k") != "PBind":
                continue
            lid = prm["pat"]["lid"]
            c = self.const_of(a)
            pk = place_key(a)
            if c is not None:
                env2[lid] = (c, c, True)
            elif pk is not None and pk in env:
                env2[lid] = env[pk]
                if prm.get("ty", "").startswith("&mut"):
                    back.append((lid, pk))
        r = self.ev(body, env2, ob, arith) if self.facts.items[d].get("ret") not in (None, "", "()") else None
        if r is None:
            self.exec(body, env2, ob, arith)
        for lid, pk in back:
            env[pk] = env2.get(lid, TOP)
        return r if r is not None else TOP

    def exec(self, e, env, ob, arith):
        """statement level: `*x = ...`, `*x -= C` under `if *x >= C`, lets, blocks."""
        e = strip(e)
        k = e.get("k")
        if k in ("Call", "MCall") and self.helper_of(e) is not None:
            self.inline(e, env, ob, arith)
            return
        if k == "Assign":
            pk = place_key(e["lhs"])
            if pk is not None:
                env[pk] = self.ev(e["rhs"], env, ob, arith)
        elif k == "AssignOp" and e.get("op", "").startswith("-"):
            pk = place_key(e["lhs"])
            if pk is not None:
                cs = self.as_cond_sub(e["lhs"], e["rhs"], env)
                x = env.get(pk, TOP)
                if cs == "other":
                    ob.unmodelled("subtraction of an amount conditional on something other than the subtracted value "
                                  "compared with that amount", e)
                    env[pk] = TOP
                elif cs is not None:
                    env[pk] = TOP if x is TOP else cond_sub(x, cs[0], cs[1])
                else:
                    env[pk] = sub(x, self.ev(e["rhs"], env, ob, arith), ob, e)
        elif k == "If":
            cd = self.cond_of(e["c"], env)
            pk = place_key(cd[1]) if cd else None
            C = self.const_of(cd[2], env) if cd else None
            if cd and cd[0] in ("ge", "gt") and not e.get("el") and pk is not None and C is not None:
                x = env.get(pk, TOP)
                if x is TOP:
                    return
                strict = cd[0] == "gt"
                l, h, incl = x
                parts = []
                if h > C or (h == C and incl and not strict):
                    env_t = dict(env)
                    env_t[pk] = (max(l, C), h, incl)
                    self.exec(e["th"], env_t, ob, arith)
                    parts.append(env_t[pk])
                if l < C or (l == C and strict):
                    parts.append((l, C, strict) if (h > C or (h == C and incl)) else (l, h, incl))
                env[pk] = join_r(parts)
            else:
                ob.unmodelled("conditional statement of an unmodelled form", e)
        elif k == "Block":
            for s in e.get("stmts", []):
                if s.get("k") == "Let" and s["pat"].get("k") == "PBind" and "init" in s:
                    self.bind_let(s, env, ob, arith)
                elif s.get("k") in ("Semi", "Expr"):
                    self.exec(s["e"], env, ob, arith)
            if e.get("expr"):
                self.exec(e["expr"], env, ob, arith)
        elif k in ("Call", "MCall", "AssignOp", "Match", "Loop", "While", "For"):
            ob.unmodelled("statement kind %s" % k, e)


def element_body(body):
    """(element binding lid, body) of the per-element epilogue of a non-lazy wrapper: the last
    `x.iter_mut().for_each(|x| ..)` closure or `for x in x.iter_mut() {..}` loop"""
    cands = []
    for x in walk(body):
        if x.get("k") == "Closure" and x.get("params") and x["params"][0].get("k") == "PBind":
            cands.append(((x.get("l", 0), x.get("c", 0)), x["params"][0]["lid"], x["body"]))
        if x.get("k") == "For" and x["pat"].get("k") == "PBind" and \
                any(y.get("k") == "MCall" and y.get("name") == "iter_mut" for y in walk(x["iter"])):
            cands.append(((x.get("l", 0), x.get("c", 0)), x["pat"]["lid"], x["body"]))
    if not cands:
        return None, None
    cands.sort(key=lambda t: t[0])
    return cands[-1][1], cands[-1][2]


def arith_summaries(facts, interp, rep, Rn):
    """name -> function(args, ob, node) for ModArithLazy's Arithmetic impl, derived from the impl bodies."""
    out = {}
    for nm in ("add", "sub", "mul_root", "mul_scalar", "guard"):
        cands = [p for p in facts.items if p.endswith("::" + nm) and "ModArithLazy" in facts.items[p].get("impl_self", "")
                 and "Arithmetic" in facts.items[p].get("impl_trait", "")]
        if not rep.anchor(Rn, "ModArithLazy::" + nm, bool(cands)):
            continue
        p = cands[0]
        it = facts.items[p]
        body = facts.hir[p]
        plids = [pp["pat"]["lid"] for pp in it["params"] if pp["pat"].get("k") == "PBind"]

        def fn(args, ob, node, body=body, plids=plids, nm=nm):
            env = {}
            for lid, a in zip(plids[1:], args):
                env[lid] = a
            sub_ob = Obl()
            r = interp.ev(body, env, sub_ob)
            for msg, n2 in sub_ob.bad:
                ob.fail("in ModArithLazy::%s (line %s): %s" % (nm, n2.get("l"), msg), node)
            for msg, n2 in sub_ob.unknown:
                ob.unmodelled("ModArithLazy::%s line %s: %s" % (nm, n2.get("l"), msg), node)
            return r
        out[nm] = fn
    return out


def butterfly(facts, interp, arith, fpath, start, rep, Rn):
    """Least inductive bound of the butterfly body of a DWTHandler transform from element range `start`.
    -> (range or None, trace, failed obligations, unmodelled constructs, loop node)"""
    body = facts.hir[fpath]
    # the butterfly loop: the innermost `for` whose body stores to element places and calls the arithmetic's add and sub
    loops = []
    for x in walk(body):
        if x.get("k") != "For":
            continue
        names = {y.get("name") for y in walk(x["body"]) if y.get("k") == "MCall"}
        stores = [place_key(y["lhs"]) for y in walk(x["body"]) if y.get("k") == "Assign" and place_key(y["lhs"]) is not None]
        for y in walk(x["body"]):
            h = interp.helper_of(y) if y.get("k") in ("Call", "MCall") else None
            if h is not None:
                names |= {z.get("name") for z in walk(h[2]) if z.get("k") == "MCall"}
                args = ([y["recv"]] if y["k"] == "MCall" else []) + y["args"]
                for prm, a in zip(h[1], args):
                    if prm.get("ty", "").startswith("&mut") and place_key(a) is not None:
                        stores.append(place_key(a))
        inner = any(y.get("k") == "For" for y in walk(x["body"]))
        if {"add", "sub"} <= names and stores and not inner:
            loops.append((x, stores))
    if not rep.anchor(Rn, fpath + "/butterfly", bool(loops)):
        return None, [], [], [], None
    L, stores = loops[0]
    places = []
    for pk in stores:
        if pk not in places:
            places.append(pk)
    if len(places) != 2:
        return None, [], [], [("the butterfly loop stores to %d element places, expected 2" % len(places), L)], L
    xl, yl = places
    cur = start
    trace = []
    for _ in range(12):
        ob = Obl()
        env = {xl: cur, yl: cur}
        interp.exec(L["body"], env, ob, arith)
        nx, ny = env.get(xl, TOP), env.get(yl, TOP)
        trace.append((show_r(cur), show_r(nx), show_r(ny)))
        if ob.unknown:
            return None, trace, [], ob.unknown, L
        if ob.bad or nx is TOP or ny is TOP:
            return None, trace, ob.bad or [("range lost", L)], [], L
        new = join_r([cur, nx, ny])
        new = (0, new[1], new[2])
        if new == cur:
            return cur, trace, [], [], L
        cur = new
        if cur[1] > MAXK:
            return None, trace, [("no inductive bound below 8q", L)], [], L
    return None, trace, [("no fixpoint", L)], [], L


def run(facts, rep):
    Rn = "R-RANGE"
    rep.rule(Rn, "k*q interval interpretation of the NTT core: butterfly invariants inductive below 8q, no overflow / "
             "underflow, non-lazy forms end in [0,q), lazy forms inside their documented range")
    interp = RangeInterp(facts)
    arith = arith_summaries(facts, interp, rep, Rn)
    if len(arith) < 5:
        return
    fwd = "util::dwthandler::DWTHandler::<ArithmeticType>::transform_to_rev"
    inv = "util::dwthandler::DWTHandler::<ArithmeticType>::transform_from_rev"
    results = {}
    for name, fpath, starts, doc in (("forward", fwd, [R(0, 1), R(0, 4)], 4), ("inverse", inv, [R(0, 1), R(0, 2)], 2)):
        if not rep.anchor(Rn, fpath, fpath in facts.hir):
            continue
        rep.fn(fpath)
        worst = None
        for st in starts:
            fix, trace, bad, unknown, L = butterfly(facts, interp, arith, fpath, st, rep, Rn)
            rep.stats["paths"] += 1
            key = "%s/from%s" % (name, show_r(st))
            if unknown:
                rep.unresolved(Rn, key, "the %s butterfly uses a construct the interval interpreter does not model: %s" %
                               (name, unknown[0][0]), facts.loc(fpath, L))
            elif fix is None:
                rep.violation(Rn, key, "the %s butterfly has no overflow/underflow-free inductive invariant from inputs in %s: %s"
                              % (name, show_r(st), "; ".join(m for m, _ in bad) or "no bound"), facts.loc(fpath, L))
            else:
                rep.ok(Rn, key, "%s butterfly: inputs in %s => invariant %s is inductive, every intermediate below 8q" %
                       (name, show_r(st), show_r(fix)), facts.loc(fpath),
                       sample={"transform": name, "start": show_r(st), "invariant": show_r(fix), "trace": trace})
                worst = fix if worst is None else join_r([worst, fix])
        if worst is not None:
            has_scalar = any(x.get("k") == "MCall" and x.get("name") == "mul_scalar" for x in walk(facts.hir[fpath]))
            results[name] = worst if not (has_scalar and name == "inverse") else R(0, 2)
            if name == "inverse":
                results["inverse_core"] = worst
            if not within(worst, doc):
                rep.violation(Rn, name + "/documented", "the %s butterfly's values can reach %s but the documented lazy range is "
                              "[0,%dq): the lazy form returns values outside its contract" % (name, show_r(worst), doc),
                              facts.loc(fpath))
            else:
                rep.ok(Rn, name + "/documented", "%s values stay inside the documented lazy range [0,%dq)" % (name, doc),
                       facts.loc(fpath), nontrivial=False)
    for nm, base, lazy_out in (("ntt_negacyclic_harvey", "forward", 4), ("inverse_ntt_negacyclic_harvey", "inverse", 2)):
        p = "util::ntt::NTTTables::" + nm
        pl = p + "_lazy"
        if not (rep.anchor(Rn, p, p in facts.hir) and rep.anchor(Rn, pl, pl in facts.hir)) or base not in results:
            continue
        rep.fn(p)
        rep.fn(pl)
        want = "transform_to_rev" if base == "forward" else "transform_from_rev"
        called = [(callee(x) or {}).get("name") for x in walk(facts.hir[pl]) if x.get("k") == "MCall"]
        if want not in called:
            rep.violation(Rn, nm + "_lazy/handler", "%s no longer reaches %s" % (pl, want), facts.loc(pl))
            continue
        rng = results[base]
        body = facts.hir[p]
        xl, ebody = element_body(body)
        if ebody is None:
            rep.violation(Rn, nm + "/epilogue", "%s has no reduction epilogue after the lazy transform" % p, facts.loc(p))
            continue
        consts = {}
        i0 = RangeInterp(facts)
        for s in body.get("stmts", []):
            if s.get("k") == "Let" and s["pat"].get("k") == "PBind" and "init" in s:
                i0.consts = consts
                v = i0.const_of(s["init"])
                if v is not None:
                    consts[s["pat"]["lid"]] = v
        i2 = RangeInterp(facts, consts)
        ob = Obl()
        env2 = {xl: rng}
        i2.exec(ebody, env2, ob, None)
        fin = env2.get(xl, TOP)
        if ob.unknown:
            rep.unresolved(Rn, nm + "/epilogue", "epilogue uses an unmodelled construct: %s" % ob.unknown[0][0], facts.loc(p))
        elif ob.bad:
            rep.violation(Rn, nm + "/epilogue", "; ".join(m for m, _ in ob.bad), facts.loc(p, ob.bad[0][1]))
        elif within(fin, 1):
            rep.ok(Rn, nm + "/epilogue", "from %s the epilogue lands in [0,q)" % show_r(rng), facts.loc(p),
                   sample={"function": nm, "before": show_r(rng), "after": show_r(fin)})
        else:
            rep.violation(Rn, nm + "/epilogue", "the non-lazy %s can return values in %s: results are not canonical residues" %
                          (nm, show_r(fin)), facts.loc(p))
