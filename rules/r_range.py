"""R-RANGE — k*q interval abstract interpretation of the NTT core (property C09).

Abstract domain: a 64-bit word is known to lie in [lo*q, hi*q) for a symbolic modulus q with
2 <= q < 2^61 (HE_MOD_BIT_COUNT_MAX), lo/hi small integers (or unknown).  8*q <= 2^64, so a sum is
overflow-free iff its upper multiple is <= 8; a difference x - y is underflow-free iff lo(x) >= hi(y).
The engine interprets the SOURCE of
   ModArithLazy::{add, sub, mul_root, mul_scalar, guard}        (summaries derived from their bodies)
   DWTHandler::{transform_to_rev, transform_from_rev}             (butterfly loop bodies, generic over the
                                                                   arithmetic; trait calls are bound to the
                                                                   ModArithLazy summaries)
   NTTTables::{ntt,inverse_ntt}_negacyclic_harvey{,_lazy}         (epilogues)
with `multiply_u64operand_mod_lazy: any -> [0, 2q)` as the only external fact (its documented contract).
Obligations [N]: the butterfly invariant is inductive (a fixpoint <= 8q exists from canonical and from the
documented lazy input range), no addition can exceed 2^64, no subtraction can underflow, the non-lazy
forms end in [0, q), the lazy forms inside their documented output range (forward 4q, inverse 2q).
"""
from facts import walk, callee, strip, local_of

TOP = None          # unknown range
MAXK = 8


class Obl:
    def __init__(self):
        self.bad = []

    def fail(self, msg, node):
        self.bad.append((msg, node))


def add(x, y, ob, node, what="+"):
    if x is TOP or y is TOP:
        return TOP
    hi = x[1] + y[1] - (1 if (x[1] > 0 and y[1] > 0) else 0) if False else x[1] + y[1]
    # [lx q, hx q) + [ly q, hy q)  is within [ (lx+ly) q, (hx+hy) q )
    if hi > MAXK:
        ob.fail("addition can reach %d*q >= 2^64 for q near 2^61: wrap-around" % hi, node)
        return TOP
    return (x[0] + y[0], hi)


def sub(x, y, ob, node):
    if x is TOP or y is TOP:
        ob.fail("subtraction of values with unknown range", node)
        return TOP
    # x >= lx*q ; y < hy*q  -> needs lx >= hy   (x - y > 0)
    if x[0] < y[1]:
        ob.fail("subtraction may underflow: minuend >= %d*q but subtrahend can reach %d*q" % (x[0], y[1]), node)
        return TOP
    return (max(0, x[0] - y[1]), x[1] - y[0])


def cond_sub(x, c, ob, node):
    """if x >= c*q { x - c*q } else { x }"""
    if x is TOP:
        return TOP
    lo, hi = x
    parts = []
    if hi > c:          # then-branch reachable: x in [max(lo,c), hi)
        parts.append((max(lo, c) - c, hi - c))
    if lo < c:          # else-branch reachable: x in [lo, min(hi,c))
        parts.append((lo, min(hi, c)))
    return (min(p[0] for p in parts), max(p[1] for p in parts))


class RangeInterp:
    """Abstract evaluator for the small arithmetic functions."""

    def __init__(self, facts):
        self.facts = facts

    def const_of(self, e):
        """exact multiples of q denoted by an expression: self.two_times_modulus -> 2, modulus / self.modulus.value() -> 1"""
        e = strip(e)
        k = e.get("k")
        if k == "Field" and e.get("name") == "two_times_modulus":
            return 2
        if k == "Path" and e.get("res") == "local" and e.get("name") in ("two_times_modulus",):
            return 2
        if k == "Path" and e.get("res") == "local" and e.get("name") in ("modulus",) and self.facts.ty(e) == "u64":
            return 1
        if k == "MCall" and e.get("name") == "value" and not e["args"]:
            return 1
        return None

    def ev(self, e, env, ob, arith=None):
        e = strip(e)
        k = e.get("k")
        c = self.const_of(e)
        if c is not None:
            return (c, c + 0) if False else ("const", c)
        if k == "Path" and e.get("res") == "local":
            return env.get(e["lid"], TOP)
        if k == "Block":
            env2 = env
            for s in e.get("stmts", []):
                if s.get("k") == "Let" and s["pat"].get("k") == "PBind" and "init" in s:
                    env2 = dict(env2)
                    env2[s["pat"]["lid"]] = self.val(self.ev(s["init"], env2, ob, arith))
                elif s.get("k") in ("Semi", "Expr"):
                    self.exec(s["e"], env2, ob, arith)
            return self.ev(e["expr"], env2, ob, arith) if e.get("expr") else TOP
        if k == "Bin":
            op = e["op"]
            if op in ("+", "-"):
                a = self.ev(e["a"], env, ob, arith)
                b = self.ev(e["b"], env, ob, arith)
                if op == "+":
                    return add(self.val(a), self.val(b), ob, e)
                return sub(self.val(a), self.val(b), ob, e)
            if op == "<<":
                a = self.ev(e["a"], env, ob, arith)
                sh = strip(e["b"])
                if isinstance(a, tuple) and a[0] == "const" and sh.get("k") == "Lit" and sh.get("v") == "1":
                    return ("const", a[1] * 2)
            return TOP
        if k == "If":
            c = strip(e["c"])
            if c.get("k") == "Bin" and c.get("op") == ">=":
                x = self.val(self.ev(c["a"], env, ob, arith))
                cc = self.ev(c["b"], env, ob, arith)
                if isinstance(cc, tuple) and cc[0] == "const":
                    if x is TOP:
                        return TOP
                    C = cc[1]
                    parts = []
                    if x[1] > C:       # then-branch reachable with x in [max(lo,C), hi)
                        t = self.val(self.ev(e["th"], self._refined(env, c["a"], (max(x[0], C), x[1])), ob, arith))
                        if t is TOP:
                            return TOP
                        parts.append(t)
                    if x[0] < C:       # else-branch reachable with x in [lo, min(hi,C))
                        if e.get("el"):
                            el = self.val(self.ev(e["el"], self._refined(env, c["a"], (x[0], min(x[1], C))), ob, arith))
                        else:
                            el = (x[0], min(x[1], C))
                        if el is TOP:
                            return TOP
                        parts.append(el)
                    if not parts:
                        return TOP
                    return (min(p_[0] for p_ in parts), max(p_[1] for p_ in parts))
            return TOP
        if k in ("Call", "MCall"):
            f = callee(e)
            name = f["name"] if f else e.get("name")
            if name in ("multiply_u64operand_mod_lazy",):
                return (0, 2)
            if name in ("multiply_u64operand_mod", "barrett_reduce_u64", "reduce"):
                return (0, 1)
            if arith is not None and name in arith and e.get("k") == "MCall":
                args = [self.val(self.ev(a, env, ob, arith)) for a in e["args"]]
                return arith[name](args, ob, e)
            return TOP
        return TOP

    def _refined(self, env, var_expr, rng):
        lo = local_of(var_expr)
        if lo is None or rng is TOP:
            return env
        env = dict(env)
        env[lo[0]] = rng
        return env

    def val(self, v):
        if isinstance(v, tuple) and v and v[0] == "const":
            return (v[1], v[1] + 0) if False else (v[1], v[1])   # exact multiple: [c*q, c*q]
        return v

    def exec(self, e, env, ob, arith):
        """statement-level: assignments through references `*x = ...`, `*x -= C` inside ifs."""
        e = strip(e)
        k = e.get("k")
        if k == "Assign":
            lo = local_of(e["lhs"])
            if lo:
                env[lo[0]] = self.val(self.ev(e["rhs"], env, ob, arith))
        elif k == "AssignOp" and e.get("op", "").startswith("-"):
            lo = local_of(e["lhs"])
            if lo:
                env[lo[0]] = sub(env.get(lo[0], TOP), self.val(self.ev(e["rhs"], env, ob, arith)), ob, e)
        elif k == "If":
            c = strip(e["c"])
            if c.get("k") == "Bin" and c.get("op") == ">=" and not e.get("el"):
                lo = local_of(c["a"])
                cc = self.ev(c["b"], env, ob, arith)
                if lo and isinstance(cc, tuple) and cc[0] == "const":
                    x = env.get(lo[0], TOP)
                    if x is TOP:
                        return
                    parts = []
                    if x[1] > cc[1]:
                        env_t = dict(env)
                        env_t[lo[0]] = (max(x[0], cc[1]), x[1])
                        self.exec(e["th"], env_t, ob, arith)
                        parts.append(env_t[lo[0]])
                    if x[0] < cc[1]:
                        parts.append((x[0], min(x[1], cc[1])))
                    parts = [p for p in parts if p is not TOP]
                    env[lo[0]] = (min(p[0] for p in parts), max(p[1] for p in parts)) if parts else TOP
        elif k == "Block":
            for s in e.get("stmts", []):
                if s.get("k") == "Let" and s["pat"].get("k") == "PBind" and "init" in s:
                    env[s["pat"]["lid"]] = self.val(self.ev(s["init"], env, ob, arith))
                elif s.get("k") in ("Semi", "Expr"):
                    self.exec(s["e"], env, ob, arith)
            if e.get("expr"):
                self.exec(e["expr"], env, ob, arith)


def arith_summaries(facts, interp, rep, R):
    """name -> function(args, ob, node) for ModArithLazy's Arithmetic impl, derived from the impl bodies."""
    out = {}
    for nm in ("add", "sub", "mul_root", "mul_scalar", "guard"):
        cands = [p for p in facts.items if p.endswith("::" + nm) and "ModArithLazy" in facts.items[p].get("impl_self", "")
                 and "Arithmetic" in facts.items[p].get("impl_trait", "")]
        if not rep.anchor(R, "ModArithLazy::" + nm, bool(cands)):
            continue
        p = cands[0]
        it = facts.items[p]
        body = facts.hir[p]
        plids = [pp["pat"]["lid"] for pp in it["params"] if pp["pat"].get("k") == "PBind"]

        def fn(args, ob, node, body=body, plids=plids, nm=nm, p=p):
            env = {}
            for lid, a in zip(plids[1:], args):
                env[lid] = a
            sub_ob = Obl()
            r = interp.val(interp.ev(body, env, sub_ob))
            for msg, n2 in sub_ob.bad:
                ob.fail("in ModArithLazy::%s (line %s): %s" % (nm, n2.get("l"), msg), node)
            return r
        out[nm] = fn
    return out


def butterfly(facts, interp, arith, fpath, start, rep, R):
    """Fixpoint of the butterfly body of a DWTHandler transform starting from element range `start`."""
    body = facts.hir[fpath]
    # the innermost For whose pattern binds two element references (x, y)
    loops = [x for x in walk(body) if x.get("k") == "For" and x["pat"].get("k") == "PTuple" and len(x["pat"]["ps"]) == 2]
    if not rep.anchor(R, fpath + "/butterfly", bool(loops)):
        return None, None
    L = loops[0]
    xl, yl = L["pat"]["ps"][0].get("lid"), L["pat"]["ps"][1].get("lid")
    cur = start
    trace = []
    for it in range(12):
        ob = Obl()
        env = {xl: cur, yl: cur}
        interp.exec(L["body"], env, ob, arith)
        nx, ny = env.get(xl, TOP), env.get(yl, TOP)
        trace.append((cur, nx, ny, [m for m, _ in ob.bad]))
        if ob.bad or nx is TOP or ny is TOP:
            return None, (trace, ob.bad, L)
        new = (0, max(cur[1], nx[1], ny[1]))
        if new == cur:
            return cur, (trace, [], L)
        cur = new
        if cur[1] > MAXK:
            return None, (trace, [("no inductive bound below 8q", L)], L)
    return None, (trace, [("no fixpoint", L)], L)


def scalar_pass(facts, interp, arith, fpath, rng):
    """range after the optional `mul_scalar` pass of a transform"""
    body = facts.hir[fpath]
    for x in walk(body):
        if x.get("k") == "MCall" and x.get("name") == "mul_scalar":
            return (0, 2)
    return rng


def run(facts, rep):
    R = "R-RANGE"
    rep.rule(R, "k*q interval interpretation of the NTT core: butterfly invariants inductive below 8q, no overflow / "
             "underflow, non-lazy forms end in [0,q), lazy forms inside their documented range")
    interp = RangeInterp(facts)
    arith = arith_summaries(facts, interp, rep, R)
    if len(arith) < 5:
        return
    fwd = "util::dwthandler::DWTHandler::<ArithmeticType>::transform_to_rev"
    inv = "util::dwthandler::DWTHandler::<ArithmeticType>::transform_from_rev"
    results = {}
    for name, fpath, starts, doc in (("forward", fwd, [(0, 1), (0, 4)], 4), ("inverse", inv, [(0, 1), (0, 2)], 2)):
        if not rep.anchor(R, fpath, fpath in facts.hir):
            continue
        rep.fn(fpath)
        worst = None
        for st in starts:
            fix, info = butterfly(facts, interp, arith, fpath, st, rep, R)
            rep.stats["paths"] += 1
            key = "%s/from[0,%dq)" % (name, st[1])
            if fix is None:
                trace, bad, L = info if info else ([], [("?", None)], None)
                msg = "; ".join(m for m, _ in bad) or "no bound"
                rep.violation(R, key, "the %s butterfly has no overflow/underflow-free inductive invariant from inputs in "
                              "[0,%dq): %s" % (name, st[1], msg), facts.loc(fpath, L))
            else:
                rep.ok(R, key, "%s butterfly: inputs in [0,%dq) => every intermediate stays below %dq <= 8q; invariant "
                       "[0,%dq) is inductive" % (name, st[1], fix[1], fix[1]), facts.loc(fpath),
                       sample={"transform": name, "start": st, "invariant_multiple_of_q": fix[1], "iterations": len(info[0])})
                worst = max(worst or 0, fix[1])
        if worst is not None:
            out = scalar_pass(facts, interp, arith, fpath, (0, worst))
            results[name] = worst if name == "forward" else out[1]
            if worst > doc:
                rep.violation(R, name + "/documented", "the %s butterfly needs values up to %dq but the documented lazy range is "
                              "%dq" % (name, worst, doc), facts.loc(fpath))
    # epilogues of the NTTTables wrappers
    for nm, base, lazy_out in (("ntt_negacyclic_harvey", "forward", 4), ("inverse_ntt_negacyclic_harvey", "inverse", 2)):
        p = "util::ntt::NTTTables::" + nm
        pl = p + "_lazy"
        if not (rep.anchor(R, p, p in facts.hir) and rep.anchor(R, pl, pl in facts.hir)) or base not in results:
            continue
        rep.fn(p)
        rep.fn(pl)
        # lazy form: reaches the handler of its direction, with a scalar for the inverse
        want = "transform_to_rev" if base == "forward" else "transform_from_rev"
        called = [(callee(x) or {}).get("name") for x in walk(facts.hir[pl]) if x.get("k") == "MCall"]
        if want not in called:
            rep.violation(R, nm + "_lazy/handler", "%s no longer reaches %s" % (pl, want), facts.loc(pl))
            continue
        rng = (0, results[base])
        if rng[1] <= lazy_out:
            rep.ok(R, nm + "_lazy/range", "lazy output within [0,%dq)" % lazy_out, facts.loc(pl))
        else:
            rep.violation(R, nm + "_lazy/range", "lazy output can reach %dq, documented %dq" % (rng[1], lazy_out), facts.loc(pl))
        # non-lazy epilogue: closure `|x| { if *x >= C {*x -= C} ... }`
        body = facts.hir[p]
        cl = [x for x in walk(body) if x.get("k") == "Closure"]
        if not cl:
            rep.violation(R, nm + "/epilogue", "%s has no reduction epilogue after the lazy transform" % p, facts.loc(p))
            continue
        c = cl[-1]
        xl = c["params"][0].get("lid") if c["params"] else None
        # constants two_times_modulus / modulus are locals of the enclosing function
        env = {xl: rng}
        ob = Obl()
        # bind the helper locals (modulus = self.modulus.value(); two_times_modulus = modulus << 1)
        for s in body.get("stmts", []):
            if s.get("k") == "Let" and s["pat"].get("k") == "PBind" and "init" in s:
                v = interp.ev(s["init"], env, ob)
                if isinstance(v, tuple) and v and v[0] == "const":
                    env[s["pat"]["lid"]] = v

        class _I(RangeInterp):
            def const_of(self2, e):
                e2 = strip(e)
                if e2.get("k") == "Path" and e2.get("res") == "local" and isinstance(env.get(e2["lid"]), tuple) \
                        and env[e2["lid"]][0] == "const":
                    return env[e2["lid"]][1]
                return RangeInterp.const_of(self2, e)
        i2 = _I(facts)
        env2 = {xl: rng}
        i2.exec(c["body"], env2, ob, None)
        fin = env2.get(xl, TOP)
        if ob.bad:
            rep.violation(R, nm + "/epilogue", "; ".join(m for m, _ in ob.bad), facts.loc(p, ob.bad[0][1]))
        elif fin is not TOP and fin[1] <= 1:
            rep.ok(R, nm + "/epilogue", "from [0,%dq) the epilogue lands in [0,q)" % rng[1], facts.loc(p),
                   sample={"function": nm, "before": rng, "after": fin})
        else:
            rep.violation(R, nm + "/epilogue", "the non-lazy %s can return values up to %s*q: results are not canonical "
                          "residues" % (nm, fin[1] if fin else "?"), facts.loc(p))
