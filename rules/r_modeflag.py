"""R-MODEFLAG [N, completeness of a mode selection] — add/subtract back ends selected by a boolean parameter.

`translate_inplace(c1, c2, is_subtract)` and `translate_plain_inplace(ct, plain, is_subtract)` implement an operation
and its opposite in one body: an `if flag` chooses between two sibling routines that combine the read-only operand S
into the destination D.  The flag is discovered from the code: a boolean parameter P is a *mode flag* for (D, S) when
some `if` on P has, in BOTH branches, a call that writes D's data while reading S's data.

Rule: every transfer of S's data into D in that function is selected by the flag — it sits under an `if` on P, passes P
on (the recursive call), or is followed by a P-controlled write to D that can still adjust it.  A transfer that happens
identically in both modes contributes the same residues of S to `D + S` and to `D - S`; one of the two results is
wrong (the defect repaired by the "translate_inplace negates the subtrahend's extra components" fix: when the
subtrahend is the larger ciphertext its tail was copied, not negated).
"""
from facts import walk, callee, strip, local_of, root_local, Tree, Defs
from r_guard import strip_ty

R = "R-MODEFLAG"
DATA_TYPES = ("text::Ciphertext", "text::Plaintext")


def _mentions(e, lid):
    return any(x.get("k") == "Path" and x.get("res") == "local" and x.get("lid") == lid for x in walk(e))


def _pos(n):
    return (n.get("l", 0), n.get("c", 0))


def _views(facts, body, dl):
    """locals that are mutable views of D: `let c0 = encrypted.poly_mut(0);`, `let d = ct.data_mut();`"""
    v = {dl}
    changed = True
    while changed:
        changed = False
        for x in walk(body):
            if x.get("k") == "Let" and x["pat"].get("k") == "PBind" and "init" in x and x["pat"]["lid"] not in v:
                rl = root_local(x["init"])
                if rl and rl[0] in v and facts.ty(x["pat"]).startswith("&mut"):
                    v.add(x["pat"]["lid"])
                    changed = True
    return v


def transfers(facts, body, dl, s_lids):
    """calls that write D (a `&mut` argument / receiver rooted at D or at a mutable view of D) and read an S-derived local"""
    out = []
    dviews = _views(facts, body, dl)
    for x in walk(body):
        if x.get("k") not in ("Call", "MCall"):
            continue
        args = ([x["recv"]] if x["k"] == "MCall" else []) + x["args"]
        writes = reads = False
        f = callee(x)
        prm = facts.items.get(f["def"], {}).get("params") if f and f.get("local") else None
        for j, a in enumerate(args):
            rl = root_local(a)
            if not rl:
                continue
            if prm is not None and len(prm) == len(args):
                t = prm[j].get("ty", "")            # what the callee may do with it
            else:
                t = facts.ty_adj(a) or facts.ty(a)
                if not t.startswith("&mut") and facts.ty(a).startswith("&mut"):
                    t = facts.ty(a)
            if rl[0] in dviews and t.startswith("&mut"):
                writes = True
            if rl[0] in s_lids:
                reads = True
        if writes and reads:
            out.append(x)
    # keep outermost calls only (an accessor call nested in an argument is part of its parent)
    inner = set()
    for x in out:
        for y in walk(x):
            if y is not x and any(y is z for z in out):
                inner.add(id(y))
    return [x for x in out if id(x) not in inner]


def run(facts, rep, fn_filter, floor=0):
    rep.rule(R, "in a routine whose boolean parameter selects between an operation and its opposite, every transfer of the "
             "read-only operand's data into the destination is selected by that parameter")
    n = 0
    for p in sorted(facts.hir):
        if not fn_filter(p):
            continue
        it = facts.items.get(p)
        if not it:
            continue
        flags = [(q["pat"]["lid"], q["pat"]["name"]) for q in it["params"]
                 if q["pat"].get("k") == "PBind" and q.get("ty") == "bool"]
        dsts = [(q["pat"]["lid"], q["pat"]["name"]) for q in it["params"] if q["pat"].get("k") == "PBind"
                and q.get("ty", "").startswith("&mut ") and strip_ty(q["ty"]) in DATA_TYPES]
        srcs = [(q["pat"]["lid"], q["pat"]["name"]) for q in it["params"] if q["pat"].get("k") == "PBind"
                and q.get("ty", "").startswith("&") and not q["ty"].startswith("&mut ") and strip_ty(q["ty"]) in DATA_TYPES]
        if not (flags and dsts and srcs):
            continue
        body = facts.hir[p]
        tree = Tree(body)
        defs = Defs(body)
        for fl, fname in flags:
            for dl, dname in dsts:
                for sl, sname in srcs:
                    # locals derived from S (clones, scaled copies)
                    s_lids = {sl}
                    for x in walk(body):
                        if x.get("k") == "Let" and x["pat"].get("k") == "PBind" and "init" in x:
                            if any(y.get("k") == "Path" and y.get("res") == "local" and y.get("lid") == sl
                                   for y in defs.closure(x["init"])) and strip_ty(facts.ty(x["pat"])) in DATA_TYPES:
                                s_lids.add(x["pat"]["lid"])
                    tr = transfers(facts, body, dl, s_lids)
                    if not tr:
                        continue

                    def controlled(node):
                        child = node
                        for a in tree.ancestors(node):
                            if a.get("k") == "If" and tree.slot_of(child) in ("th", "el") and _mentions(a["c"], fl):
                                return a
                            child = a
                        return None
                    # is P a mode flag for (D, S)?  an `if` on P with a transfer in both branches
                    mode_ifs = []
                    for x in walk(body):
                        if x.get("k") == "If" and x.get("el") and _mentions(x["c"], fl):
                            th = [t for t in tr if any(t is y for y in walk(x["th"]))]
                            el = [t for t in tr if any(t is y for y in walk(x["el"]))]
                            if th and el:
                                mode_ifs.append((x, th, el))
                    if not mode_ifs:
                        continue
                    n += 1
                    rep.fn(p)
                    names = sorted({(callee(t) or {}).get("name", "?") for x, th, el in mode_ifs for t in th + el})
                    ordn = {}
                    for t in sorted(tr, key=_pos):
                        nm = (callee(t) or {}).get("name", t.get("name", "?"))
                        ordn[id(t)] = "%s#%d" % (nm, sum(1 for k in ordn.values() if k.startswith(nm + "#")))
                    for k_if, (x, th, el) in enumerate(sorted(mode_ifs, key=lambda m: _pos(m[0]))):
                        a = sorted((callee(t) or {}).get("def", "?") for t in th)
                        b = sorted((callee(t) or {}).get("def", "?") for t in el)
                        key = "%s/%s/%s<-%s/select#%d" % (p, fname, dname, sname, k_if)
                        if a == b:
                            rep.violation(R, key, "both branches of the `%s` selection combine `%s` into `%s` with the same "
                                          "routine (%s): the operation and its opposite compute the same thing" %
                                          (fname, sname, dname, ", ".join(x.rsplit("::", 1)[-1] for x in a)), facts.loc(p, x))
                        else:
                            rep.ok(R, key, "`%s` selects %s vs %s" % (fname, ", ".join(x.rsplit("::", 1)[-1] for x in a),
                                                                     ", ".join(x.rsplit("::", 1)[-1] for x in b)),
                                   facts.loc(p, x), nontrivial=False)
                    for t in sorted(tr, key=_pos):
                        key = "%s/%s/%s<-%s/%s" % (p, fname, dname, sname, ordn[id(t)])
                        tname = (callee(t) or {}).get("name", t.get("name", "?"))
                        if controlled(t):
                            rep.ok(R, key, "`%s` into `%s` is selected by `%s`" % (tname, dname, fname), facts.loc(p, t),
                                   sample={"function": p, "flag": fname, "transfer": tname})
                        elif _mentions(t, fl):
                            rep.ok(R, key, "`%s` passes `%s` on" % (tname, fname), facts.loc(p, t), nontrivial=False)
                        else:
                            later = [u for u in tr if _pos(u) > _pos(t) and controlled(u)]
                            later_w = [x for x in walk(body) if x.get("k") in ("Call", "MCall") and _pos(x) > _pos(t)
                                       and controlled(x) and any((root_local(a) or (None,))[0] == dl and
                                                                 (facts.ty_adj(a) or "").startswith("&mut")
                                                                 for a in ([x["recv"]] if x["k"] == "MCall" else []) + x["args"])]
                            if later or later_w:
                                rep.unresolved(R, key, "`%s` into `%s` is not selected by `%s` but a `%s`-controlled write to `%s` "
                                               "follows it" % (tname, dname, fname, fname, dname), facts.loc(p, t))
                            else:
                                rep.violation(R, key, "`%s` is a mode flag of %s (it selects between %s), but `%s` moves `%s`'s "
                                              "data into `%s` identically in both modes and nothing `%s`-dependent touches `%s` "
                                              "afterwards: the operation and its opposite receive the same contribution "
                                              "from `%s` there, so one of them is wrong" %
                                              (fname, p, " / ".join(names), tname, sname, dname, fname, dname, sname),
                                              facts.loc(p, t))
    rep.floor(R, "(function, flag, destination, source) mode selections", n, floor)
    return n
