"""R-CONSTDEF(form) [N] — a whole-number constant is copied out of a multi-word buffer while the buffer still holds that number.

HeContext::validate computes multi-word integers (quotient and remainder of q / t) into buffers and then converts some of
these buffers IN PLACE to RNS form (`RNSBase::decompose(&mut buf)`: word j becomes the residue modulo prime j).  A scalar
constant taken from such a buffer with a literal index (`c.coeff_modulus_mod_plain_modulus = buf[0]`) is the integer the
buffer was computed as only if it is read BEFORE the in-place conversion; read after it, it is that integer modulo the
first prime, which differs whenever the integer is not below the first prime (plain modulus above the first coefficient
prime) — the constant no longer equals its definition and BFV scaling is off for those parameter sets.

Decided per function: for every buffer that is handed to an in-place representation change (decompose / decompose_array /
compose / compose_array) and from which a scalar is copied with a literal index into a field or a returned value, the copy
precedes every such change of that buffer on the straight-line order of the function body.
"""
from facts import walk, callee, strip, local_of, root_local
from r_slotmod import Sym

R = "R-CONSTDEF(form)"
CHANGE = ("decompose", "decompose_array", "compose", "compose_array")


def run(facts, rep, files=("src/context.rs",), floor=0):
    rep.rule(R, "a scalar copied with a literal index out of a buffer that is converted in place to / from RNS form is read "
             "before the conversion")
    n = 0
    for p in sorted(facts.hir):
        it = facts.items[p]
        if it["file"] not in files or "::tests::" in p:
            continue
        body = facts.hir[p]
        sym = Sym(facts, body)
        order = {id(x): i for i, x in enumerate(walk(body))}
        changes = {}
        for x in walk(body):
            if x.get("k") == "MCall" and x.get("name") in CHANGE and x["args"]:
                tgt = strip(x["args"][0])
                changes.setdefault(sym.canon(tgt), []).append(x)
        if not changes:
            continue
        k_site = 0
        for x in walk(body):
            if x.get("k") != "Assign":
                continue
            lhs = strip(x["lhs"])
            rhs = strip(x["rhs"])
            if lhs.get("k") != "Field" or rhs.get("k") != "Index" or strip(rhs["i"]).get("k") != "Lit":
                continue
            if facts.ty(lhs) not in ("u64", "usize"):
                continue
            buf = sym.canon(rhs["e"])
            if buf not in changes:
                continue
            n += 1
            rep.fn(p)
            key = "%s/%s" % (p, lhs.get("name"))
            before = [c for c in changes[buf] if order[id(c)] < order[id(x)]]
            if before:
                rep.violation(R, key, "`%s` is copied from word %s of `%s` AFTER that buffer was converted in place by %s(): the value is "
                              "the residue modulo one prime, not the multi-word integer the constant is defined as (they differ "
                              "whenever that integer is not below the prime)" %
                              (lhs.get("name"), strip(rhs["i"]).get("v"), buf.split(".")[-1], before[0]["name"]), facts.loc(p, x))
            else:
                rep.ok(R, key, "`%s` is read before `%s` is converted in place" % (lhs.get("name"), buf.split(".")[-1]),
                       facts.loc(p, x), sample={"field": lhs.get("name")})
            k_site += 1
    rep.floor(R, "scalar constants copied out of converted buffers", n, floor)
    return n
