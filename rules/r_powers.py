"""R-POWERS [N] — the cache of secret-key powers is extended by the recurrence  s^(k+1) = s^k * s.

Decryptor::compute_secret_key_array and KeyGenerator::compute_secret_key_array hold NTT(s), NTT(s^2), ... consecutively
in one buffer (power k at offset (k-1) * poly_size).  Decryption and the noise budget of ciphertexts with more than two
components, and relinearisation-key generation, read power k at that offset.  In the loop that fills the new powers the
dyadic product must therefore read the region IMMEDIATELY BEFORE the region it writes (the previous power) and the
region at offset 0 (the first power):

        start(out) - start(a) == len(out)   and   start(b) == 0        for {a, b} = the two inputs.

Regions are resolved symbolically (r_slotmod.Sym polynomials over the loop variable and the sizes) through range
indexing, `as_ptr` / `from_raw_parts`, `split_at(_mut)` halves and lets.  The identity must hold as polynomials, i.e.
for every old size — with `old_size == 1` the wrong index `i` and the right index `old_size + i - 1` coincide, which is
why the suite (caches grown once) cannot see the difference.
"""
from facts import walk, callee, strip, local_of, root_local
from r_slotmod import Sym, padd, pmul, pconst, pshow

R = "R-POWERS"
PROD = ("dyadic_product_p", "dyadic_product")


class Regions:
    def __init__(self, facts, body, sym):
        self.sym = sym
        self.lets = {}
        self.splits = {}
        self.assigned = set()
        for x in walk(body):
            if x.get("k") == "Let" and "init" in x:
                if x["pat"].get("k") == "PBind":
                    self.lets[x["pat"]["lid"]] = x["init"]
                elif x["pat"].get("k") == "PTuple" and len(x["pat"]["ps"]) == 2:
                    c = strip(x["init"])
                    if c.get("k") == "MCall" and c.get("name") in ("split_at", "split_at_mut") and c["args"]:
                        h, t = x["pat"]["ps"]
                        if h.get("k") == "PBind":
                            self.splits[h["lid"]] = (c["recv"], None, c["args"][0])
                        if t.get("k") == "PBind":
                            self.splits[t["lid"]] = (c["recv"], c["args"][0], None)

    def region(self, e, depth=0):
        """-> (root lid, start poly, length poly or None) or None"""
        if depth > 10 or not isinstance(e, dict):
            return None
        e = strip(e)
        k = e.get("k")
        if k in ("Ref", "AddrOf"):
            return self.region(e["e"], depth + 1)
        if k == "Un" and e.get("op") == "*":
            return self.region(e["e"], depth + 1)
        if k == "Block" and e.get("expr") is not None:
            return self.region(e["expr"], depth + 1)
        if k == "MCall" and e.get("name") in ("as_ptr", "as_mut_ptr", "as_slice", "as_mut_slice", "as_ref", "as_mut") and not e["args"]:
            return self.region(e["recv"], depth + 1)
        if k == "Call":
            f = callee(e) or {}
            if f.get("name") in ("from_raw_parts", "from_raw_parts_mut") and len(e["args"]) == 2:
                base = self.region(e["args"][0], depth + 1)
                ln = self.sym.poly(e["args"][1])
                if base:
                    return base[0], base[1], ln if isinstance(ln, dict) else base[2]
            return None
        if k == "Index":
            idx = strip(e["i"])
            if idx.get("k") == "Struct" and "ops::Range" in idx.get("path", ""):
                d = {f["name"]: f["e"] for f in idx["fields"]}
                base = self.region(e["e"], depth + 1)
                if base is None:
                    return None
                st = self.sym.poly(d["start"]) if "start" in d else {}
                if not isinstance(st, dict):
                    return None
                ln = None
                if "end" in d:
                    en = self.sym.poly(d["end"])
                    if isinstance(en, dict):
                        ln = padd(en, st, -1)
                elif base[2] is not None:
                    ln = padd(base[2], st, -1)
                return base[0], padd(base[1], st), ln
            return None
        if k == "Path" and e.get("res") == "local":
            lid = e["lid"]
            if lid in self.splits:
                base_e, off, hlen = self.splits[lid]
                base = self.region(base_e, depth + 1)
                if base is None:
                    return None
                if off is None:
                    hl = self.sym.poly(hlen)
                    return base[0], base[1], hl if isinstance(hl, dict) else None
                o = self.sym.poly(off)
                if not isinstance(o, dict):
                    return None
                return base[0], padd(base[1], o), padd(base[2], o, -1) if base[2] is not None else None
            if lid in self.lets:
                r = self.region(self.lets[lid], depth + 1)
                if r is not None:
                    return r
            return lid, {}, None
        return None


def run(facts, rep, floor=0):
    rep.rule(R, "the loop extending the cache of secret-key powers computes each new power from the region immediately "
             "before it and the region at offset 0 (s^(k+1) = s^k * s), as a polynomial identity in the old size")
    n = 0
    for p in sorted(facts.hir):
        if not p.endswith("::compute_secret_key_array"):
            continue
        body = facts.inlined(p)          # an extracted fill helper is read in place
        sym = Sym(facts, body)
        rg = Regions(facts, body, sym)
        for lp in [x for x in walk(body) if x.get("k") == "For"]:
            for c in walk(lp["body"]):
                f = callee(c) or {}
                if c.get("k") != "Call" or f.get("name") not in PROD or len(c["args"]) < 5:
                    continue
                n += 1
                rep.fn(p)
                key = "%s/recurrence" % p
                a, b, out = rg.region(c["args"][0]), rg.region(c["args"][1]), rg.region(c["args"][-1])
                if not (a and b and out) or out[2] is None or not (a[0] == b[0] == out[0]):
                    rep.unresolved(R, key, "operands of the power product are not regions of one buffer the rule can resolve",
                                   facts.loc(p, c))
                    continue
                stride = out[2]

                def is_prev(x):
                    return not padd(padd(out[1], x[1], -1), stride, -1)

                def is_first(x):
                    return not x[1]
                if (is_prev(a) and is_first(b)) or (is_prev(b) and is_first(a)):
                    rep.ok(R, key, "new power at offset %s = (power at offset %s) * (power at offset 0)" %
                           (pshow(out[1]), pshow(a[1] if is_prev(a) else b[1])), facts.loc(p, c),
                           sample={"function": p, "out": pshow(out[1]), "stride": pshow(stride)})
                else:
                    prev = a if not is_first(a) or is_first(b) and not is_prev(b) else b
                    cand = [x for x in (a, b) if not is_first(x)] or [a]
                    rep.violation(R, key, "the power written at offset %s is computed from the regions at offsets %s and %s; the "
                                  "recurrence s^(k+1) = s^k * s needs the region immediately before it (offset %s) and the first "
                                  "power (offset 0).  The two coincide only for one value of the old size, so a cache that is "
                                  "extended a second time holds wrong powers: ciphertexts with more components decrypt wrongly and "
                                  "report a wrong noise budget" %
                                  (pshow(out[1]), pshow(a[1]), pshow(b[1]), pshow(padd(out[1], stride, -1))), facts.loc(p, c))
    rep.floor(R, "power-cache extension loops", n, floor)
    return n
