"""R-REPSTATE — representation typestate of residue buffers (coefficient vs NTT form, canonical vs lazy).

Every residue buffer has an abstract state  (repr, range):  repr in {coeff, ntt, any, ?},
range in {canon, lazy, ?}.  A function is analysed once per ASSUMPTION: a truth value for the
`is_ntt_form()` flag of each Ciphertext/Plaintext parameter and for each bool parameter (so the
analysis is path-sensitive exactly where the code branches on representation and never joins a
coefficient-form path with an NTT-form path).  Transfer functions come from a table keyed by the
RESOLVED callee: ntt*: coeff->ntt, intt*: ntt->coeff, *_lazy*: range lazy, dyadic_product*: operands
must be ntt, add/sub*: operands must agree, RNSTool / GaloisTool routines by their documented domain,
samplers produce coefficient form, secret/public key material is stored in NTT form.  Local callees are
applied through summaries computed under the caller's assumption for the arguments.

Judgements [N] (only DEFINITE states alarm; `?` never does):
  (mix)    a pointwise add/sub/dyadic product combines a coefficient-form operand with an NTT-form one;
  (domain) a transform is applied to a buffer already in its target form (ntt of ntt, intt of coeff), a
           dyadic product (= polynomial product only in NTT form) gets a coefficient-form operand, an
           RNSTool / GaloisTool routine gets the representation it is not written for;
  (exit)   at a normal return a `&mut` / returned Ciphertext or Plaintext holds data whose representation
           differs from the flag the function leaves on it, or lazy (non-canonical) residues;
  (wire)   lazy residues reach the byte-width-limited wire writer.
"""
from facts import walk, callee, target_key, root_local, strip, local_of
from flow import Flow
from r_guard import strip_ty

OBJ_TYPES = ("text::Ciphertext", "text::Plaintext")
KEY_TYPES = ("key::SecretKey", "key::PublicKey", "key::KSwitchKeys", "key::RelinKeys", "key::GaloisKeys")
ACCESSORS = {"data", "data_mut", "poly", "poly_mut", "polys", "polys_mut", "poly_component", "poly_component_mut",
             "as_slice", "as_mut_slice", "to_vec", "clone", "iter", "iter_mut", "as_ref", "as_mut", "chunks", "chunks_mut",
             "as_plaintext", "as_plaintext_mut", "as_ciphertext", "as_ciphertext_mut", "unwrap", "borrow", "to_owned",
             "deref", "into_iter", "as_mut_ptr", "as_ptr"}
U = "?"


def is_obj_ty(t):
    return strip_ty(t) in OBJ_TYPES


def is_key_ty(t):
    return strip_ty(t) in KEY_TYPES


def is_buf_ty(t):
    s = strip_ty(t)
    return s.startswith("[u64]") or s.startswith("std::vec::Vec<u64") or s.startswith("[u64;")


class RepSummary:
    def __init__(self):
        self.out = {}          # param index -> (repr, range) at return (buffers) / object state
        self.flags = {}        # param index -> recorded ntt flag at return (True/False/None) for objects
        self.ret = None
        self.findings = []     # (kind, message, loc, chain)
        self.normal = True


class RepEngine:
    def __init__(self, facts):
        self.facts = facts
        self.memo = {}
        self.stack = []

    # ------------------------------------------------------------------ summaries
    def summary(self, fpath, assume):
        key = (fpath, tuple(sorted(assume.items())))
        if key in self.memo:
            return self.memo[key]
        if fpath in self.stack or len(self.stack) > 10:
            return None
        body = self.facts.hir.get(fpath)
        it = self.facts.items.get(fpath)
        if body is None or it is None:
            return None
        self.stack.append(fpath)
        try:
            s = self._analyse(fpath, it, body, assume)
        finally:
            self.stack.pop()
        self.memo[key] = s
        return s

    def _analyse(self, fpath, it, body, assume):
        facts = self.facts
        eng = self
        summ = RepSummary()
        findings = summ.findings
        # state: {"b": {key: (repr, range)}, "a": {lid: key}, "v": {lid: bool}, "f": {objkey: bool|None}}
        b0, a0, v0, f0 = {}, {}, {}, {}
        for j, p in enumerate(it["params"]):
            if p["pat"].get("k") != "PBind":
                continue
            lid, name, ty = p["pat"]["lid"], p["pat"]["name"], p.get("ty", "")
            if is_obj_ty(ty):
                k = "P%d" % j
                a0[lid] = k
                fl = assume.get("flag:%d" % j)
                f0[k] = fl
                b0[k] = ("ntt" if fl else "coeff", "canon") if fl is not None else (U, "canon")
            elif is_key_ty(ty):
                k = "K%d" % j
                a0[lid] = k
                b0[k] = ("ntt", "canon")
            elif is_buf_ty(ty):
                k = "P%d" % j
                a0[lid] = k
                r = assume.get("repr:%d" % j, U)
                b0[k] = (r, assume.get("range:%d" % j, "canon" if r != U else U))
            elif ty == "bool":
                if ("bool:%d" % j) in assume:
                    v0[lid] = assume["bool:%d" % j]
        init = {"b": b0, "a": a0, "v": v0, "f": f0}
        counter = [0]

        def join(x, y):
            out = {"b": {}, "a": {}, "v": {}, "f": {}}
            for k in set(x["b"]) | set(y["b"]):
                p, q = x["b"].get(k, (U, U)), y["b"].get(k, (U, U))
                out["b"][k] = (p[0] if p[0] == q[0] else ("any" in (p[0], q[0]) and (q[0] if p[0] == "any" else p[0]) or U),
                               p[1] if p[1] == q[1] else ("lazy" if "lazy" in (p[1], q[1]) else U))
            for l in set(x["a"]) & set(y["a"]):
                if x["a"][l] == y["a"][l]:
                    out["a"][l] = x["a"][l]
            for l in set(x["v"]) & set(y["v"]):
                if x["v"][l] == y["v"][l]:
                    out["v"][l] = x["v"][l]
            for k in set(x["f"]) | set(y["f"]):
                out["f"][k] = x["f"].get(k) if x["f"].get(k) == y["f"].get(k) else None
            return out

        def key_of(e, st):
            """buffer/object key denoted by expression e (through accessors and slicing)"""
            for _ in range(30):
                e = strip(e)
                k = e.get("k")
                if k == "Index":
                    # a sub-range of a plain local buffer is a different region: not tracked (whole-buffer facts would
                    # be wrong for it); element/range access through an object's accessor keeps the object's state
                    inner = strip(e["e"])
                    if inner.get("k") == "Path":
                        ity = strip(e["i"])
                        if facts.ty(ity).startswith("std::ops::Range") or ity.get("k") == "Struct":
                            return None
                    e = e["e"]
                elif k in ("Field", "Cast"):
                    e = e["e"]
                elif k == "Block" and e.get("expr") is not None:
                    e = e["expr"]                    # the value of a block (e.g. the surviving branch of a projected `if`)
                elif k == "MCall" and e.get("name") in ACCESSORS:
                    rt = facts.ty_adj(e["recv"])
                    if is_key_ty(rt) or is_key_ty(facts.ty(e["recv"])):
                        return "KEY"
                    if e.get("name") in ("poly", "poly_mut", "poly_component", "poly_component_mut") and e["args"] \
                            and strip(e["args"][0]).get("k") == "Lit":
                        base = key_of(e["recv"], st)
                        if base and base != "KEY":
                            return "%s#%s" % (base, strip(e["args"][0]).get("v"))
                        return base
                    e = e["recv"]
                elif k == "MCall" and (is_key_ty(facts.ty(e["recv"])) or is_key_ty(facts.ty_adj(e["recv"]))):
                    return "KEY"
                elif k == "Call" and (callee(e) or {}).get("name") in ("from_raw_parts", "from_raw_parts_mut") and e["args"]:
                    inner = strip(e["args"][0])
                    if any((callee(y) or {}).get("name") in ("add", "offset") for y in walk(inner)):
                        return None      # pointer arithmetic: some sub-region
                    e = e["args"][0]
                elif k == "Path":
                    if e.get("res") == "local":
                        return st["a"].get(e["lid"])
                    return None
                else:
                    if isinstance(e, dict) and (is_key_ty(facts.ty(e))):
                        return "KEY"
                    return None
            return None

        def get(st, key):
            if key == "KEY":
                return ("ntt", "canon")
            if not key:
                return (U, U)
            if key in st["b"]:
                return st["b"][key]
            if "#" in key:
                return st["b"].get(key.split("#")[0], (U, U))
            return (U, U)

        def setb(st, key, val):
            if key is None or key == "KEY":
                return st
            b = dict(st["b"])
            b[key] = val
            if "#" not in key:
                for k2 in list(b):
                    if k2.startswith(key + "#"):
                        b[k2] = val          # a whole-object operation covers every component
            return {"b": b, "a": st["a"], "v": st["v"], "f": st["f"]}

        def bool_of(e, st):
            e = strip(e)
            k = e.get("k")
            if k == "Lit":
                return True if e.get("v") == "true" else (False if e.get("v") == "false" else None)
            if k == "Path" and e.get("res") == "local":
                return st["v"].get(e["lid"])
            if k == "Un" and e.get("op") == "!":
                x = bool_of(e["e"], st)
                return None if x is None else (not x)
            if k == "MCall" and e.get("name") == "is_ntt_form" and not e["args"]:
                key = key_of(e["recv"], st)
                if key in st["f"]:
                    return st["f"][key]
                return None
            if k == "Bin" and e.get("op") in ("&&", "||"):
                x, y = bool_of(e["a"], st), bool_of(e["b"], st)
                if e["op"] == "&&":
                    if x is False or y is False:
                        return False
                    return True if (x is True and y is True) else None
                if x is True or y is True:
                    return True
                return False if (x is False and y is False) else None
            if k == "Bin" and e.get("op") in ("==", "!="):
                x, y = bool_of(e["a"], st), bool_of(e["b"], st)
                if x is not None and y is not None and facts.ty(e["a"]).lstrip("&") == "bool":
                    return (x == y) if e["op"] == "==" else (x != y)
            if k == "Block" and e.get("expr") and (not e.get("stmts") or e.get("projected")):
                return bool_of(e["expr"], st)
            if k == "Match":
                vals = {bool_of(a["body"], st) for a in e["arms"] if facts.ty(a["body"]) != "!"}
                if len(vals) == 1:
                    return next(iter(vals))
                return None
            if k == "If" and e.get("el"):
                c = bool_of(e["c"], st)
                if c is True:
                    return bool_of(e["th"], st)
                if c is False:
                    return bool_of(e["el"], st)
                a, b = bool_of(e["th"], st), bool_of(e["el"], st)
                return a if a == b else None
            return None

        def report(kind, msg, node, chain=()):
            loc = facts.loc(fpath, node)
            if not any(f[0] == kind and f[2] == loc for f in findings):
                findings.append((kind, msg, loc, (fpath,) + tuple(chain)))

        def need(st, e, want, what, node):
            key = key_of(e, st)
            if key == "KEY":
                return
            r = get(st, key)[0]
            if r in ("coeff", "ntt") and r != want:
                report("domain", "%s needs %s-form data but `%s` is in %s form here" %
                       (what, "NTT" if want == "ntt" else "coefficient", _name(e), "NTT" if r == "ntt" else "coefficient"), node)

        def guard(n, st, sense, kind):
            if kind == "match":
                v = bool_of(n["e"], st)
                pat = sense["pat"]
                if v is not None and pat.get("k") == "PLit" and pat.get("v") in ("true", "false"):
                    if (pat["v"] == "true") != v:
                        return None
                # match (a.is_ntt_form(), b.is_ntt_form()) { (true, false) => .. }
                sc = strip(n["e"])
                if sc.get("k") == "Tup" and pat.get("k") == "PTuple" and len(sc["es"]) == len(pat["ps"]):
                    for comp, q in zip(sc["es"], pat["ps"]):
                        cv = bool_of(comp, st)
                        if cv is not None and q.get("k") == "PLit" and q.get("v") in ("true", "false") and \
                                (q["v"] == "true") != cv:
                            return None
                return st
            if kind in ("if", "while"):
                v = bool_of(n["c"], st)
                if v is not None and v != bool(sense):
                    return None if kind == "if" else (st if not sense else None)
            return st

        def transfer(n, st):
            k = n.get("k")
            if k == "Let":
                pat = n["pat"]
                if pat.get("k") == "PBind" and "init" in n:
                    lid = pat["lid"]
                    t = facts.strs[pat["t"]]
                    init_e = n["init"]
                    if strip_ty(t) == "bool":
                        v = dict(st["v"])
                        bv = bool_of(init_e, st)
                        if bv is None:
                            v.pop(lid, None)
                        else:
                            v[lid] = bv
                        return {"b": st["b"], "a": st["a"], "v": v, "f": st["f"]}
                    src = key_of(init_e, st)
                    e0 = strip(init_e)
                    copies = _makes_copy(e0)
                    a = dict(st["a"])
                    if src is not None and not copies and (t.startswith("&") or src == "KEY"):
                        a[lid] = src                     # alias
                        return {"b": st["b"], "a": a, "v": st["v"], "f": st["f"]}
                    if is_buf_ty(t) or is_obj_ty(t):
                        nk = "L%d" % lid              # one abstract object per binding: a re-bound local is a new object and
                                                      # nothing can still refer to the one it held (it went out of scope)
                        a[lid] = nk
                        val = get(st, src) if src is not None else _fresh_state(facts, e0)
                        b = dict(st["b"])
                        b[nk] = val
                        f = dict(st["f"])
                        if is_obj_ty(t):
                            f[nk] = st["f"].get(src) if src in st["f"] else None
                        return {"b": b, "a": a, "v": st["v"], "f": f}
                    a.pop(lid, None)
                    return {"b": st["b"], "a": a, "v": st["v"], "f": st["f"]}
                return st
            if k == "Assign":
                lhs = strip(n["lhs"])
                if lhs.get("k") == "Path" and lhs.get("res") == "local":
                    t = facts.ty(n["lhs"])
                    if strip_ty(t) == "bool":
                        v = dict(st["v"])
                        bv = bool_of(n["rhs"], st)
                        if bv is None:
                            v.pop(lhs["lid"], None)
                        else:
                            v[lhs["lid"]] = bv
                        return {"b": st["b"], "a": st["a"], "v": v, "f": st["f"]}
                    if is_obj_ty(t) or is_buf_ty(t):
                        src = key_of(n["rhs"], st)
                        dst = st["a"].get(lhs["lid"])
                        copies = _makes_copy(strip(n["rhs"]))
                        if t.startswith("&") and src is not None and not copies:
                            a = dict(st["a"])
                            a[lhs["lid"]] = src          # re-pointing a reference
                            return {"b": st["b"], "a": a, "v": st["v"], "f": st["f"]}
                        if dst is None or (t.startswith("&") is False and dst is not None and dst.startswith("P") is False and copies):
                            dst = "L%d" % lhs["lid"]
                            a = dict(st["a"])
                            a[lhs["lid"]] = dst
                            st = {"b": st["b"], "a": a, "v": st["v"], "f": st["f"]}
                        if dst:
                            st = setb(st, dst, get(st, src) if src else _fresh_state(facts, strip(n["rhs"])))
                            if dst in st["f"] or is_obj_ty(t):
                                f = dict(st["f"])
                                f[dst] = st["f"].get(src) if src in st["f"] else None
                                st = {"b": st["b"], "a": st["a"], "v": st["v"], "f": f}
                        return st
                return st
            if k in ("Call", "MCall"):
                return do_call(n, st)
            if k == "Macro" and n.get("name") == "assert" and n["args"]:
                if bool_of(n["args"][0], st) is False:
                    return None            # this path is refused
            return st

        def do_call(n, st):
            k = n["k"]
            f = callee(n)
            name = f["name"] if f else n.get("name", "")
            args = ([n["recv"]] if k == "MCall" else []) + n["args"]
            d = (f or {}).get("def", "")
            self_ty = (f or {}).get("self", "") or ""
            # ---- flag setter
            if k == "MCall" and name == "set_is_ntt_form" and n["args"]:
                key = key_of(n["recv"], st)
                if key:
                    fl = dict(st["f"])
                    fl[key] = bool_of(n["args"][0], st)
                    return {"b": st["b"], "a": st["a"], "v": st["v"], "f": fl}
                return st
            if k == "MCall" and name == "set_parms_id" and n["args"] and strip_ty(facts.ty_adj(n["recv"])) == "text::Plaintext":
                key = key_of(n["recv"], st)
                if key:
                    a0 = strip(n["args"][0])
                    zero = a0.get("k") == "Path" and a0.get("def", "").endswith("PARMS_ID_ZERO")
                    fl = dict(st["f"])
                    fl[key] = False if zero else (None if a0.get("k") == "Path" and a0.get("res") == "local" and False else True)
                    return {"b": st["b"], "a": st["a"], "v": st["v"], "f": fl}
                return st
            bufargs = [a for a in args if key_of(a, st) is not None]
            # ---- transforms
            base = name
            for suf in ("_ps", "_p"):
                if base.endswith(suf):
                    base = base[:-len(suf)]
            is_poly = d.startswith("util::polysmallmod::")
            is_tables = "NTTTables" in self_ty or "NTTTables" in d
            fwd = (is_poly and base in ("ntt", "ntt_lazy")) or (is_tables and name.startswith("ntt_negacyclic"))
            inv = (is_poly and base in ("intt", "intt_lazy")) or (is_tables and name.startswith("inverse_ntt_negacyclic"))
            if fwd or inv:
                tgt = args[1] if (is_tables and k == "MCall") else args[0]
                key = key_of(tgt, st)
                cur = get(st, key)
                want, new = ("coeff", "ntt") if fwd else ("ntt", "coeff")
                if cur[0] == new and key != "KEY":
                    report("domain", "%s applied to `%s`, which is already in %s form on this path" %
                           (name, _name(tgt), "NTT" if new == "ntt" else "coefficient"), n)
                return setb(st, key, (new, "lazy" if "lazy" in name else "canon"))
            if is_poly and base.startswith("negacyclic_"):
                # multiplication by X^k as an index shift with sign flips: meaningful on coefficient vectors only
                if bufargs:
                    need(st, bufargs[0], "coeff", name + " (a shift of coefficient positions)", n)
                out = args[0] if "inplace" in base else (bufargs[-1] if bufargs else None)
                return setb(st, key_of(out, st) if out is not None else None, ("coeff", "canon"))
            if is_poly and base.startswith("dyadic_product"):
                out = args[0] if "inplace" in base else (bufargs[-1] if bufargs else None)
                ins = bufargs if "inplace" in base else bufargs[:-1]
                for a in ins:
                    need(st, a, "ntt", name + " (a polynomial product only in NTT form)", n)
                return setb(st, key_of(out, st) if out is not None else None, ("ntt", "canon"))
            if is_poly and (base.startswith("add") or base.startswith("sub")) and "scalar" not in base:
                reps = [(a, get(st, key_of(a, st))[0]) for a in bufargs[:2 if "inplace" in base else 3]]
                known = [(a, r) for a, r in reps if r in ("coeff", "ntt")]
                if len({r for _, r in known}) > 1:
                    report("mix", "%s combines `%s` (%s form) with `%s` (%s form): the sum is meaningful in neither "
                           "representation" % (name, _name(known[0][0]), known[0][1], _name(known[1][0]), known[1][1]), n)
                out = args[0] if "inplace" in base else (bufargs[-1] if bufargs else None)
                r = known[0][1] if known else (reps[0][1] if reps else U)
                rng = "canon"
                return setb(st, key_of(out, st) if out is not None else None, (r, rng))
            if is_poly and (base.startswith("negate") or base.startswith("multiply_scalar") or base.startswith("multiply_operand")
                            or base.startswith("modulo") or base.startswith("add_scalar") or base.startswith("sub_scalar")):
                out = args[0] if "inplace" in base else (bufargs[-1] if bufargs else None)
                src = get(st, key_of(bufargs[0], st))[0] if bufargs else U
                return setb(st, key_of(out, st) if out is not None else None, (src, "canon"))
            # ---- RNS tool / Galois tool: documented domains
            if "RNSTool" in self_ty or "RNSTool" in d:
                want = "ntt" if "_ntt_" in name else ("coeff" if name in (
                    "divide_and_round_q_last_inplace", "mod_t_and_divide_q_last_inplace", "decrypt_scale_and_round",
                    "decrypt_mod_t", "fastbconv_m_tilde", "sm_mrq", "fast_floor", "fastbconv_sk") else None)
                if want and len(args) > 1:
                    need(st, args[1], want, "RNSTool::" + name, n)
                    if name.endswith("inplace"):
                        return setb(st, key_of(args[1], st), (want, "canon"))
                    if len(args) > 2:
                        return setb(st, key_of(args[2], st), ("coeff", "canon"))
                return st
            if "GaloisTool" in self_ty or "GaloisTool" in d:
                if name in ("apply_p", "apply_ps", "apply"):
                    need(st, args[1], "coeff", "GaloisTool::" + name, n)
                    return setb(st, key_of(args[-1], st), ("coeff", "canon"))
                if name in ("apply_ntt_p", "apply_ntt_ps", "apply_ntt"):
                    need(st, args[1], "ntt", "GaloisTool::" + name, n)
                    return setb(st, key_of(args[-1], st), ("ntt", "canon"))
                return st
            if d.startswith("util::rlwe::sample::"):
                out = bufargs[-1] if bufargs else None
                val = ("any", "canon") if name == "uniform" else ("coeff", "canon")
                return setb(st, key_of(out, st) if out is not None else None, val)
            if name == "poly_infty_norm" and bufargs:
                # the centred infinity norm of a polynomial is a statement about its COEFFICIENTS
                need(st, bufargs[0], "coeff", "poly_infty_norm (a norm of coefficients)", n)
                return st
            # ---- wire sink
            if name == "write_u64_limited" and len(args) >= 2:
                key = key_of(args[1], st)
                if get(st, key)[1] == "lazy":
                    report("wire", "lazy (non-canonical, up to 2q or 4q) residues of `%s` reach write_u64_limited, whose byte "
                           "width is computed from q: values >= 2^(8*limit) cannot be written (the writer asserts) and the "
                           "format carries non-canonical residues" % _name(args[1]), n)
                return st
            # ---- copies
            if name in ("copy_from_slice", "clone_from_slice") and k == "MCall" and n["args"]:
                return setb(st, key_of(n["recv"], st), get(st, key_of(n["args"][0], st)))
            if name == "set_uint" and len(args) >= 3:
                return setb(st, key_of(args[2], st), get(st, key_of(args[0], st)))
            if name in ("fill", "set_zero_uint", "set_zero_poly") and args:
                key = key_of(args[0], st)
                whole = strip(args[0]).get("k") in ("Path", "MCall") and strip(args[0]).get("k") != "Index"
                if key and whole and strip(args[0]).get("k") == "Path":
                    return setb(st, key, ("any", "canon"))
                return st
            # ---- local callee: summary under the caller's knowledge
            if f and f.get("local"):
                tk = target_key(f)
                cit = facts.items.get(tk)
                own_method = cit is not None and strip_ty(cit.get("impl_self", "")) in OBJ_TYPES + KEY_TYPES
                if tk in facts.hir and cit is not None and (not tk.startswith("util::") or tk.startswith("util::rlwe::encrypt_zero"))  \
                        and not own_method:
                    asm = {}
                    for j, a in enumerate(args):
                        if j >= len(cit["params"]):
                            break
                        pty = cit["params"][j].get("ty", "")
                        if is_obj_ty(pty):
                            key = key_of(a, st)
                            fl = st["f"].get(key) if key else None
                            if fl is None and key:
                                r = get(st, key)[0]
                                fl = True if r == "ntt" else (False if r == "coeff" else None)
                            if fl is not None:
                                asm["flag:%d" % j] = fl
                        elif is_buf_ty(pty):
                            r = get(st, key_of(a, st))
                            if r[0] in ("coeff", "ntt"):
                                asm["repr:%d" % j] = r[0]
                                if r[1] in ("canon", "lazy"):
                                    asm["range:%d" % j] = r[1]
                        elif pty == "bool":
                            bv = bool_of(a, st)
                            if bv is not None:
                                asm["bool:%d" % j] = bv
                    s = eng.summary(tk, asm)
                    if s is not None:
                        for fd in s.findings:
                            if not any(x[0] == fd[0] and x[2] == fd[2] for x in findings):
                                findings.append((fd[0], fd[1], fd[2], (fpath,) + tuple(fd[3])))
                        if not s.normal:
                            return None
                        for j, val in s.out.items():
                            if j < len(args):
                                key = key_of(args[j], st)
                                if key:
                                    st = setb(st, key, val)
                        for j, fl in s.flags.items():
                            if j < len(args):
                                key = key_of(args[j], st)
                                if key and key != "KEY":
                                    fd = dict(st["f"])
                                    fd[key] = fl
                                    st = {"b": st["b"], "a": st["a"], "v": st["v"], "f": fd}
                        return st
            return st

        # loops are assumed to run at least once (a polynomial-count / component loop that does not run leaves
        # nothing to be wrong about); this keeps buffer states definite across the per-polynomial loops
        fl = Flow(facts, join, transfer, guard=guard, closure_mode="maybe", loops_at_least_once=True)
        fl.run(body, init)
        rets = fl.rets
        if not rets:
            summ.normal = False
            return summ
        for j, p in enumerate(it["params"]):
            if p["pat"].get("k") != "PBind":
                continue
            ty = p.get("ty", "")
            key = ("P%d" % j)
            if ty.startswith("&mut ") and (is_obj_ty(ty) or is_buf_ty(ty)):
                vals = {st["b"].get(key, (U, U)) for st, _ in rets}
                if len(vals) == 1:
                    summ.out[j] = vals.pop()
                else:
                    rs = {v[0] for v in vals}
                    gs = {v[1] for v in vals}
                    summ.out[j] = (rs.pop() if len(rs) == 1 else U, gs.pop() if len(gs) == 1 else ("lazy" if "lazy" in gs else U))
                if is_obj_ty(ty):
                    fls = {st["f"].get(key) for st, _ in rets}
                    summ.flags[j] = fls.pop() if len(fls) == 1 else None
        # (exit) objects: data representation vs recorded flag, canonical range
        for st, node in rets:
            for j, p in enumerate(it["params"]):
                if p["pat"].get("k") != "PBind":
                    continue
                ty = p.get("ty", "")
                if ty.startswith("&mut ") and is_obj_ty(ty):
                    key = "P%d" % j
                    fl = st["f"].get(key)
                    nm = p["pat"]["name"]
                    for k2 in [key] + [x for x in st["b"] if x.startswith(key + "#")]:
                        r, g = st["b"].get(k2, (U, U))
                        part = nm if k2 == key else "%s.poly(%s)" % (nm, k2.split("#")[1])
                        if fl is not None and r in ("coeff", "ntt") and (r == "ntt") != fl:
                            report("exit", "`%s` leaves %s with data in %s form but is_ntt_form() == %s" %
                                   (part, fpath, "NTT" if r == "ntt" else "coefficient", str(fl).lower()), node)
                        if g == "lazy":
                            report("exit", "`%s` leaves %s with lazy (non-canonical) residues" % (part, fpath), node)
        return summ


def _makes_copy(e):
    e = strip(e)
    for _ in range(6):
        if e.get("k") == "MCall":
            if e.get("name") in ("to_vec", "clone", "to_owned", "collect"):
                return True
            e = strip(e["recv"])
        else:
            break
    return False


def _fresh_state(facts, e):
    f = callee(e) if isinstance(e, dict) else None
    if f and f["name"] in ("from_elem", "new", "with_capacity", "default"):
        return ("any", "canon")
    return (U, U)


def _name(e):
    rl = root_local(e)
    return rl[1] if rl else "<expr>"


def enumerate_assumptions(facts, fpath):
    it = facts.items[fpath]
    atoms = []
    for j, p in enumerate(it["params"]):
        if p["pat"].get("k") != "PBind":
            continue
        ty = p.get("ty", "")
        if is_obj_ty(ty) and not (ty.startswith("&mut ") and p["pat"]["name"] in ("destination", "result")):
            atoms.append("flag:%d" % j)
        elif ty == "bool":
            atoms.append("bool:%d" % j)
    atoms = atoms[:4]
    out = []
    for m in range(1 << len(atoms)):
        out.append({a: bool((m >> i) & 1) for i, a in enumerate(atoms)})
    return out, atoms


def run(facts, rep, entries, rule="R-REPSTATE"):
    rep.rule(rule, "per assumption on the is_ntt_form flags / bool parameters: no pointwise operation mixes coefficient-form "
             "and NTT-form operands, every transform / dyadic product / RNSTool / GaloisTool routine gets the "
             "representation it is written for, objects leave with data matching their flag and canonical residues, lazy "
             "residues never reach the wire writer")
    eng = RepEngine(facts)
    n = 0
    for p in sorted(entries):
        if p not in facts.hir:
            continue
        rep.fn(p)
        asms, atoms = enumerate_assumptions(facts, p)
        allf = []
        for asm in asms:
            n += 1
            rep.stats["paths"] += 1
            s = eng.summary(p, asm)
            if s is None:
                continue
            for fd in s.findings:
                allf.append((asm, fd))
        seen = set()
        for asm, (kind, msg, loc, chain) in allf:
            key = "%s/%s@%s" % (p, kind, chain[-1].rsplit("::", 1)[-1])
            if key in seen:
                continue
            seen.add(key)
            cond = ", ".join("%s=%s" % (_atom_name(facts, p, a), str(v).lower()) for a, v in sorted(asm.items())) or "always"
            rep.violation(rule, key, "%s [when %s; path %s]" % (msg, cond, " > ".join(c.rsplit("::", 1)[-1] for c in chain)), loc)
        if not allf:
            rep.ok(rule, p, "%d assumption(s) over {%s}: representations consistent on every path" %
                   (len(asms), ", ".join(_atom_name(facts, p, a) for a in atoms) or "-"), facts.loc(p),
                   nontrivial=bool(atoms), sample={"entry": p, "assumptions": len(asms)})
    return n


def _atom_name(facts, p, a):
    kind, j = a.split(":")
    it = facts.items[p]
    nm = it["params"][int(j)]["pat"].get("name", "?")
    return ("%s.is_ntt_form" % nm) if kind == "flag" else nm
