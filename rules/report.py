"""Result collection, known-finding handling, evidence writing and the exit/IO contract."""
import json
import os
import re
import sys
import time

VERIF = os.path.dirname(os.path.dirname(os.path.abspath(__file__)))

OK, VIOL, UNRES, ADVISORY = "ok", "violation", "unresolved", "advisory"


def _load_known():
    p = os.path.join(VERIF, "known_findings.json")
    if not os.path.isfile(p):
        return {}
    with open(p) as fh:
        data = json.load(fh)
    out = {}
    for f in data.get("findings", []):
        out[(f["property"], f["key"])] = f.get("what", "")
    return out


class Report:
    def __init__(self, pid, tier, facts, explanation, undecided, design_ref=""):
        self.pid = pid
        self.tier = tier
        self.facts = facts
        self.explanation = explanation
        self.undecided = undecided
        self.t0 = time.time()
        self.instances = []      # dicts
        self.rules = {}          # rule -> text
        self.stats = {"functions_analysed": set(), "call_sites": 0, "paths": 0}
        self.notes = []
        self.known = _load_known()
        self.extra = {}

    # -------------------------------------------------------------- recording
    def rule(self, name, text):
        self.rules[name] = text

    def fn(self, path):
        self.stats["functions_analysed"].add(path)

    def add(self, rule, key, verdict, msg, loc="", nontrivial=True, sample=None):
        """key: position-free identity of the instance: '<rule>/<def-path>[/<instance>]'."""
        self.instances.append({"rule": rule, "key": "%s/%s" % (rule, key), "verdict": verdict, "msg": msg,
                               "loc": loc, "nontrivial": nontrivial, "sample": sample})

    def ok(self, rule, key, msg, loc="", nontrivial=True, sample=None):
        self.add(rule, key, OK, msg, loc, nontrivial, sample)

    def violation(self, rule, key, msg, loc="", sample=None):
        self.add(rule, key, VIOL, msg, loc, True, sample)

    def unresolved(self, rule, key, msg, loc=""):
        self.add(rule, key, UNRES, msg, loc, True)

    def advisory(self, rule, key, msg, loc=""):
        self.add(rule, key, ADVISORY, msg, loc, True)

    def floor(self, rule, what, actual, minimum):
        """Fail closed when a rule matched fewer instances than were confirmed by hand."""
        if actual < minimum:
            self.violation(rule, "floor/" + what,
                           "below-floor: %s matched %d instance(s), expected at least %d — an anchor moved or "
                           "the rule no longer sees the code it was written for" % (what, actual, minimum))
        else:
            self.ok(rule, "floor/" + what, "%s: %d instance(s) (floor %d)" % (what, actual, minimum), nontrivial=False)

    def ceiling(self, rule, what, actual, maximum):
        if actual > maximum:
            self.violation(rule, "ceiling/" + what,
                           "above-ceiling: %s = %d exceeds %d — the rule meets idioms it does not model; "
                           "the check is not vouching for them" % (what, actual, maximum))

    def anchor(self, rule, what, present):
        if not present:
            self.violation(rule, "anchor/" + what, "anchor-missing: %s not found in the extracted program" % what)
        return present

    def note(self, s):
        self.notes.append(s)

    def count(self, rule=None, verdict=None):
        return sum(1 for i in self.instances if (rule is None or i["rule"] == rule) and
                   (verdict is None or i["verdict"] == verdict))

    # -------------------------------------------------------------- output
    def finish(self):
        pid = self.pid
        evdir = os.path.join(VERIF, "evidence")
        rpdir = os.path.join(evdir, "replay")
        os.makedirs(rpdir, exist_ok=True)
        viols = [i for i in self.instances if i["verdict"] == VIOL]
        new, known = [], []
        for v in viols:
            if (pid, v["key"]) in self.known:
                known.append(v)
            else:
                new.append(v)
        out = []
        per_rule = {}
        for i in self.instances:
            r = per_rule.setdefault(i["rule"], {OK: 0, VIOL: 0, UNRES: 0, ADVISORY: 0})
            r[i["verdict"]] += 1
        out.append("== %s (%s tier) — %d rule instance(s) over %d function(s)" %
                   (pid, self.tier, len(self.instances), len(self.stats["functions_analysed"])))
        for r in sorted(per_rule):
            c = per_rule[r]
            out.append("  %-12s ok=%d violation=%d unresolved=%d advisory=%d" %
                       (r, c[OK], c[VIOL], c[UNRES], c[ADVISORY]))
        for i in self.instances:
            if i["verdict"] == UNRES:
                out.append("  unresolved %s %s: %s" % (i["loc"], i["key"], i["msg"]))
            elif i["verdict"] == ADVISORY:
                out.append("  advisory   %s %s: %s" % (i["loc"], i["key"], i["msg"]))
        for n in self.notes:
            out.append("  note: " + n)
        for v in known:
            out.append("KNOWN-FINDING: property=%s %s (%s) %s" % (pid, v["key"], v["loc"], v["msg"]))
        for v in new:
            safe = re.sub(r"[^A-Za-z0-9_.-]+", "_", v["key"])[:150]
            rp = os.path.join(rpdir, "%s-%s.json" % (pid, safe))
            with open(rp, "w") as fh:
                json.dump({"property": pid, "key": v["key"], "rule": v["rule"], "loc": v["loc"], "msg": v["msg"],
                           "rule_text": self.rules.get(v["rule"], ""), "sample": v["sample"]}, fh, indent=1)
            out.append("%s: [%s] %s\n    key=%s" % (v["loc"] or "?", v["rule"], v["msg"], v["key"]))
            out.append("VIOLATION property=%s replay=%s" % (pid, rp))
        wall = time.time() - self.t0
        samples = []
        seen_rules = set()
        for i in self.instances:
            if i["nontrivial"] and i["rule"] not in seen_rules and i["verdict"] in (OK, VIOL):
                seen_rules.add(i["rule"])
                samples.append({"rule": i["rule"], "instance": i["key"], "at": i["loc"], "verdict": i["verdict"],
                                "judgement": i["msg"], "detail": i["sample"]})
        for i in self.instances:
            if len(samples) >= 12:
                break
            if i["nontrivial"] and i["verdict"] == OK and not any(s["instance"] == i["key"] for s in samples):
                samples.append({"rule": i["rule"], "instance": i["key"], "at": i["loc"], "verdict": i["verdict"],
                                "judgement": i["msg"], "detail": i["sample"]})
        nontrivial_keys = {i["key"] for i in self.instances if i["nontrivial"]}
        obligations = len(self.instances)
        discharged = sum(1 for i in self.instances if i["verdict"] == OK)
        ev = {
            "property_id": pid,
            "tier": self.tier,
            "seed": int(os.environ.get("VERIF_SEED", "0") or 0),
            "level": "other",
            "coverage": {
                "explanation": self.explanation + "  NOT DECIDED: " + self.undecided,
                "rule": "every rule instance (entry point x operand x rule) enumerated from the extracted "
                        "program of the current working tree; an instance is non-trivial when its verdict needed a "
                        "path, slice, dataflow or grammar comparison rather than an anchor/floor lookup; distinct = "
                        "distinct position-free instance keys",
                "evaluations": obligations,
                "distinct_nontrivial": len(nontrivial_keys),
                "obligations": obligations,
                "discharged": discharged,
                "unresolved": sum(1 for i in self.instances if i["verdict"] == UNRES),
                "advisory": sum(1 for i in self.instances if i["verdict"] == ADVISORY),
                "functions_analysed": len(self.stats["functions_analysed"]),
                "call_sites": self.stats["call_sites"],
                "paths": self.stats["paths"],
                "per_rule": per_rule,
                "rules": self.rules,
                "samples": samples or [{"note": "no non-trivial instance"}],
                "known_findings_matched": [v["key"] for v in known],
                "checker_cmd": "bin/hcheck %s --tier %s" % (pid, self.tier),
                "trusted_base": ["rustc nightly front end (HIR/MIR construction, type check, trait resolution)",
                                 "hcx export (spot-checked by fixtures)", "rule tables under /verif/rules"],
                "facts": os.path.basename(self.facts.dir) if self.facts else "",
                "repo": self.facts.repo if self.facts else "",
                "exhaustive": True,
            },
            "assumptions": [
                "static analysis only: decides the structural clauses named in coverage.explanation, not the "
                "value-level behaviour",
                "rustc's type check and MIR construction are correct",
                "rule tables reflect the repository's idioms (each row carries its reason)",
            ],
            "wall_s": round(wall, 3),
            "violations": len(new),
        }
        ev["coverage"].update(self.extra)
        # evidence is only (re)written for the real repository, not for scratch copies
        if os.environ.get("HCHECK_NO_EVIDENCE") != "1":
            with open(os.path.join(evdir, "%s.json" % pid), "w") as fh:
                json.dump(ev, fh, indent=1, sort_keys=True)
        print("\n".join(out))
        sys.stdout.flush()
        return 1 if new else 0
