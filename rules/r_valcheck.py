"""R-VALCHECK — sibling agreement and coverage of the ValCheck implementations (C06 clause (e)).

`is_valid_for` is what every refusal of an invalid operand rests on (R-GUARD checks that it is CALLED; this
rule checks that it LOOKS at everything).  [N] judgements:
 (conj)    the default is_valid_for is the conjunction of is_data_valid_for and is_buffer_valid;
 (meta1st) every direct is_data_valid_for refuses first when is_metadata_valid_for fails;
 (cover)   for Ciphertext, the three functions together read every field of the struct except the
           representation flag (table exclusion: both representations are valid) — a field that validity never
           looks at can be corrupted without being refused;
 (loops)   each direct implementation compares every residue with its modulus: a refusing `data_at(..) >= modulus`
           inside a loop nest over (polynomials x) RNS components x coefficients, the component offset advancing by
           the coefficient bound;
 (deleg)   container implementations (KSwitchKeys, RelinKeys, GaloisKeys) delegate each of the three functions to
           the same-named function of what they contain.
"""
from facts import walk, callee, strip, local_of, Tree, Defs

TRAIT = "valcheck::ValCheck"


def impl_of(facts, ty, name):
    for p, it in facts.items.items():
        if it.get("impl_trait") == TRAIT and it.get("impl_self") == ty and it["name"] == name:
            return p
    return None


def _units(facts, p):
    """p and the file-local free/associated helper functions it calls (two levels), with their call sites"""
    file = facts.items[p]["file"]
    units, sites, work = [p], {}, [p]
    while work:
        g = work.pop()
        for x in walk(facts.hir[g]):
            f = callee(x)
            if f and f.get("local") and x.get("k") in ("Call", "MCall"):
                d = f.get("inst") if f.get("inst") in facts.hir else f["def"]
                it = facts.items.get(d)
                if d in facts.hir and it and it.get("file") == file and not it.get("impl_trait") and d != p:
                    sites.setdefault(d, []).append((g, x))
                    if d not in units and len(units) < 6:
                        units.append(d)
                        work.append(d)
    return units, sites


def _scan_ok(facts, p, want_size):
    units, sites = _units(facts, p)
    defs = {g: Defs(facts.hir[g]) for g in units}
    trees = {g: Tree(facts.hir[g]) for g in units}

    def names_of(e, g, depth=0):
        """names of callees / paths in the transitive definition closure of e, crossing helper parameters to the
        arguments at the helper's call sites"""
        out = set()
        it = facts.items[g]
        plids = {q["pat"]["lid"]: j for j, q in enumerate(it["params"]) if q["pat"].get("k") == "PBind"}
        for y in defs[g].closure(e):
            if y.get("k") in ("Path", "MCall", "Call"):
                nm = y.get("name") or (callee(y) or {}).get("name")
                if nm:
                    out.add(nm)
            if y.get("k") == "Index":
                out.add("<index>")
            if y.get("k") == "Path" and y.get("res") == "local" and y["lid"] in plids and depth < 3:
                j = plids[y["lid"]]
                for caller, call in sites.get(g, []):
                    args = ([call["recv"]] if call["k"] == "MCall" else []) + call["args"]
                    if j < len(args):
                        out |= names_of(args[j], caller, depth + 1)
        return out

    ncmp = 0
    detail = ""
    for g in units:
        body = facts.hir[g]
        for x in walk(body):
            if x.get("k") != "If":
                continue
            c = strip(x["c"])
            if c.get("k") != "Bin" or c.get("op") != ">=":
                continue
            lhs_data = any((callee(y) or {}).get("name") == "data_at" for y in walk(c["a"])) or \
                any(y.get("k") == "Index" and "u64" in facts.ty(y["e"]) + facts.ty_adj(y["e"]) for y in walk(c["a"]))
            refuses = any(y.get("k") == "Ret" and strip(y.get("e") or {}).get("v") == "false" for y in walk(x["th"]))
            if not (lhs_data and refuses):
                continue
            # a helper's refusal must be propagated by every caller
            if g != p:
                dropped = [1 for caller, call in sites.get(g, []) if (trees[caller].up(call) or {}).get("k") == "Semi"]
                if dropped:
                    detail = "the result of the scanning helper is discarded"
                    continue
            ncmp += 1
            fors = [a for a in trees[g].ancestors(x) if a.get("k") == "For"]
            bnames = [names_of(f["iter"], g) for f in fors]
            has_n = any("poly_modulus_degree" in b_ for b_ in bnames)
            comp = [f for f, b_ in zip(fors, bnames) if "coeff_modulus" in b_ and "poly_modulus_degree" not in b_]
            has_s = any("size" in b_ for b_ in bnames)
            modulus_from_j = "<index>" in names_of(c["b"], g) and "coeff_modulus" in names_of(c["b"], g)
            if not (has_n and comp and modulus_from_j and (has_s or not want_size)):
                continue
            stride = any(y.get("k") == "AssignOp" and y.get("op", "").startswith("+") and
                         "poly_modulus_degree" in names_of(y["rhs"], g) for y in walk(comp[0]["body"]))
            if stride:
                return True, "", ncmp
            detail = "the component offset does not advance by poly_modulus_degree"
    return False, detail, ncmp


def run(facts, rep):
    R = "R-VALCHECK"
    rep.rule(R, "is_valid_for = data && buffer; data validity refuses first on metadata; Ciphertext validity reads every "
             "field but the representation flag; residue loops compare every residue with its modulus; containers delegate")
    # (conj)
    d = "valcheck::ValCheck::is_valid_for"
    if rep.anchor(R, d, d in facts.hir):
        rep.fn(d)
        b = strip(facts.hir[d].get("expr") or {})
        names = sorted((callee(x) or {}).get("name", "") for x in walk(facts.hir[d]) if x.get("k") == "MCall")
        if b.get("k") == "Bin" and b.get("op") == "&&" and names == ["is_buffer_valid", "is_data_valid_for"]:
            rep.ok(R, "conj", "is_valid_for = is_data_valid_for && is_buffer_valid", facts.loc(d))
        else:
            rep.violation(R, "conj", "the default is_valid_for is no longer the conjunction of is_data_valid_for and "
                          "is_buffer_valid (it calls %s)" % names, facts.loc(d))
    direct = ["text::Plaintext", "text::Ciphertext", "key::SecretKey", "key::PublicKey"]
    cont = ["key::KSwitchKeys", "key::RelinKeys", "key::GaloisKeys"]
    n = 0
    for ty in direct:
        p = impl_of(facts, ty, "is_data_valid_for")
        if not rep.anchor(R, "%s::is_data_valid_for" % ty, p is not None):
            continue
        n += 1
        rep.fn(p)
        body = facts.hir[p]
        first = (body.get("stmts") or [None])[0]
        e = strip(first.get("e")) if first and first.get("k") in ("Semi", "Expr") else {}
        ok = e.get("k") == "If" and any((callee(x) or {}).get("name") == "is_metadata_valid_for" for x in walk(e["c"])) and \
            any(x.get("k") == "Ret" and strip(x.get("e") or {}).get("v") == "false" for x in walk(e["th"]))
        key = "%s/meta1st" % ty.rsplit("::", 1)[1]
        if ok:
            rep.ok(R, key, "refuses first when the metadata is invalid", facts.loc(p), nontrivial=False)
        else:
            rep.violation(R, key, "%s::is_data_valid_for no longer starts by refusing invalid metadata: the residue loops "
                          "index with unvalidated sizes" % ty, facts.loc(p))
        # (loops) — the scan may live in the implementation itself or in a file-local helper it calls
        key = "%s/loops" % ty.rsplit("::", 1)[1]
        want_size = ty in ("text::Ciphertext", "key::PublicKey")
        good, detail, ncmp = _scan_ok(facts, p, want_size)
        if good:
            rep.ok(R, key, "every residue is compared with its modulus (polynomials x components x coefficients, stride = N)",
                   facts.loc(p), sample={"type": ty, "comparisons": ncmp})
        else:
            rep.violation(R, key, "%s::is_data_valid_for does not compare every residue with its modulus over the full "
                          "(polynomials x) components x coefficients nest%s: an out-of-range residue can pass validation" %
                          (ty, (": " + detail) if detail else ""), facts.loc(p))
    # (bounds) the BGV correction factor must be a unit below t: the refusal excludes cf == 0 and cf >= t
    pm = impl_of(facts, "text::Ciphertext", "is_metadata_valid_for")
    if rep.anchor(R, "text::Ciphertext::is_metadata_valid_for", pm is not None):
        rep.fn(pm)
        body = facts.hir[pm]
        defs = Defs(body)

        def names(e):
            return {y.get("name") or (callee(y) or {}).get("name") for y in defs.closure(e) if y.get("k") in ("Path", "MCall", "Call")}
        found = []
        for x in walk(body):
            if x.get("k") == "Bin" and x.get("op") in (">", ">=", "<", "<="):
                na, nb = names(x["a"]), names(x["b"])
                if "correction_factor" in na and "plain_modulus" in nb:
                    found.append((x, x["op"]))
                elif "correction_factor" in nb and "plain_modulus" in na:
                    found.append((x, {"<": ">", "<=": ">=", ">": "<", ">=": "<="}[x["op"]]))
        key = "Ciphertext/bounds/correction_factor"
        if not found:
            rep.violation(R, key, "Ciphertext::is_metadata_valid_for never compares the correction factor with the plain "
                          "modulus: a factor of t or more (not a unit modulo t) is accepted", facts.loc(pm))
        elif all(op in (">=", "<") for _, op in found):        # refuse cf >= t  /  accept cf < t: equality is out
            zero = any(x.get("k") == "Bin" and x.get("op") in ("==", "!=") and "correction_factor" in names(x["a"]) | names(x["b"]) and
                       any(strip(z).get("v") == "0" for z in (x["a"], x["b"])) for x in walk(body))
            if zero:
                rep.ok(R, key, "refuses cf == 0 and cf >= t", facts.loc(pm, found[0][0]))
            else:
                rep.violation(R, key, "the correction factor 0 is not refused", facts.loc(pm, found[0][0]))
        elif any(op in (">", "<=") for _, op in found):        # refuse cf > t  /  accept cf <= t: equality passes
            rep.violation(R, key, "the correction factor is refused only when it EXCEEDS t: cf == t (0 modulo t, not a unit) "
                          "passes validation, and products / mod-switches of such an operand carry correction factor 0",
                          facts.loc(pm, found[0][0]))
        else:
            rep.unresolved(R, key, "comparison of the correction factor with t has an unmodelled form", facts.loc(pm, found[0][0]))
    # (cover) Ciphertext
    t = facts.types.get("text::Ciphertext")
    if rep.anchor(R, "text::Ciphertext", t is not None):
        fields = [f["name"] for f in t["variants"][0]["fields"]]
        EXCL = {"is_ntt_form": "both representations are valid; acceptance is per operation"}
        read = set()
        for nm in ("is_metadata_valid_for", "is_buffer_valid", "is_data_valid_for"):
            p = impl_of(facts, "text::Ciphertext", nm)
            if p:
                for x in walk(facts.hir[p]):
                    if x.get("k") == "MCall" and strip(x["recv"]).get("k") == "Path" and strip(x["recv"]).get("name") == "self":
                        read.add(x["name"])
        alias = {"data": {"data", "data_at"}, "size": {"size"}, "parms_id": {"parms_id"}, "scale": {"scale"},
                 "correction_factor": {"correction_factor"}, "coeff_modulus_size": {"coeff_modulus_size"},
                 "poly_modulus_degree": {"poly_modulus_degree"}}
        missing = [f for f in fields if f not in EXCL and not (alias.get(f, {f}) & read)]
        if missing:
            rep.violation(R, "Ciphertext/cover", "Ciphertext validity never reads field(s) {%s}: a corruption of that field is "
                          "not refused" % ", ".join(missing), facts.loc(impl_of(facts, "text::Ciphertext", "is_metadata_valid_for")))
        else:
            rep.ok(R, "Ciphertext/cover", "validity reads every field of Ciphertext except {%s}" % ", ".join(EXCL), "src/valcheck.rs",
                   sample={"fields": fields, "accessors_read": sorted(read)})
    # (deleg)
    for ty in cont:
        for nm in ("is_metadata_valid_for", "is_buffer_valid", "is_data_valid_for"):
            p = impl_of(facts, ty, nm)
            if not rep.anchor(R, "%s::%s" % (ty, nm), p is not None):
                continue
            n += 1
            rep.fn(p)
            inner = [(callee(x) or {}).get("name") for x in walk(facts.hir[p]) if x.get("k") == "MCall" and
                     (callee(x) or {}).get("name", "").startswith("is_")]
            key = "%s/%s/deleg" % (ty.rsplit("::", 1)[1], nm)
            if inner and set(inner) == {nm}:
                rep.ok(R, key, "delegates to the contained objects' %s" % nm, facts.loc(p), nontrivial=False)
            else:
                rep.violation(R, key, "%s::%s delegates to %s instead of the contained objects' %s" % (ty, nm, inner or "nothing", nm),
                              facts.loc(p))
    return n
