"""Iterator position algebra: what element of which sequence does a `for`-pattern binding denote at iteration p?

    for i in a..b                       i       -> ('pos', a)                 value a + p
    for x in X.iter() / iter_mut() / &X x       -> ('elem', root(X), off(X))  element root[off + p]
    for (x, y) in A.zip(B)              aligned: both at the same p
    for (i, x) in A.enumerate()         i       -> ('pos', 0)
    .skip(k)                            offsets + k;   .take(..) / .rev()-free adaptors keep alignment
Slices are resolved through lets:  `let s = &M[a..b]` -> off a;  `let (h, t) = M.split_at(k)` -> h off 0, t off k;
`M[..n]` -> off 0.  Offsets are r_slotmod polynomials; roots are canonical accessor texts (Sym.canon).
Anything else makes the binding unknown (None): clients must treat unknown as `unresolved`, never as a violation.
"""
from facts import walk, strip, local_of
from r_slotmod import Sym, padd, pconst

ADAPT_KEEP = {"iter", "iter_mut", "into_iter", "by_ref", "copied", "cloned", "take", "peekable"}


class IterPos:
    def __init__(self, facts, body, sym=None):
        self.facts = facts
        self.sym = sym or Sym(facts, body)
        self.lets = {}
        self.splits = {}
        self._split_k = {}
        for x in walk(body):
            if x.get("k") == "Let" and "init" in x:
                if x["pat"].get("k") == "PBind":
                    self.lets[x["pat"]["lid"]] = x["init"]
                elif x["pat"].get("k") == "PTuple" and len(x["pat"]["ps"]) == 2:
                    c = strip(x["init"])
                    if c.get("k") == "MCall" and c.get("name") in ("split_at", "split_at_mut") and c["args"]:
                        h, t = x["pat"]["ps"]
                        if h.get("k") == "PBind":
                            self.splits[h["lid"]] = (c["recv"], None)
                            self._split_k[h["lid"]] = c["args"][0]
                        if t.get("k") == "PBind":
                            self.splits[t["lid"]] = (c["recv"], c["args"][0])
        self.bind = {}          # lid -> ('pos', off poly) | ('elem', root text, off poly)
        for x in walk(body):
            if x.get("k") == "For":
                self._match(x["pat"], self._comps(x["iter"]))

    # sequence denoted by an expression: (root text, offset poly, end poly or None) or None
    def seq(self, e, depth=0):
        if depth > 8:
            return None
        e = strip(e)
        k = e.get("k")
        if k == "MCall" and e.get("name") in ("iter", "iter_mut", "into_iter", "as_slice", "as_mut_slice", "as_ref", "as_mut",
                                              "by_ref", "copied", "cloned", "data", "data_mut") and not e["args"] \
                and e.get("name") not in ("data", "data_mut"):
            return self.seq(e["recv"], depth + 1)
        if k == "Index":
            idx = strip(e["i"])
            if idx.get("k") == "Struct" and "ops::Range" in idx.get("path", ""):
                d = {f["name"]: f["e"] for f in idx["fields"]}
                base = self.seq(e["e"], depth + 1)
                if base is None:
                    return None
                end = base[2]
                if "end" in d:
                    en = self.sym.poly(d["end"])
                    end = padd(base[1], en) if isinstance(en, dict) else None
                if "start" not in d:
                    return (base[0], base[1], end)
                st = self.sym.poly(d["start"])
                return (base[0], padd(base[1], st), end) if isinstance(st, dict) else None
            return None
        if k == "Path" and e.get("res") == "local":
            if e["lid"] in self.splits:
                base_e, off = self.splits[e["lid"]]
                base = self.seq(base_e, depth + 1)
                if base is None:
                    return None
                o = self.sym.poly(off if off is not None else base_e) if off is not None else None
                if off is None:
                    k_ = self.sym.poly(self._split_k.get(e["lid"])) if self._split_k.get(e["lid"]) is not None else None
                    return (base[0], base[1], padd(base[1], k_) if isinstance(k_, dict) else None)
                return (base[0], padd(base[1], o), base[2]) if isinstance(o, dict) else None
            if e["lid"] in self.lets:
                inner = self.seq(self.lets[e["lid"]], depth + 1)
                if inner is not None:
                    return inner
            return ("%s#%d" % (e["name"], e["lid"]), {}, None)
        if k in ("Field", "MCall"):
            return (self.sym.canon(e), {}, None)
        return None

    def _comps(self, it):
        """component tree of an iterator expression: leaf = ('pos', off) / ('elem', root, off) / None; tuple for zip/enumerate"""
        it = strip(it)
        k = it.get("k")
        if k == "Struct" and "ops::Range" in it.get("path", ""):
            d = {f["name"]: f["e"] for f in it["fields"]}
            st = self.sym.poly(d.get("start")) if d.get("start") is not None else {}
            en = self.sym.poly(d.get("end")) if d.get("end") is not None else None
            return ("pos", st, en if isinstance(en, dict) else None) if isinstance(st, dict) else None
        if k == "MCall":
            nm = it.get("name")
            if nm == "zip" and it["args"]:
                return (self._comps(it["recv"]), self._comps(it["args"][0]))
            if nm == "enumerate":
                return (("pos", {}, None), self._comps(it["recv"]))
            if nm == "skip" and it["args"]:
                inner = self._comps(it["recv"])
                kpoly = self.sym.poly(it["args"][0])
                return self._shift(inner, kpoly) if isinstance(kpoly, dict) else None
            if nm in ADAPT_KEEP:
                if nm in ("iter", "iter_mut", "into_iter"):
                    s = self.seq(it["recv"])
                    if s is not None:
                        return ("elem", s[0], s[1], s[2])
                    inner = self._comps(it["recv"])
                    return inner
                return self._comps(it["recv"])
            return None
        s = self.seq(it)
        return ("elem", s[0], s[1], s[2]) if s is not None else None

    def _shift(self, c, kpoly):
        if c is None:
            return None
        if isinstance(c, tuple) and c and c[0] == "pos":
            return ("pos", padd(c[1], kpoly), c[2])
        if isinstance(c, tuple) and c and c[0] == "elem":
            return ("elem", c[1], padd(c[2], kpoly), c[3])
        if isinstance(c, tuple):
            return tuple(self._shift(x, kpoly) for x in c)
        return None

    def _match(self, pat, comp):
        k = pat.get("k")
        if k == "PRef":
            return self._match(pat["sub"], comp)
        if k == "PBind":
            if isinstance(comp, tuple) and comp and comp[0] in ("pos", "elem"):
                self.bind[pat["lid"]] = comp
            return
        if k == "PTuple" and isinstance(comp, tuple) and comp and comp[0] not in ("pos", "elem") and len(comp) == len(pat["ps"]):
            for q, c in zip(pat["ps"], comp):
                self._match(q, c)

    def of(self, e):
        """binding description of an expression that is (a deref of) a loop binding, else None"""
        lo = local_of(e)
        return self.bind.get(lo[0]) if lo else None
