"""Witness crate driver: type-level obligations decided by rustc itself (no execution of library code:
`cargo check` for the compile-pass obligations, rustdoc compile_fail doc-tests with error codes for the
must-not-compile witnesses; the compiling twins are only compiled — they contain no calls that run)."""
import fcntl
import os
import re
import shutil
import subprocess

import facts as F

WDIR = os.path.join(F.VERIF, "witness")


def _prepare(repo):
    d = os.path.join(F.CACHE, "witness")
    os.makedirs(os.path.join(d, "src"), exist_ok=True)
    shutil.copy(os.path.join(WDIR, "src", "lib.rs"), os.path.join(d, "src", "lib.rs"))
    with open(os.path.join(WDIR, "Cargo.toml")) as fh:
        toml = fh.read().replace('path = "/repo"', 'path = "%s"' % repo)
    with open(os.path.join(d, "Cargo.toml"), "w") as fh:
        fh.write(toml)
    shutil.copy(os.path.join(repo, "Cargo.lock"), os.path.join(d, "Cargo.lock"))
    return d


def run(rep, repo, doc_tests, rule="WITNESS"):
    rep.rule(rule, "type-level obligations compiled against the current tree: Send+Sync of the shareable types "
             "(compile-pass); compile_fail,E0xxx doc-tests with compiling twins (nightly honours the codes)")
    os.makedirs(F.CACHE, exist_ok=True)
    with open(os.path.join(F.CACHE, "wlock"), "w") as lk:
        fcntl.flock(lk, fcntl.LOCK_EX)
        d = _prepare(repo)
        env = dict(os.environ, CARGO_NET_OFFLINE="true", CARGO_TARGET_DIR=os.path.join(F.CACHE, "wtgt"),
                   RUSTFLAGS="-Awarnings")
        env.pop("RUSTC_WORKSPACE_WRAPPER", None)
        p = subprocess.run(["cargo", "+nightly", "check", "--offline"], cwd=d, env=env,
                           stdout=subprocess.PIPE, stderr=subprocess.STDOUT, text=True)
        src = open(os.path.join(WDIR, "src", "lib.rs")).read()
        obligations = re.findall(r"shareable::<(\w+)>\(\)", src)
        if p.returncode == 0:
            for t in obligations:
                rep.ok(rule, "send_sync/" + t, "%s: Send + Sync holds (compile-pass obligation)" % t, "witness/src/lib.rs",
                       nontrivial=(t in ("Decryptor", "KeyGenerator", "HeContext", "ContextData", "Evaluator")))
        else:
            errs = re.findall(r"error\[E\d+\][^\n]*\n[^\n]*\n[^\n]*\n[^\n]*shareable::<(\w+)>", p.stdout)
            bad = set(errs) or {"?"}
            for t in bad:
                rep.violation(rule, "send_sync/" + t, "Send + Sync obligation for %s no longer compiles: the type gained "
                              "non-thread-safe interior state\n%s" % (t, p.stdout[-1500:]), "witness/src/lib.rs")
            return
        rep.floor(rule, "Send+Sync obligations", len(obligations), 15)
        if not doc_tests:
            return
        p = subprocess.run(["cargo", "+nightly", "test", "--doc", "--offline"], cwd=d, env=env,
                           stdout=subprocess.PIPE, stderr=subprocess.STDOUT, text=True)
        tests = re.findall(r"test src/lib.rs - (\w+) \(line (\d+)\)( - compile fail)? \.\.\. (\w+)", p.stdout)
        for name, line, cf, res in tests:
            key = "doc/%s/%s" % (name, "compile_fail" if cf else "twin")
            if res == "ok":
                rep.ok(rule, key, ("must-not-compile witness rejected with the expected error code" if cf else
                                   "compiling twin accepted"), "witness/src/lib.rs:%s" % line)
            else:
                rep.violation(rule, key, ("witness program now compiles or fails for another reason: the type-level "
                                          "guarantee it documents is gone" if cf else "compiling twin no longer compiles: "
                                          "the witness pair is stale"), "witness/src/lib.rs:%s" % line)
        rep.floor(rule, "doc-test witnesses", len(tests), 8)
