"""R-LOOP — loop variant rule (property C05 termination clause; run crate-wide in the thorough tier).

For every `while` loop: R = locals the exit condition reads, W = locals the condition or body may
write (assignment, `&mut` borrow, `&mut self` method, `&mut` argument).  If R ∩ W = ∅, the
condition is not constant, the condition reads no interior-mutable or external state, and the body
has no break/return/?, then the condition is loop-invariant: once entered, the loop never exits
normally.  For that shape the argument is exact.                                             [N]

Level-walking loops (condition compares `x.parms_id()` with a target): the call in the body that
receives `x` mutably must, on every normally-returning path, pass through a level-setting call
(`resize`/`set_parms_id`) fed from `next_context_data()` — the chain is a finite acyclic list, so
the loop terminates or refuses.  No path through the callee may return normally without advancing
(must-pass-through, interprocedural, depth 6).                                               [N]
"""
from facts import walk, root_local, callee, target_key, Tree, strip, local_of, Defs
from flow import Flow, contains_exit

INTERIOR = ("RwLock", "Mutex", "RefCell", "Cell<", "Atomic", "OnceCell", "OnceLock", "UnsafeCell", "dyn ", "impl ")
PURE_FOREIGN_PREFIX = ("std::cmp::", "core::cmp::", "std::ops::", "core::ops::", "std::vec::Vec::<T, A>::len",
                       "core::slice::<impl [T]>::len", "std::option::Option::<T>::is_some",
                       "std::option::Option::<T>::is_none", "core::slice::<impl [T]>::is_empty",
                       "std::vec::Vec::<T, A>::is_empty", "std::clone::Clone::clone", "std::ops::Deref::deref",
                       "std::convert::", "core::num::", "std::option::Option::<T>::unwrap",
                       "std::option::Option::<T>::as_ref", "std::sync::Arc", "std::borrow::",
                       "core::slice::<impl [T]>::last", "core::slice::<impl [T]>::first",
                       "std::f64::<impl f64>::", "std::string::String::len", "core::str::<impl str>::len")


def cond_reads(cond):
    r = {}
    for x in walk(cond):
        if x.get("k") == "Path" and x.get("res") == "local":
            r[x["lid"]] = x
    return r


def may_writes(facts, nodes):
    w = {}
    for top in nodes:
        for x in walk(top):
            k = x.get("k")
            if k in ("Assign", "AssignOp"):
                rl = root_local(x["lhs"])
                if rl:
                    w[rl[0]] = x
            elif k == "Ref" and x.get("mut"):
                rl = root_local(x["e"])
                if rl:
                    w[rl[0]] = x
            elif k in ("Call", "MCall", "Macro"):
                if k == "MCall":
                    if facts.ty_adj(x["recv"]).startswith("&mut ") or facts.ty(x["recv"]).startswith("&mut "):
                        rl = root_local(x["recv"])
                        if rl:
                            w[rl[0]] = x
                for a in x.get("args", []):
                    if facts.ty_adj(a).startswith("&mut ") or facts.ty(a).startswith("&mut "):
                        rl = root_local(a)
                        if rl:
                            w[rl[0]] = x
    return w


def _pointee(t):
    while t.startswith("&"):
        t = t[1:].lstrip()
        if t.startswith("mut "):
            t = t[4:]
        if t.startswith("'"):
            t = t.split(" ", 1)[1] if " " in t else t
    return t


def cond_is_pure(facts, cond, reads):
    """The condition reads only its locals through Freeze types and pure operations."""
    for lid, node in reads.items():
        t = _pointee(facts.ty(node))
        if any(m in t for m in INTERIOR):
            return False, "local `%s` has interior-mutable type %s" % (node["name"], t)
        base = t.split("<")[0]
        ti = facts.types.get(base)
        if ti is not None and ti.get("freeze") is False:
            return False, "local `%s` of non-Freeze type %s" % (node["name"], t)
        if len(base) <= 2 and base[:1].isupper():
            return False, "local `%s` of generic type %s" % (node["name"], t)
    for x in walk(cond):
        f = callee(x)
        if f is None:
            if x.get("k") == "Call" and not x.get("ctor"):
                return False, "indirect call in the condition"
            continue
        if f.get("local"):
            # local accessor: must take only shared references / values (no &mut) — checked by may_writes
            it = facts.items.get(target_key(f))
            if it is None:
                return False, "unresolved local callee %s" % f["def"]
            continue
        if not f["def"].startswith(PURE_FOREIGN_PREFIX):
            return False, "foreign call %s in the condition is not known to be pure" % f["def"]
    return True, ""


def is_constant(cond):
    c = strip(cond)
    return c.get("k") == "Lit"


# ------------------------------------------------------------------ level-advance (must) analysis
LEVEL_SETTERS = ("resize", "set_parms_id")


def _param_index_of(facts, fpath, lid):
    it = facts.items[fpath]
    for i, p in enumerate(it["params"]):
        if p["pat"].get("k") == "PBind" and p["pat"]["lid"] == lid:
            return i
    return None


def must_advance(facts, fpath, pidx, depth=0, stack=(), next_params=frozenset()):
    """Does every normally-returning path of `fpath` set the level of its parameter #pidx from
    next_context_data (directly or through a callee that must)?  Returns True / False / None(unknown)."""
    if depth > 6 or fpath in stack:
        return None
    body = facts.hir.get(fpath)
    it = facts.items.get(fpath)
    if body is None or it is None or pidx >= len(it["params"]):
        return None
    pat = it["params"][pidx]["pat"]
    if pat.get("k") != "PBind":
        return None
    plid = pat["lid"]
    defs = Defs(body)
    unknown = [False]
    # parameters through which the caller hands down a value derived from next_context_data()
    next_lids = {q["pat"]["lid"] for j, q in enumerate(it["params"]) if j in next_params and q["pat"].get("k") == "PBind"}

    def from_next(b):
        if defs.derives_from_call(b, "next_context_data"):
            return True
        return any(y.get("k") == "Path" and y.get("res") == "local" and y.get("lid") in next_lids for y in defs.closure(b))

    def transfer(n, st):
        k = n.get("k")
        if k in ("MCall", "Call"):
            f = callee(n)
            if f is None:
                return st
            args = ([n["recv"]] if k == "MCall" else []) + n["args"]
            for ai, a in enumerate(args):
                rl = root_local(a)
                if rl and rl[0] == plid and (facts.ty_adj(a).startswith("&mut ") or facts.ty(a).startswith("&mut ")):
                    if f["name"] in LEVEL_SETTERS and ai == 0 and any(from_next(b) for b in args[1:]):
                        return True
                    tk = target_key(f)
                    if tk in facts.items and f.get("local"):
                        np_ = frozenset(j for j, b in enumerate(args) if j != ai and from_next(b))
                        r = must_advance(facts, tk, ai, depth + 1, stack + (fpath,), np_)
                        if r is True:
                            return True
                        if r is None:
                            unknown[0] = True
        return st

    fl = Flow(facts, lambda a, b: a and b, transfer, closure_mode="skip")
    fl.run(body, False)
    states = [s for s, _ in fl.rets]
    if not states:
        return True     # never returns normally (always refuses)
    if all(states):
        return True
    return None if unknown[0] else False


def run(facts, rep, scope_files=None, level_walk=True):
    rep.rule("R-LOOP", "while loop whose exit condition reads nothing the loop writes, is not constant, reads only "
             "Freeze/pure state and has no break/return/? never exits normally")
    rep.rule("R-LOOP(adv)", "level-walking loop: the callee receiving the walked object mutably advances its level "
             "from next_context_data on every normally-returning path (must-pass-through, depth 6)")
    n_loops = 0
    n_walk = 0
    for p in sorted(facts.hir):
        it = facts.items[p]
        if scope_files is not None and it["file"] not in scope_files:
            continue
        body = facts.hir[p]
        loops = [x for x in walk(body) if x.get("k") in ("While", "Loop")]
        if not loops:
            continue
        rep.fn(p)
        idx = 0
        for lp in loops:
            key = "%s/%s#%d" % (p, lp["k"].lower(), idx)
            idx += 1
            n_loops += 1
            loc = facts.loc(p, lp)
            if lp["k"] == "Loop":
                # `loop { if COND { break } .. }` is `while !COND { .. }`: the level-walk clause applies to it as well
                st0 = (lp["body"].get("stmts") or [None])[0] if lp["body"].get("k") == "Block" else None
                e0 = strip(st0.get("e")) if st0 and st0.get("k") in ("Semi", "Expr") else {}
                if e0.get("k") == "If" and not e0.get("el") and any(y.get("k") == "Break" for y in walk(e0["th"])):
                    n_walk += _level_walk(facts, rep, p, lp, e0["c"], lp["body"], idx - 1, loc) if level_walk else 0
                if contains_exit(lp):
                    rep.ok("R-LOOP", key, "`loop` has a break/return/? exit", loc, nontrivial=False)
                else:
                    diverging_call = any(facts.ty(x) == "!" for x in walk(lp["body"]))
                    if diverging_call:
                        rep.ok("R-LOOP", key, "`loop` without break ends by a diverging call", loc, nontrivial=False)
                    else:
                        rep.unresolved("R-LOOP", key, "`loop` without any exit (intentional server loop?)", loc)
                continue
            cond = lp["c"]
            R = cond_reads(cond)
            W = may_writes(facts, [cond, lp["body"]])
            common = set(R) & set(W)
            names_r = sorted({n["name"] for n in R.values()})
            if is_constant(cond):
                if contains_exit(lp):
                    rep.ok("R-LOOP", key, "constant condition with an explicit exit", loc, nontrivial=False)
                else:
                    rep.unresolved("R-LOOP", key, "constant condition and no exit", loc)
                continue
            if common:
                wn = sorted({R[l]["name"] for l in common})
                rep.ok("R-LOOP", key, "condition reads {%s}; loop writes {%s}" % (", ".join(names_r), ", ".join(wn)),
                       loc, sample={"reads": names_r, "written": wn})
            elif contains_exit(lp):
                rep.ok("R-LOOP", key, "condition is loop-invariant but the body has a break/return/? exit", loc)
            else:
                pure, why = cond_is_pure(facts, cond, R)
                if not pure:
                    rep.unresolved("R-LOOP", key, "condition reads {%s}, none written in the loop, but %s" %
                                   (", ".join(names_r), why), loc)
                else:
                    rep.violation("R-LOOP", key,
                                  "loop condition reads only {%s}; the loop body writes none of them (it writes {%s}) "
                                  "and has no break/return: once entered the loop never exits normally" %
                                  (", ".join(names_r), ", ".join(sorted({_name_of(W[l]) for l in W})) or "nothing"),
                                  loc, sample={"reads": names_r})
                continue
            if level_walk:
                n_walk += _level_walk(facts, rep, p, lp, cond, lp["body"], idx - 1, loc)
    if level_walk:
        for p in sorted(facts.hir):
            if scope_files is not None and facts.items[p]["file"] not in scope_files:
                continue
            n_walk += _counted_walks(facts, rep, p)
    return n_loops, n_walk


LEVEL_ENDS = ("first_context_data", "key_context_data", "last_context_data", "first_parms_id", "key_parms_id", "last_parms_id")


def _counted_walks(facts, rep, p):
    """a level walk written as a counted loop `for _ in chain_index(target)..chain_index(current)`: the hop count must be
    measured from the walked object's OWN level (the context data of its parms_id, or of the object it was copied from)"""
    body = facts.hir[p]
    fors = [x for x in walk(body) if x.get("k") == "For"]
    if not fors:
        return 0
    defs = None
    n = 0
    for k, lp in enumerate(fors):
        it = strip(lp["iter"])
        for _ in range(3):
            if it.get("k") == "MCall" and it.get("name") in ("rev", "into_iter"):
                it = strip(it["recv"])
        if not (it.get("k") == "Struct" and "ops::Range" in it.get("path", "")):
            continue
        d = {f["name"]: f["e"] for f in it["fields"]}
        if "start" not in d or "end" not in d:
            continue
        defs = defs or Defs(body)
        cl_end = list(defs.closure(d["end"]))
        cl_start = list(defs.closure(d["start"]))
        if not any(y.get("k") == "MCall" and y.get("name") == "chain_index" for y in cl_end + cl_start):
            continue
        # the walked object: a local handed mutably to a callee that advances its level on every normal path
        walked = None
        for x in walk(lp["body"]):
            f = callee(x)
            if f is None or x.get("k") not in ("Call", "MCall"):
                continue
            args = ([x["recv"]] if x["k"] == "MCall" else []) + x["args"]
            for ai, a in enumerate(args):
                rl = root_local(a)
                if rl and (facts.ty_adj(a).startswith("&mut ") or facts.ty(a).startswith("&mut ")):
                    tk = target_key(f)
                    if tk in facts.items and must_advance(facts, tk, ai) is True:
                        walked = rl
        if walked is None:
            continue
        n += 1
        rep.fn(p)
        loc = facts.loc(p, lp)
        akey = "%s/for#%d/%s/hops" % (p, k, walked[1])
        own = {walked[0]}
        for _ in range(3):
            for x in walk(body):
                if x.get("k") == "Assign":
                    rl = root_local(x["lhs"])
                    src = root_local(x["rhs"])
                    if rl and src and rl[0] in own:
                        own.add(src[0])
                if x.get("k") == "Let" and x["pat"].get("k") == "PBind" and "init" in x and x["pat"]["lid"] in own:
                    src = root_local(x["init"])
                    if src:
                        own.add(src[0])

        def origin(cl):
            o = {"own": False, "end": None, "param": False}
            for y in cl:
                if y.get("k") == "MCall" and y.get("name") == "parms_id":
                    rl = root_local(y["recv"])
                    if rl and rl[0] in own:
                        o["own"] = True
                if y.get("k") == "MCall" and y.get("name") in LEVEL_ENDS:
                    o["end"] = y["name"]
                if y.get("k") == "Path" and y.get("res") == "local" and "ParmsID" in facts.ty(y) and \
                        _param_index_of(facts, p, y["lid"]) is not None:
                    o["param"] = True
            return o
        hi, lo = origin(cl_end), origin(cl_start)
        if hi["own"] and not hi["end"] and lo["param"] and not lo["own"]:
            rep.ok("R-LOOP(adv)", akey, "hop count = chain_index(level of `%s`) - chain_index(requested level)" % walked[1], loc,
                   sample={"walked": walked[1]})
        elif hi["end"] and not hi["own"]:
            rep.violation("R-LOOP(adv)", akey, "the number of level hops applied to `%s` is measured from %s() instead of the "
                          "object's own level: an object already below that level is moved past the requested level (or off "
                          "the end of the chain), and an upward request is silently accepted" % (walked[1], hi["end"]), loc)
        else:
            rep.unresolved("R-LOOP(adv)", akey, "counted level walk whose bounds are not recognised as chain_index(own level) and "
                           "chain_index(requested level)", loc)
    return n


def _level_walk(facts, rep, p, lp, cond, lbody, ordinal, loc):
    """level-walking clause for one loop; returns 1 if the loop walks a level, else 0"""
    W = may_writes(facts, [cond, lbody])
    walked = None
    for x in walk(cond):
        f = callee(x)
        if x.get("k") == "MCall" and f and f["name"] == "parms_id":
            rl = root_local(x["recv"])
            if rl and rl[0] in W:
                walked = rl
    if walked is None:
        return 0
    akey = "%s/%s#%d/%s" % (p, "while", ordinal, walked[1])
    verdicts = []
    for x in walk(lbody):
        f = callee(x)
        if f is None or x.get("k") not in ("Call", "MCall"):
            continue
        args = ([x["recv"]] if x["k"] == "MCall" else []) + x["args"]
        for ai, a in enumerate(args):
            rl = root_local(a)
            if rl and rl[0] == walked[0] and (facts.ty_adj(a).startswith("&mut ") or facts.ty(a).startswith("&mut ")):
                tk = target_key(f)
                if tk in facts.items:
                    verdicts.append((tk, must_advance(facts, tk, ai)))
                    rep.stats["paths"] += 1
    if not verdicts:
        rep.unresolved("R-LOOP(adv)", akey, "no local callee receives `%s` mutably" % walked[1], loc)
    elif any(v is True for _, v in verdicts):
        rep.ok("R-LOOP(adv)", akey, "`%s` is advanced on every normal path of %s" %
               (walked[1], ", ".join(t for t, v in verdicts if v is True)), loc,
               sample={"walked": walked[1], "callee": [t for t, v in verdicts if v is True]})
    elif any(v is None for _, v in verdicts):
        rep.unresolved("R-LOOP(adv)", akey, "advance summary unknown for %s" % ", ".join(t for t, _ in verdicts), loc)
    else:
        rep.violation("R-LOOP(adv)", akey,
                      "level-walking loop: %s can return normally without moving `%s` to the next level "
                      "(no resize/set_parms_id fed from next_context_data on some path): for such inputs the "
                      "loop condition never changes" % (", ".join(t for t, _ in verdicts), walked[1]), loc)
    return 1


def _name_of(node):
    rl = None
    k = node.get("k")
    if k in ("Assign", "AssignOp"):
        rl = root_local(node["lhs"])
    elif k == "Ref":
        rl = root_local(node["e"])
    elif k == "MCall":
        for a in [node["recv"]] + node["args"]:
            r = root_local(a)
            if r:
                rl = r
    elif k == "Call":
        for a in node["args"]:
            r = root_local(a)
            if r:
                rl = r
    return rl[1] if rl else "?"
