"""R-TAPE [N] — every party consumes the common random tape identically.

The parties of a multiparty protocol derive the public randomness (the `a` / `c1` polynomials everyone must agree on) from
a common seeded generator, each from its own copy.  The copies stay in step only if every party draws the same amounts in the
same order, whatever its identity.  Hence no call that receives the common generator (the value of `borrow_common_rng()`,
directly or through a local bound to it) may be control-dependent on the party's identity: not inside a branch whose condition
reads `participant_id`, nor inside a loop whose bounds do.  Otherwise the parties on the two sides of the branch have
consumed different amounts, and EVERY later value taken from the tape (the next public key, the next re-encryption mask)
differs between them — the protocol that contains the branch may still succeed, which is why a test of that protocol alone
cannot see it.
"""
from facts import walk, callee, strip, local_of, root_local, Defs, Tree

R = "R-TAPE"


def run(facts, rep, prefix="src/multiparty/", floor=0):
    rep.rule(R, "no call receiving the common generator is control-dependent on participant_id (branch condition or loop bound, "
             "followed through local definitions)")
    n = 0
    for p in sorted(facts.hir):
        it = facts.items[p]
        if not it["file"].startswith(prefix) or "::tests::" in p or it.get("kind") == "test":
            continue
        body = facts.hir[p]
        if not any(x.get("k") == "MCall" and x.get("name") == "borrow_common_rng" for x in walk(body)):
            continue
        defs = Defs(body)
        tree = Tree(body)
        handles = set()
        for x in walk(body):
            if x.get("k") == "Let" and x["pat"].get("k") == "PBind" and "init" in x and \
                    any(y.get("k") == "MCall" and y.get("name") == "borrow_common_rng" for y in walk(x["init"])):
                handles.add(x["pat"]["lid"])

        def is_handle(a):
            if any(y.get("k") == "MCall" and y.get("name") == "borrow_common_rng" for y in walk(a)):
                return True
            rl = root_local(a)
            return bool(rl and rl[0] in handles)

        def reads_identity(e):
            return any(y.get("k") == "Field" and y.get("name") == "participant_id" for y in defs.closure(e)) or \
                any(y.get("k") == "MCall" and y.get("name") == "participant_id" for y in defs.closure(e))
        rep.fn(p)
        k = 0
        for x in walk(body):
            if x.get("k") not in ("Call", "MCall"):
                continue
            if x.get("k") == "MCall" and x.get("name") == "borrow_common_rng":
                continue
            args = ([x["recv"]] if x["k"] == "MCall" else []) + x.get("args", [])
            if not any(is_handle(a) for a in args):
                continue
            # `let h = &mut X.borrow_common_rng() as ..` style wrappers are not draws
            nm = (callee(x) or {}).get("name") or x.get("name")
            if nm in ("deref", "deref_mut", "borrow", "borrow_mut", "as_mut", "as_ref", "clone"):
                continue
            n += 1
            key = "%s/draw#%d/%s" % (p, k, nm)
            k += 1
            culprit = None
            for a in tree.ancestors(x):
                ka = a.get("k")
                if ka == "If" and not any(y is x for y in walk(a["c"])) and reads_identity(a["c"]):
                    culprit = ("branch", a)
                elif ka == "Match" and reads_identity(a["e"]) and not any(y is x for y in walk(a["e"])):
                    culprit = ("branch", a)
                elif ka == "While" and reads_identity(a["c"]):
                    culprit = ("loop", a)
                elif ka == "For" and reads_identity(a["iter"]) and not any(y is x for y in walk(a["iter"])):
                    culprit = ("loop", a)
                if culprit:
                    break
            if culprit:
                rep.violation(R, key, "`%s` draws from the common tape inside a %s that depends on participant_id (line %s): parties on "
                              "the two sides consume different amounts of the tape, so every value they later take from it — the "
                              "next collective key, the next re-encryption mask — differs between them" %
                              (nm, culprit[0], culprit[1].get("l")), facts.loc(p, x))
            else:
                rep.ok(R, key, "`%s` draws from the common tape on an identity-independent path" % nm, facts.loc(p, x),
                       sample={"function": p, "call": nm})
    rep.floor(R, "calls receiving the common generator", n, floor)
    return n
